/-
C03 — Lexical scoping, closures and one-time defaults.

Compile-time half over the scope model (XrayModel/Scope.lean, mirror of compilation_scope.rs + the scope
handling of parser.rs): name resolution, capture cells, capture re-threading, the forward gate.
Run-time half over the core evaluator (XrayModel/Core.lean): closures keep the environment of their creation,
defaults are computed once, at creation.

`intern_injective` (distinct spellings are distinct identifiers; the names of the scope model are the symbols
the interner returns) is proved over the interner model of XrayModel/Lex.lean in Props/C12.lean
(`XrayModel.C12.intern_injective`); here the interner is tied by the spelling sweep of checklib/c03.py.
-/
import XrayProofs.Scope
import XrayProofs.Closure
import XrayModel.ScopeRun
import XrayProofs.CompileProg
import XrayProofs.CompileFun
import XrayProofs.CompileFunProg
namespace XrayModel.C03
open XrayModel.Scope XrayModel.Core XrayModel.ScopeRun

/-! ## capture threading -/

/-- **capture_threading.** Take any nest of scopes `chain` (innermost first), each with arbitrary cells, and
close it as the compiler does: innermost first, `into_static_ud` turning every capture deeper than one level
into `Capture{1, n}` plus a request `Capture{depth-1, cell}` pushed into the parent, which then goes on
compiling (arbitrary further cells `es`) before it is closed in turn.  Reading any cell of the innermost
function through the closed structure — following `Capture{1, k}` into the parent's cells, level by level, as
`from_spec` does at run time — gives exactly what the original `Capture{depth, cell}` named.
No bound on the nesting depth, the number of captures or the cells in between. -/
theorem capture_threading (chain es : List (List Cell)) (hok : OKX chain es) (i : Nat) :
    R (closeAllX chain es) i = R chain i :=
  closeAllX_reads chain.length chain es rfl hok i

/-- the explicit form: the capture `Capture{d, k}` of a Variable/Recourse cell `k` of the `d`-th ancestor is
read, after all the re-threading, as (that ancestor, that cell) -/
theorem capture_threading_explicit (c0 : List Cell) (rest es : List (List Cell)) (hok : OKX (c0 :: rest) es)
    (i d k : Nat) (hd : 1 ≤ d) (hc : c0[i]? = some (.cap d k)) (anc : List Cell) (ha : rest[d - 1]? = some anc)
    (hk : anc[k]? = some .var ∨ anc[k]? = some .recur) :
    R (closeAllX (c0 :: rest) es) i = some (d, k) := by
  rw [capture_threading _ _ hok, R_cons, hc]
  have hd0 : ¬ d = 0 := by omega
  simp only [hd0, if_false]
  have hdrop : rest.drop (d - 1) = anc :: rest.drop (d - 1 + 1) := by
    rw [List.drop_eq_getElem?_toList_append, ha]; rfl
  rw [hdrop, R_cons]
  rcases hk with h | h <;> simp [h]

/-- in a closed function every capture has depth 1 (`CellSpec::Capture`: "i'm pretty sure this is always 1") -/
theorem closed_capture_depth_one (cells : List Cell) (parentLen d k : Nat)
    (h : Cell.cap d k ∈ (threadCells cells parentLen).1) : d ≤ 1 :=
  threadCells_depth_le_one cells parentLen d k h

/-- hypotheses satisfiable, and the statement is about real re-threading: a capture at distance 3 -/
example :
    let chain : List (List Cell) := [[.var, .cap 3 0, .cap 1 0], [.var, .recur], [.var], [.var, .var]]
    OKX chain [[.var], []] ∧ closeAllX chain [[.var], []] =
      [[.var, .cap 1 2, .cap 1 0], [.var, .recur, .cap 1 1, .var], [.var, .cap 1 0], [.var, .var]] ∧
    R (closeAllX chain [[.var], []]) 1 = some (3, 0) := by
  refine ⟨?_, ?_, ?_⟩
  · simp [OKX, HeadOK, threadCells]
  · simp [closeAllX, threadCells]
  · simp [closeAllX, threadCells, R, resolve]

/-! ## name resolution -/

/-- **resolve_nearest_preceding (which declaration).** The resolver walks outwards and stops at the first
scope that declares the name: the variable it returns is the latest binding of the name in the nearest
enclosing scope that declares it at all — and since a scope only contains the declarations compiled so far,
that declaration textually precedes the use. -/
theorem resolve_nearest_preceding (chain : List Scope) (x : String) (h k : Nat) (rq : List FwdReq)
    (hg : getItem chain x = .ok (some (.value (h, k, rq)))) :
    ∃ pre s post, chain = pre ++ s :: post ∧ (∀ t ∈ pre, ¬ Declares t x) ∧
      Scope.lookup x s.vars = some k ∧ s.cells[k]? = some .var ∧ s.height = h ∧ rq = s.cellReqs k :=
  getItem_value_nearest chain x h k rq hg

/-- **resolve_nearest_preceding (which cell).** Compiling a use of the name yields `Value(i)` whose cell — the
declaration's own cell when it lives in the current scope, a new `Capture{height difference, cell}` otherwise —
reads exactly (distance to that nearest declaring scope, its cell). -/
theorem use_reads_nearest (ps : List Scope) (cur cur' : Scope) (x : String) (e : XE) (c : Cand)
    (hH : Heights (cur :: ps)) (hg : getItem (cur :: ps) x = .ok (some (.value c)))
    (hc : compileIdent ps cur x = .ok (e, cur')) :
    ∃ pre s post i, cur :: ps = pre ++ s :: post ∧ (∀ t ∈ pre, ¬ Declares t x) ∧
      Scope.lookup x s.vars = some c.2.1 ∧ e = .val i ∧ R (cur'.cells :: cellsOf ps) i = some (pre.length, c.2.1) := by
  obtain ⟨h, k, rq⟩ := c
  obtain ⟨pre, s, post, h1, h2, h3, h4, h5, -⟩ := getItem_value_nearest _ x h k rq hg
  simp only [compileIdent, hg] at hc
  obtain ⟨i, hi, hr, -⟩ := useCand_reads ps cur cur' (h, k, rq) e pre s post h1 hH h5.symm (Or.inl h4) hc
  exact ⟨pre, s, post, i, h1, h2, h3, hi, hr⟩

/-- **a later shadowing declaration never changes the meaning of an earlier use** (same scope): after
`let x = …` is added, the name denotes the new cell, every other name denotes what it did, and every cell
compiled before — in particular the cells earlier uses of `x` were compiled to — reads what it read. -/
theorem later_declaration_keeps_earlier_uses (cur cur' : Scope) (x : String) (e : XE) (ps : List Scope)
    (h : addVariable cur x e = .ok cur') :
    getItem (cur' :: ps) x = .ok (some (.value (cur.height, cur.cells.length, cur'.cellReqs cur.cells.length))) ∧
    (∀ y, y ≠ x → Scope.lookup y cur'.vars = Scope.lookup y cur.vars) ∧
    (∀ rest i, i < cur.cells.length → R (cur'.cells :: rest) i = R (cur.cells :: rest) i) := by
  refine ⟨?_, ?_, ?_⟩
  · have hl := lookup_addVariable h x
    simp only [if_true] at hl
    have hc : cur'.cells[cur.cells.length]? = some .var := by
      simp only [addVariable] at h
      split at h
      · cases h
      · cases h; simp
    have hh : cur'.height = cur.height := (addVariable_ext h).2
    rw [getItem_var cur' ps x _ hl hc, hh]
  · intro y hy
    rw [lookup_addVariable h y, if_neg hy]
  · intro rest i hi
    exact (addVariable_ext h).reads rest i hi

/-- the same for every other way a scope grows: whatever is compiled later in a scope (captures, functions,
lambdas, forward declarations, the capture requests of inner functions), the cells that exist keep their reading.
(An inner scope never modifies its parents at all: they are immutably borrowed while it is alive; closing it
only appends its capture requests.) -/
theorem growth_keeps_readings {a b : Scope} (h : Ext a b) (rest : List (List Cell)) (i : Nat)
    (hi : i < a.cells.length) : R (b.cells :: rest) i = R (a.cells :: rest) i :=
  h.reads rest i hi

/-- … and for whole programs: whatever declarations are compiled afterwards in a scope — shadowing `let`s,
functions and lambdas whose parameters or locals shadow the name, forward declarations — every cell the scope
had (so every cell an earlier use was compiled to) reads what it read. -/
theorem later_declarations_keep_earlier_uses (fuel : Nat) (ps : List Scope) (cur cur' : Scope) (ds : List SDecl)
    (h : feedDecls fuel ps cur ds = .ok cur') (rest : List (List Cell)) (i : Nat) (hi : i < cur.cells.length) :
    R (cur'.cells :: rest) i = R (cur.cells :: rest) i :=
  ((compile_ext fuel).2.2.2.2.2.2 ps cur ds cur' h).reads rest i hi

/-! ## distinct names, distinct cells -/

/-- **distinct_names_distinct_cells.** In a scope two different identifiers never share a cell: not two
variables/parameters, not a variable and a function, not two functions; and every name's cell exists.
The invariant holds for a fresh function or lambda scope and is kept by every declaration. -/
theorem distinct_names_distinct_cells (s : Scope) (inv : NameInv s) (x y : String) (hxy : x ≠ y) :
    (∀ k k', Scope.lookup x s.vars = some k → Scope.lookup y s.vars = some k' → k ≠ k') ∧
    (∀ k k', Scope.lookup x s.vars = some k → k' ∈ overloadCells y s.funcs → k ≠ k') ∧
    (∀ k k', k ∈ overloadCells x s.funcs → k' ∈ overloadCells y s.funcs → k ≠ k') := by
  refine ⟨?_, ?_, ?_⟩
  · intro k k' h1 h2 hk; subst hk; exact hxy (inv.varInj x y k h1 h2)
  · intro k k' h1 h2 hk; subst hk; exact inv.varFun x y k h1 h2
  · intro k k' h1 h2 hk; subst hk; exact hxy (inv.funInj x y k h1 h2)

theorem name_invariant_established_and_kept :
    (∀ parent names r s, fromParent parent names r = .ok s → NameInv s) ∧
    (∀ parent names s, fromParentLambda parent names = .ok s → NameInv s) ∧
    NameInv ({} : Scope) ∧
    (∀ cur cur' x e, NameInv cur → addVariable cur x e = .ok cur' → NameInv cur') ∧
    (∀ cur cur' x f, NameInv cur → addStaticFunc cur x f = .ok cur' → NameInv cur') ∧
    (∀ cur cur' x, NameInv cur → addForwardFunc cur x = .ok cur' → NameInv cur') ∧
    (∀ cur f, NameInv cur → NameInv (addAnonymousFunc cur f).2) ∧
    (∀ cur c, NameInv cur → NameInv (cur.push c)) :=
  ⟨fun _ _ _ _ h => fromParent_inv h, fun _ _ _ h => fromParentLambda_inv h, NameInv.empty 0,
   fun _ _ _ _ inv h => addVariable_inv inv h, fun _ _ _ _ inv h => addStaticFunc_inv inv h,
   fun _ _ _ inv h => addForwardFunc_inv inv h,
   fun _ _ inv => inv.moreCells [.var] rfl rfl rfl, fun _ c inv => inv.moreCells [c] rfl rfl rfl⟩

/-! ## the forward gate -/

/-- **forward_gate.** `unfulfilledBehind chain r` mirrors `unfulfilled_behind`: the forward functions that are not
implemented yet behind the requirement `r` — `r` itself or, when `r` is implemented, (transitively) every one that
its implementation needs; the requirements of an implementation are read from the cell of the forward function in the
scope that OWNS it (`owner.cells`).  A function behind one of whose requirements stands such a function declared in the
current scope cannot be used: neither as the callee of a compiled call (`prepare_return`) nor as a value (`Ident`);
both go through `useCand`. -/
theorem forward_gate (ps : List Scope) (cur : Scope) (c : Cand) (r m : FwdReq) (ms : List FwdReq)
    (hr : r ∈ c.2.2) (hms : unfulfilledBehind (cur :: ps) r = .ok ms) (hm : m ∈ ms)
    (hh : m.height = cur.height) : ∀ out, useCand ps cur c ≠ .ok out :=
  useCand_blocked ps cur c r m ms hr hms hm hh

/-- used from a deeper scope, EVERY unfulfilled function behind the requirement is recorded in that scope's own
requirements (not only the first one met: when that one gets implemented the others must not be forgotten); they
become the requirements of the function that scope is compiled into (`into_static_ud`), and the requirements of its
cell in the parent (`add_static_func`, also when it fulfils a forward declaration) -/
theorem forward_gate_transitive (ps : List Scope) (cur cur' : Scope) (c : Cand) (e : XE) (r m : FwdReq)
    (ms : List FwdReq) (h : useCand ps cur c = .ok (e, cur')) (hr : r ∈ c.2.2)
    (hms : unfulfilledBehind (cur :: ps) r = .ok ms) (hm : m ∈ ms) :
    m ∈ cur'.fwdReqs ∧
    (∀ dflts n out pl, (intoStaticUd cur' dflts n out pl).1.freqs = cur'.fwdReqs) :=
  ⟨useCand_inherits ps cur cur' c e r m ms h hr hms hm, fun _ _ _ _ => rfl⟩

/-- **the gate sees through implementations, completely** (what fix 78a2146 started, the C03 fixes completed and the
seeded `self.cells` slip breaks): EVERY forward function reachable from `r` — `r`, the requirements recorded on the cell
of its implementation in the owning scope, theirs, … (`Reach`) — is either implemented or reported by
`unfulfilled_behind`; and what it reports is unimplemented.  In particular an empty answer means that everything the
use can reach is implemented. -/
theorem forward_gate_closure (chain : List Scope) (r : FwdReq) (ms : List FwdReq)
    (h : unfulfilledBehind chain r = .ok ms) :
    (∀ r', Reach chain r r' → (∃ more, behindStep chain r' = .ok (true, more)) ∨ r' ∈ ms) ∧
    (∀ m ∈ ms, ∃ more, behindStep chain m = .ok (false, more)) :=
  unfulfilledBehind_complete chain r ms h

/-- the gate on closed programs (the model runs): a forward function taken as a value, called, or used by a
lambda before its definition is `MissingForwardImplementation`; after the definition it is allowed -/
example : errOf (compileProgram 50 [.fwdD "g", .letD "h" (.ident "g")]) = some (.missingForward "g") := by decide +kernel
example : errOf (compileProgram 50 [.fwdD "g", .letD "r" (.call (.ident "g") [.lit (.int 0)])]) = some (.missingForward "g") := by decide +kernel
example : errOf (compileProgram 50 [.fwdD "g", .letD "k" (.lam (.mk [.mk "x" none] [] (.call (.ident "g") [.ident "x"])))])
    = some (.missingForward "g") := by decide +kernel
example : errOf (compileProgram 50 [.fwdD "a", .fwdD "b", .fnD "a" (.mk [.mk "x" none] [] (.call (.ident "b") [.ident "x"])),
    .letD "r" (.call (.ident "a") [.lit (.int 0)])]) = some (.missingForward "b") := by decide +kernel
example : errOf (compileProgram 50 [.fwdD "g", .fnD "g" (.mk [.mk "x" none] [] (.ident "x")), .letD "h" (.ident "g")]) = none := by decide +kernel

/-- the transitive gate seen from a NESTED scope: `g` was defined while `f` was pending; `f` is implemented on top of
the still unimplemented `h`; `via` uses `g` from its body, and calling `via` early is rejected (naming `h`) -/
example : errOf (compileProgram 60
    [.fwdD "f", .fnD "g" (.mk [] [] (.call (.ident "f") [])), .fwdD "h",
     .fnD "f" (.mk [] [] (.call (.ident "h") [])), .fnD "via" (.mk [] [] (.call (.ident "g") [])),
     .letD "early" (.call (.ident "via") [])]) = some (.missingForward "h") := by decide +kernel

/-- all of them are remembered: `via` uses `t`, `t` uses `a`, `a` is implemented on top of the unimplemented `b` and `c`;
after `c` is implemented, calling `via` is still rejected (naming `b`) -/
example : errOf (compileProgram 60
    [.fwdD "a", .fwdD "b", .fwdD "c", .fnD "t" (.mk [] [] (.call (.ident "a") [])),
     .fnD "a" (.mk [] [] (.tup [.call (.ident "b") [], .call (.ident "c") []])),
     .fnD "via" (.mk [] [] (.call (.ident "t") [])), .fnD "c" (.mk [] [] (.lit (.int 1))),
     .letD "u" (.call (.ident "via") [])]) = some (.missingForward "b") := by decide +kernel

/-- a lambda is gated where it is written -/
theorem forward_gate_lambda (fuel : Nat) (ps : List Scope) (cur : Scope) (lf : CFunc) (out : XE × Scope)
    (h : compileExpr (fuel + 1) ps cur (.lamF lf) = .ok out) :
    ∀ r ∈ lf.freqs, ∀ ms, unfulfilledBehind (cur :: ps) r = .ok ms → ∀ m ∈ ms,
      m.height ≠ cur.height ∧ m ∈ out.2.fwdReqs := by
  simp only [compileExpr] at h
  split at h
  · cases h
  · rename_i cur1 hreq
    cases h
    intro r hr ms hms m hm
    have := requireForwards_gate ps cur cur1 _ hreq r hr ms hms m hm
    exact ⟨this.1, by simpa [addAnonymousFunc] using this.2⟩

/-- the host-side gate (`get_user_defined_function`): a function is handed to the host only if nothing unimplemented
stands behind any of its requirements (transitively, as at compile time) -/
theorem forward_gate_host (root : Scope) (x : String) (k : Nat) (h : hostGet root x = .ok k) :
    ∀ r ∈ root.cellReqs k, unfulfilledBehind [root] r = .ok [] :=
  hostGet_ok root x k h

/-! ## run-time resolution of a pending (forward) capture — known finding, `_partial` + witness -/

/-- FULL STATEMENT (false of the code, see the witness below):
  ∀ arena caller d pid cell, (arena[d]?.map (·.tid) = some pid) → readPending arena caller pid cell = definingCell arena d cell
i.e. a pending capture reads the activation in which the function was created, wherever it is called from.
What holds: it does when the function is called from its defining activation itself … -/
theorem runtime_capture_agrees_partial (arena : List Act) (d pid cell : Nat) (act : Act)
    (hd : arena[d]? = some act) (ht : act.tid = pid) :
    readPending arena (some d) pid cell = definingCell arena d cell := by
  simp [readPending, findParent, definingCell, hd, ht]

/-- … or from an activation whose scope-parent chain reaches the defining activation before any other
activation of the same template -/
theorem runtime_capture_agrees_partial_chain (arena : List Act) (c d pid cell : Nat) (cact : Act)
    (hc : arena[c]? = some cact) (hne : cact.tid ≠ pid) (hp : cact.scopeParent = some d) (act : Act)
    (hd : arena[d]? = some act) (ht : act.tid = pid) :
    readPending arena (some c) pid cell = definingCell arena d cell := by
  have hl : arena.length + 1 = (arena.length - 1 + 1) + 1 := by
    have : c < arena.length := by
      rcases Nat.lt_or_ge c arena.length with h | h
      · exact h
      · rw [List.getElem?_eq_none_iff.mpr h] at hc; cases hc
    omega
  simp only [readPending]
  rw [hl]
  simp [findParent, definingCell, hc, hne, hp, hd, ht]

/-- witness of the defect: two activations (1 and 2) of the same function `outer` (template 1) under the root
(template 0); the closure made in activation 1 (cell 0 = 1) is called from activation 2 (cell 0 = 100): it reads
100; called from the root it panics (`none`) -/
theorem runtime_capture_wrong_activation :
    ¬ ∀ (arena : List Act) (caller : Option Nat) (d pid cell : Nat),
      (arena[d]?.map (·.tid) = some pid) → readPending arena caller pid cell = definingCell arena d cell := by
  intro h
  have := h [⟨0, none, []⟩, ⟨1, some 0, [some 1]⟩, ⟨1, some 0, [some 100]⟩] (some 2) 1 1 0 (by decide)
  revert this
  decide

example : readPending [⟨0, none, []⟩, ⟨1, some 0, [some 1]⟩] (some 0) 1 0 = none := by decide

/-! ## closures and defaults (core evaluator) -/

/-- **defaults_once (creation).** Creating a function value runs `evalDflts` — each default expression once,
left to right (`evalDflts_cons_some` / `evalDflts_cons_none`), in the defining frame, from the state before to
the state after the creation — and stores the values in the closure. -/
theorem defaults_once (fuel : Nat) (cfg : Cfg) (fr : Frame) (f : Func) (st st' : St) (c : Val)
    (h : mkClos (fuel + 1) cfg fr f st = (.val c, st')) :
    ∃ ds, evalDflts fuel cfg fr f.params st = (.ok ds, st') ∧
      c = .clos f ds (match fr.self with | some s => fr.env ++ [s] | none => fr.env) :=
  mkClos_defaults fuel cfg fr f st st' c h

/-- **defaults_once (call).** The result of calling a lambda's closure does not depend on the default
*expressions* in its code: replace every one of them, the call (`callUser`, for any arguments, limits and
state) is the same — only the stored default *values* are read. -/
theorem defaults_once_call (fuel : Nat) (cfg : Cfg) (h : Nat) (ps ps' : List Param) (decls : List Decl)
    (body : Expr) (ds : List Val) (env : List (String × Val)) (hs : SameShape ps ps') (args : List Val) (st : St) :
    callUser fuel cfg h (.clos (.mk none ps decls body) ds env) args st
      = callUser fuel cfg h (.clos (.mk none ps' decls body) ds env) args st :=
  callUser_lambda_defaults fuel cfg h ps ps' decls body ds env hs args st

/-- for every closure (named too): parameter binding reads the names and the optionality of the parameters and
the stored values, never a default expression -/
theorem defaults_once_binding (ps ps' : List Param) (hs : SameShape ps ps') (args ds : List Val) :
    bindParams ps args ds = bindParams ps' args ds :=
  bindParams_congr ps ps' hs args ds

/-- **closure_env_fixed.** A call of a function value depends on the caller's frame only through the values
of the arguments and the stack height: extending or shadowing the caller's environment changes nothing … -/
theorem closure_env_fixed (fuel : Nat) (cfg : Cfg) (fr fr' : Frame) (c : Val) (args : List Expr)
    (tail : Bool) (st : St) (hh : fr.height = fr'.height)
    (hargs : evalList fuel cfg fr args st = evalList fuel cfg fr' args st) :
    callVal (fuel + 1) cfg fr c args tail st = callVal (fuel + 1) cfg fr' c args tail st :=
  callVal_caller_irrelevant fuel cfg fr fr' c args tail st hh hargs

/-- … because the callee's declarations and body run in the environment captured at creation, extended with
the parameters (bound from the arguments and the stored default values) -/
theorem closure_body_env (fuel : Nat) (cfg : Cfg) (h : Nat) (f : Func) (ds : List Val) (env : List (String × Val))
    (args : List Val) (r : Nat) (st : St) (ps : List (String × Val))
    (hb : bindParams f.params args ds = some ps)
    (hd : ∀ l, cfg.depthLimit = some l → h + 1 < l) :
    tramp (fuel + 1) cfg h (.clos f ds env) args r st =
      (let fr : Frame := { env := ps.reverse ++ env,
                           self := (match f.name with | some n => some (n, .clos f ds env) | none => none),
                           height := h + 1 }
       match evalDecls fuel cfg fr f.decls st with
       | (.error r', st') => (r', st')
       | (.ok fr', st') =>
         match eval fuel cfg fr' f.body true st' with
         | (.tail newArgs, st'') =>
           if (match cfg.recLimit with | some l => decide (r + 1 > l) | none => false) then (.viol .recursion, st'')
           else tramp fuel cfg h (.clos f ds env) newArgs (r + 1) st''
         | r' => r') :=
  tramp_frame fuel cfg h f ds env args r st ps hb hd

/-! ## compile_correct: the compiled cell program against the named evaluator

FULL STATEMENT (not proved; `compile_correct`): for every core program `ds : List Core.Decl`
  (forward declarations do not exist in Core.lean; lambdas without optional parameters — a lambda is created, and
   its defaults evaluated, when the enclosing scope is entered, see the finding `c03:lam-hoist:wrong-output`, so
   with such defaults the statement is false; a computed callee `callE` is not a bare variable — that is `call`),
  `compileProgram cf (ofDecls ds) = .ok root →`
  for all `fuel` with `Core.runProgram fuel cfg ds ≠ oof` there is `fuel'` such that `runRoot fuel' cfg root` has the
  same outcome (bindings of the `let`s related by the value relation "same first-order value / a function value on
  both sides", violations by kind, the same output lines and the same number of counted calls), and conversely.
STATE OF THE PROOF.
 * whole programs of `let`s over the function-free fragment: `compile_correct_partial` (below), an equality for every fuel;
 * whole programs of `let`s and top-level functions WITHOUT captures (parameters and natives only, no recursion, no
   optional parameters, no local declarations), called by name with the right arity — the decidable fragment
   `progOKF`: `compile_correct_partial_funs` (at the end of this file), same shape, an equality for every fuel.  Its
   pieces: the compile-time half `compile_correct_fun_decl` (`closeFunc`/`into_static_ud` give exactly the static
   function of `tmplOf`; expressions over a scope with functions compile to `cxf vars funs e`, `compile_fragF`), the
   declaration loop (`feed_runF`: `mkClos`/`mkTemplate` put the closure / the template `tmplOf k f` into the name / the
   cell, the frame agreement is re-established from the decidable condition), and the run-time half
   `compile_correct_call` / `compile_correct_partial_calls`.  Equalities at the same fuel: the cell model spends fuel
   exactly where `Core.lean` does (binding parameters costs nothing, `evalDflts` walks over the required parameters).
 NOT proved, towards the full statement — everything with captures:
   the value relation between named closures (code + default values + captured environment) and cell closures
   (template + cells resolved by `from_spec`) when the capture list is not empty — that the cells `capture_threading`
   and `use_reads_nearest` speak about are filled with the values of the named environment (the structural theorems
   give the addresses, this would give the contents); in particular a function calling another top-level function or
   itself (a capture of a function cell / the recursion cell `LocalRecourse`, with the tail special case), closures
   as values (arguments, results, tuple items), nested declarations, defaults, lambdas; with lambdas the statement has
   to be fuel-existential, because hoisted lambda declarations spend fuel the named evaluator does not.

PROVED (`compile_correct_partial`, for whole programs; `compile_correct_partial_expr` for expressions): the
function-free fragment — no function declarations, no lambdas, no computed callees; variables (with shadowing), literals, tuples, arrays, item access, calls of bound non-function values, and
all natives of the core fragment (the strict ones, `display`, and the short-circuiting `if`/`and`/`or`/`if_error`/
`is_error`, which evaluate only the selected argument and forward the tail slot): parsing + compiling such an expression in a
root scope creates no cell, and evaluating the compiled expression on the cell machine, in an activation whose cells
hold the values of the named environment under the compile-time name→cell map, gives for every fuel, configuration,
tail flag and state exactly the named evaluator's outcome (value, error value, violation, stuck, out of fuel) and
the same state (output lines, call counter).  For a whole program of `let`s: the compiled program run from the root
template ends, for every fuel and configuration (depth limit not 0: the root activation itself is checked against
it), in the same state and the same outcome as `Core.runProgram`, and every binding (latest declaration of each
name) holds the same value in its cell. -/
theorem compile_correct_partial (cfg : Core.Cfg) (ds : List Core.Decl) (hok : CellRun.declsOK ds = true) (cf : Nat)
    (root : Scope) (hc : compileProgram cf (CellRun.ofDecls ds) = .ok root) (hdl : cfg.depthLimit ≠ some 0)
    (fuel : Nat) :
    (Core.runProgram fuel cfg ds).2 = (CellRun.runRoot fuel cfg root).2 ∧
    match (Core.runProgram fuel cfg ds).1, (CellRun.runRoot fuel cfg root).1 with
    | .ok fr, .ok rfr => fr.self = none ∧ CellRun.FrRel fr.env root.vars rfr
    | .error r, .error r' => r' = CellRun.cr r
    | _, _ => False :=
  CellRun.compile_correct_program cfg ds hok cf root hc hdl fuel

/-- the expression level of the same fragment, in any root-like scope and any related activation -/
theorem compile_correct_partial_expr (cfg : Core.Cfg) (e : Core.Expr) (hok : CellRun.exprOK e = true) (cf1 cf2 : Nat)
    (cur : Scope) (rok : CellRun.RootOK cur) (p c : XE × Scope)
    (hp : parseExpr cf1 [] cur (CellRun.ofExpr e) = .ok p) (hc : compileExpr cf2 [] p.2 p.1 = .ok c) :
    c.2 = cur ∧
    ∀ fuel (fr : Core.Frame) (rfr : CellRun.RFrame) tail st, fr.self = none → CellRun.FrRel fr.env cur.vars rfr →
      CellRun.eval fuel cfg rfr c.1 tail st
        = (CellRun.cr (Core.eval fuel cfg fr e tail st).1, (Core.eval fuel cfg fr e tail st).2) := by
  obtain ⟨h1, -, h3⟩ := CellRun.compile_run_expr cfg e hok cf1 cf2 cur rok p c hp hc
  exact ⟨h1, fun fuel fr rfr tail st hs hrel => (h3 fuel fr rfr tail st hs hrel).1⟩

/-- the fragment is not empty: a program with shadowing, a tuple, display, and the short-circuiting natives -/
example :
    CellRun.declsOK [.letD "x" (.int 1), .letD "y" (.call "display" [.call "add" [.var "x", .int 2]]),
                     .letD "x" (.tup [.var "x", .var "y"]),
                     .letD "z" (.call "if" [.call "and" [.call "lt" [.var "y", .int 5], .call "or" [.bool false, .bool true]],
                                           .call "if_error" [.call "mod" [.var "y", .int 0], .int 7],
                                           .call "display" [.int 9]]),
                     .letD "e" (.call "is_error" [.call "error" [.str "boom"]])] = true := by decide

/-! ### towards functions: calls of top-level functions without captures

`CellRun.FunOK x f envc`: `f` is named `x`, has no optional parameters and no local declarations, `x` is not one of its
parameters, and its body (`BodyOK`) mentions only its parameters as variables and only names that are bound nowhere
(natives) as callees — no captures, no recursion.  `CellRun.tmplOf k f` is the template the cell machine builds for it
when it is declared in cell `k` of the root (parameter cells, the recursion cell, `Parameter` declarations, the compiled
body `cxf (paramVars …) [] body`).  `CellRun.WF C e`: at every name the expression mentions, the named frame and the
activation agree — a function-free value in the variable's cell, or such a closure under a function name with its
template in the function's cell — and every call site has the callee's arity. -/

/-- **the call step** (`callUser` / trampoline / `initFrame` + `runParams` + `runDecls` against `Core.callUser` /
`Core.tramp` / `bindParams` + `evalDecls`): calling the cell closure of such a function with the images of function-free
arguments gives exactly the named call's outcome and state — error arguments, call limit, depth limit, the body run
in the activation whose parameter cells hold the arguments — for every fuel, configuration and caller of the same
stack height. -/
theorem compile_correct_call (cfg : Core.Cfg) (fuel : Nat) (x : String) (f : Core.Func)
    (envc : List (String × Core.Val)) (k : Nat) (args : List Core.Val) (caller : CellRun.RFrame) (h : Nat) (st : St)
    (hfun : CellRun.FunOK x f envc) (hcf : ∀ a ∈ args, CellRun.closFree a = true)
    (hlen : args.length = f.params.length) (hh : caller.height = h) :
    CellRun.callUser fuel cfg caller (CellRun.tmplOf k f) (args.map CellRun.ofCore) st
      = (CellRun.cr (Core.callUser fuel cfg h (.clos f [] envc) args st).1,
         (Core.callUser fuel cfg h (.clos f [] envc) args st).2) :=
  ((CellRun.simF_all cfg fuel).2.2.2 x f envc k args caller h st hfun hcf hlen hh).1

/-- **expressions with calls of such functions**: under `WF`, the compiled expression `cxf vars funs e` (variables and
function names as cells, natives as library calls) evaluates on the cell machine to exactly the named evaluator's
outcome and state, for every fuel, configuration and tail flag — including the calls (arguments left to right, the
callee's activation, its body) -/
theorem compile_correct_partial_calls (cfg : Core.Cfg) (fuel : Nat) (e : Core.Expr) (C : CellRun.Ctx) (tail : Bool)
    (st : St) (hw : CellRun.WF C e) :
    CellRun.eval fuel cfg C.rfr (CellRun.cxf C.vars C.funs e) tail st
      = (CellRun.cr (Core.eval fuel cfg C.fr e tail st).1, (Core.eval fuel cfg C.fr e tail st).2) :=
  ((CellRun.simF_all cfg fuel).1 e C tail st hw).1

/-- the hypotheses are satisfiable: `fn inc(a) { if(lt(a, 0), neg(a), add(a, 1)) }` -/
example : CellRun.FunOK "inc"
    (.mk (some "inc") [.mk "a" none] []
      (.call "if" [.call "lt" [.var "a", .int 0], .call "neg" [.var "a"], .call "add" [.var "a", .int 1]])) [] := by
  simp [CellRun.FunOK, CellRun.BodyOK, CellRun.BodyOKs, Core.Func.name, Core.Func.decls, Core.Func.params,
    Core.Func.body, Core.Param.name, Core.Param.dflt, Core.lookup]

/-! ### whole programs with top-level functions without captures

`CellRun.progOKF ds` (decidable): `let`s over the fragment and declarations `fn name(p₁ … pₙ) { body }` without
optional parameters and local declarations whose body mentions only its parameters as variables and only names the
program declares nowhere (natives) as callees; function names are distinct from each other, from the variables and
from their own parameters; a function name is only used as a callee, with the right number of arguments.
`CellRun.InvR bad sig fr root rfr N` (the outcome relation for a completed run): at EVERY name the named frame `fr` and
the root activation `rfr` agree (`rel : ∀ x, RelAt …`): a variable's cell holds the image of its function-free value,
a function's cell holds the template `tmplOf k f` of its closure `clos f [] env` (with `FunOK`), an unbound name is
unbound on both sides. -/

/-- **compile_correct_partial_funs.** For every program of that fragment that the scope model compiles: the compiled
cell program run from the root template and `Core.runProgram` on the source end, for every fuel and configuration
(depth limit not 0), in the same state (output lines, call counter) and in related outcomes: the same error value /
violation / stuck / out-of-fuel outcome, or activations that agree at every name. -/
theorem compile_correct_partial_funs (cfg : Core.Cfg) (ds : List Core.Decl) (hok : CellRun.progOKF ds = true) (cf : Nat)
    (root : Scope) (hc : compileProgram cf (CellRun.ofDecls ds) = .ok root) (hdl : cfg.depthLimit ≠ some 0)
    (fuel : Nat) :
    (Core.runProgram fuel cfg ds).2 = (CellRun.runRoot fuel cfg root).2 ∧
    match (Core.runProgram fuel cfg ds).1, (CellRun.runRoot fuel cfg root).1 with
    | .ok fr, .ok rfr =>
      CellRun.InvR (CellRun.declNames ds) (CellRun.sigAfter [] ds) fr root rfr root.cells.length
    | .error r, .error r' => r' = CellRun.cr r
    | _, _ => False :=
  CellRun.compile_correct_program_funs cfg ds hok cf root hc hdl fuel

/-- the compile-time half on its own: such a declaration compiles to exactly the static function whose template is
`tmplOf` (`cfOf`: parameter cells, the recursion cell, `Parameter` declarations, the body compiled over the parameters),
and nothing is pushed into the declaring scope -/
theorem compile_correct_fun_decl (fuel : Nat) (cur : Scope) (name : String) (pps : List Core.Param) (body : Core.Expr)
    (r : CFunc × Scope) (hd : ∀ p ∈ pps, p.dflt = none) (hn : name ∉ pps.map Core.Param.name)
    (hb : CellRun.exprOK body = true) (hcb : CellRun.BodyC (pps.map Core.Param.name) name cur body)
    (h : closeFunc fuel [] cur (some name) (.mk (CellRun.ofParams pps) [] (CellRun.ofExpr body)) = .ok r) :
    r = (CellRun.cfOf (pps.map Core.Param.name) body, cur) :=
  CellRun.close_fun fuel cur name pps body r hd hn hb hcb h

/-- the fragment is inhabited: two functions (one through `if`), `let`s that call them (one call inside `if`,
nested calls, `display`) -/
example : CellRun.progOKF
    [.fnD (.mk (some "inc") [.mk "a" none] [] (.call "add" [.var "a", .int 1])),
     .fnD (.mk (some "absv") [.mk "a" none] []
        (.call "if" [.call "lt" [.var "a", .int 0], .call "neg" [.var "a"], .var "a"])),
     .letD "x" (.int 5),
     .letD "y" (.call "if" [.call "lt" [.var "x", .int 3], .call "inc" [.var "x"],
                            .call "absv" [.call "neg" [.call "inc" [.var "x"]]]]),
     .letD "z" (.call "display" [.call "inc" [.var "y"]])] = true := by decide

end XrayModel.C03
