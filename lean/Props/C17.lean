/-
C17 — Mappings and sets are finite maps under any consistent hash.
Property theorems only; definitions (`Consistent`, `Inv`, `look`, `has`, `writeAll`, `foldF`, `Sub`) and helper
lemmas live in XrayProofs/HashMap.lean and XrayProofs/HashMapMore.lean, the model in XrayModel/HashMap.lean.

* `Consistent hash eq` is the premise of the property: `eq` is a total equivalence relation (`C.e`), `hash` is
  total (`C.h`), equal keys hash equally and hashes lie in `[0, 2^64)`.  Nothing else is assumed about the
  hash: it may be injective, collide, or be constant.
* `look C t k` is plain association-list lookup, over the classes of `C.e`, in the list of all stored entries
  (`toList t`) — no hashing, no buckets.  `has C t k = (look C t k).isSome`.
* `Inv C t` is the representation invariant: every key sits in the bucket of its hash, no two equivalent keys
  are stored, no bucket is empty, no hash occurs twice, `len` = number of stored entries.
Every operation theorem has the shape: on a well-formed table the operation succeeds (or returns the documented
error value — never a panic), the result is well-formed, and `look` of the result is the association-list
specification applied to `look` of the argument.
-/
import XrayProofs.HashMapMore
namespace XrayModel.C17
open XrayModel.HM

variable {K V : Type} {hash : K → Res Int} {eq : K → K → Res Bool}

/-- the premise is satisfiable by a constant hash under an equality coarser than identity (keys mod 3) -/
example : Consistent (K := Nat) (fun _ => .ok 0) (fun a b => .ok (a % 3 == b % 3)) where
  h := fun _ => 0
  e := fun a b => a % 3 == b % 3
  hash_ok := fun _ => rfl
  hash_lt := fun _ => by decide
  eq_ok := fun _ _ => rfl
  refl := fun a => by simp
  symm := fun a b h => by simp at h ⊢; omega
  trans := fun a b c h1 h2 => by simp at h1 h2 ⊢; omega
  congr := fun _ _ _ => rfl

/-- a hash outside `[0, 2^64)` makes `locate` (hence every keyed operation) answer the error value
"hash is out of bounds" — never a panic, never a wrong bucket -/
theorem hash_out_of_range_is_error (hash : K → Res Int) (eq : K → K → Res Bool)
    (t : Table K V) (k : K) (x : Int) (hx : hash k = .ok x) (hr : x < 0 ∨ 18446744073709551616 ≤ x) :
    locate hash eq t k = .error (.err "hash is out of bounds") := by
  have : toU64 x = none := by
    unfold toU64
    split
    · omega
    · rfl
  simp [locate, hx, this]

/-- the empty mapping / set satisfies the invariant and holds nothing -/
theorem empty_spec (C : Consistent hash eq) :
    Inv C (empty : Table K V) ∧ (empty : Table K V).len = 0 ∧ ∀ k, look C (empty : Table K V) k = none :=
  ⟨⟨trivial, rfl⟩, rfl, fun _ => rfl⟩

/-- collision independence: on a well-formed table, lookup through the hash (`lookB`: the bucket of `hash k`,
then the equality scan) is plain association-list lookup over all entries — for EVERY consistent hash, the
constant one included -/
theorem collision_independent (C : Consistent hash eq) {t : Table K V} (hI : Inv C t) (k : K) :
    lookB C t k = look C t k := (look_eq_lookB C hI k).symm

/-- `len` counts classes: it is the number of stored entries, and the stored keys are pairwise inequivalent -/
theorem len_spec (C : Consistent hash eq) {t : Table K V} (hI : Inv C t) :
    t.len = (toList t).length ∧ (toList t).Pairwise (fun x y => C.e x.1 y.1 = false) :=
  ⟨by rw [toList_length]; exact hI.len_eq, toList_pairwise C hI⟩

/-- `lookup` returns what the association list returns -/
theorem lookup_spec (C : Consistent hash eq) {t : Table K V} (hI : Inv C t) (k : K) :
    lookup hash eq t k = .ok (look C t k) := by
  rw [look_eq_lookB C hI]; exact lookup_eq C hI k

/-- `get(m, k, default)`: the stored value, else the (lazily evaluated) default -/
theorem get_default_spec (C : Consistent hash eq) {t : Table K V} (hI : Inv C t) (k : K) (d : Unit → Res V) :
    get3 hash eq t k d = match look C t k with
      | some v => .ok v
      | none => d () := by
  rw [look_eq_lookB C hI]; exact get3_eq C hI k d

/-- the library helpers `contains(m, k)` and `get(m, k)` (written in xray over `lookup`) -/
theorem contains_get_spec (C : Consistent hash eq) {t : Table K V} (hI : Inv C t) (k : K) :
    contains hash eq t k = .ok (has C t k) ∧
    get2 hash eq t k = match look C t k with
      | some v => .ok v
      | none => .error (.err "key not found") := by
  unfold contains get2 has
  rw [lookup_spec C hI]
  exact ⟨rfl, by cases look C t k <;> rfl⟩

/-- `set` (insertion and overwrite): succeeds, keeps the invariant; afterwards every key equivalent to `k` maps
to `v` and every other key maps to what it mapped to before; `len` grows by one exactly when `k`'s class was absent -/
theorem set_spec (C : Consistent hash eq) {t : Table K V} (hI : Inv C t) (k : K) (v : V) :
    ∃ t', set hash eq t k v = .ok t' ∧ Inv C t' ∧
      (∀ k', look C t' k' = if C.e k' k then some v else look C t k') ∧
      t'.len = if (look C t k).isSome then t.len else t.len + 1 := by
  obtain ⟨t', h1, h2, h3, h4⟩ := set_specB C hI k v
  refine ⟨t', h1, h2, ?_, ?_⟩
  · intro k'; rw [look_eq_lookB C h2, look_eq_lookB C hI]; exact h4 k'
  · rw [look_eq_lookB C hI]; exact h3

/-- lookup after set: any key equivalent to the one just set yields the value just set -/
theorem lookup_after_set (C : Consistent hash eq) {t : Table K V} (hI : Inv C t) (k k' : K) (v : V)
    (he : C.e k' k = true) :
    ∃ t', set hash eq t k v = .ok t' ∧ lookup hash eq t' k' = .ok (some v) := by
  obtain ⟨t', h1, h2, h3, _⟩ := set_spec C hI k v
  exact ⟨t', h1, by rw [lookup_spec C h2, h3, he]; rfl⟩

/-- overwrite: setting an equivalent key again replaces the value and leaves `len` and all other keys alone -/
theorem overwrite (C : Consistent hash eq) {t : Table K V} (hI : Inv C t) (k k2 : K) (v v2 : V)
    (he : C.e k2 k = true) :
    ∃ t1 t2, set hash eq t k v = .ok t1 ∧ set hash eq t1 k2 v2 = .ok t2 ∧ t2.len = t1.len ∧
      ∀ k', look C t2 k' = if C.e k' k then some v2 else look C t k' := by
  obtain ⟨t1, h1, hI1, hl1, _⟩ := set_spec C hI k v
  obtain ⟨t2, h2, _, hl2, hn2⟩ := set_spec C hI1 k2 v2
  refine ⟨t1, t2, h1, h2, ?_, ?_⟩
  · rw [hn2, hl1, he]; rfl
  · intro k'
    rw [hl2, hl1, e_left_congr C he k']
    cases C.e k' k <;> rfl

/-- `set_default`: a present class leaves the mapping untouched and does not even evaluate the value; an
absent class is inserted (an erroring value is the result) -/
theorem set_default (C : Consistent hash eq) {t : Table K V} (hI : Inv C t) (k : K) (v : Unit → Res V) :
    match look C t k with
    | some _ => setDefault hash eq t k v = .ok t
    | none =>
      match v () with
      | .error er => setDefault hash eq t k v = .error er
      | .ok a => ∃ t', setDefault hash eq t k v = .ok t' ∧ Inv C t' ∧ t'.len = t.len + 1 ∧
          ∀ k', look C t' k' = if C.e k' k then some a else look C t k' := by
  have h := setDefault_spec C hI k v
  rw [look_eq_lookB C hI]
  cases hl : lookB C t k with
  | some p => simpa [hl] using h
  | none =>
    simp only [hl] at h ⊢
    cases hv : v () with
    | error er => simpa [hv] using h
    | ok a =>
      simp only [hv] at h ⊢
      obtain ⟨t', h1, h2, h3, h4⟩ := h
      exact ⟨t', h1, h2, h3, fun k' => by rw [look_eq_lookB C h2, look_eq_lookB C hI]; exact h4 k'⟩

/-- `pop` (and set `remove`, with its own message): an absent class is the documented error value; a present
class is removed — it and only it — and `len` drops by one -/
theorem remove (C : Consistent hash eq) (msg : String) {t : Table K V} (hI : Inv C t) (k : K) :
    match look C t k with
    | none => popMsg hash eq msg t k = .error (.err msg)
    | some _ => ∃ t', popMsg hash eq msg t k = .ok t' ∧ Inv C t' ∧ t'.len + 1 = t.len ∧
        ∀ k', look C t' k' = if C.e k' k then none else look C t k' := by
  have h := popMsg_spec C msg hI k
  rw [look_eq_lookB C hI]
  cases hl : lookB C t k with
  | none => simpa [hl] using h
  | some p =>
    simp only [hl] at h ⊢
    obtain ⟨t', h1, h2, h3, h4⟩ := h
    exact ⟨t', h1, h2, h3, fun k' => by rw [look_eq_lookB C h2, look_eq_lookB C hI]; exact h4 k'⟩

/-- `discard`: never an error; the class of `k` is gone afterwards, everything else is as before -/
theorem discard_spec (C : Consistent hash eq) {t : Table K V} (hI : Inv C t) (k : K) :
    ∃ t', discard hash eq t k = .ok t' ∧ Inv C t' ∧
      t'.len + (if (look C t k).isSome then 1 else 0) = t.len ∧
      ∀ k', look C t' k' = if C.e k' k then none else look C t k' := by
  obtain ⟨t', h1, h2, h3, h4⟩ := HM.discard_spec C hI k
  refine ⟨t', h1, h2, by rw [look_eq_lookB C hI]; exact h3, fun k' => ?_⟩
  rw [look_eq_lookB C h2, look_eq_lookB C hI]; exact h4 k'

/-- `clear` -/
theorem clear_spec (C : Consistent hash eq) {t : Table K V} (hI : Inv C t) :
    Inv C (clear t) ∧ (clear t).len = 0 ∧ ∀ k, look C (clear t) k = none := by
  obtain ⟨h1, h2, h3⟩ := HM.clear_spec C hI
  exact ⟨h1, h2, fun k => by rw [look_eq_lookB C h1]; exact h3 k⟩

/-- bulk update (`update`, and `set` as its one-item case): the items are written in order, later items win -/
theorem bulk_update (C : Consistent hash eq) {t : Table K V} (hI : Inv C t) (items : List (K × V)) :
    ∃ t', update hash eq t (items.map .ok) = .ok t' ∧ Inv C t' ∧
      ∀ k', look C t' k' = writeAll C (look C t) items k' := by
  obtain ⟨t', h1, h2, h3⟩ := withUpdate_spec C hI items
  exact ⟨t', h1, h2, fun k' => by rw [look_eq_lookB C h2, look_fun C hI]; exact h3 k'⟩

/-- `update_from_keys` refines the abstract fold `foldF` of the one-key step over the association function:
same result, same first error (an error item of the generator or an error of a callback) -/
theorem update_from_keys_spec (C : Consistent hash eq) (onEmpty : K → Res V) (onOcc : K → V → Res V)
    {t : Table K V} (hI : Inv C t) (ks : List (Res K)) :
    match foldF C onEmpty onOcc (look C t) ks with
    | .error er => updateFromKeys hash eq onEmpty onOcc t ks = .error er
    | .ok f => ∃ t', updateFromKeys hash eq onEmpty onOcc t ks = .ok t' ∧ Inv C t' ∧ ∀ k', look C t' k' = f k' := by
  have h := updateFromKeys_spec C onEmpty onOcc hI ks
  rw [look_fun C hI]
  cases hf : foldF C onEmpty onOcc (lookB C t) ks with
  | error er => simpa [hf] using h
  | ok f =>
    simp only [hf] at h ⊢
    obtain ⟨t', h1, h2, h3⟩ := h
    exact ⟨t', h1, h2, fun k' => by rw [look_eq_lookB C h2]; exact h3 k'⟩

/-- counting: `update_counter` is the fold with `1` for a new class and `+ 1` for a present one -/
theorem counting (C : Consistent hash eq) {t : Table K Int} (hI : Inv C t) (ks : List (Res K)) :
    match foldF C (fun _ => .ok 1) (fun _ v => .ok (v + 1)) (look C t) ks with
    | .error er => updateCounter hash eq t ks = .error er
    | .ok f => ∃ t', updateCounter hash eq t ks = .ok t' ∧ Inv C t' ∧ ∀ k', look C t' k' = f k' := by
  have h := update_from_keys_spec C (fun _ => .ok (1 : Int)) (fun _ v => .ok (v + 1)) hI ks
  unfold updateCounter
  cases hf : foldF C (fun _ => .ok (1 : Int)) (fun _ v => .ok (v + 1)) (look C t) ks with
  | error er => simpa [hf] using h
  | ok f => simpa [hf] using h

/-- persistence: an update returns a new table; the old version still satisfies its invariant and still
answers every lookup exactly as before (the model is pure, so this is immediate — the tie re-reads every
earlier version of the real implementation after later updates) -/
theorem persistent (C : Consistent hash eq) {t : Table K V} (hI : Inv C t) (k : K) (v : V) (k' : K) :
    ∃ t', set hash eq t k v = .ok t' ∧ Inv C t ∧ lookup hash eq t k' = .ok (look C t k') := by
  obtain ⟨t', h1, _⟩ := set_spec C hI k v
  exact ⟨t', h1, hI, lookup_spec C hI k'⟩

/-- no operation on a well-formed table reaches a Rust panic (`unwrap` on `None`, index out of range,
`usize` underflow, `unreachable!`) -/
theorem no_panic (C : Consistent hash eq) {t : Table K V} (hI : Inv C t) (k : K) (v : V) (w : String) :
    set hash eq t k v ≠ .error (.panic w) ∧ pop hash eq t k ≠ .error (.panic w) ∧
    discard hash eq t k ≠ .error (.panic w) ∧ lookup hash eq t k ≠ .error (.panic w) ∧
    setDefault hash eq t k (fun _ => .ok v) ≠ .error (.panic w) := by
  refine ⟨?_, ?_, ?_, ?_, ?_⟩
  · obtain ⟨t', h1, _⟩ := set_spec C hI k v; rw [h1]; intro h; cases h
  · have h := remove C "key not found" hI k
    unfold pop
    cases hl : look C t k with
    | none => simp only [hl] at h; rw [h]; intro h2; cases h2
    | some p => simp only [hl] at h; obtain ⟨t', h1, _⟩ := h; rw [h1]; intro h2; cases h2
  · obtain ⟨t', h1, _⟩ := discard_spec C hI k; rw [h1]; intro h; cases h
  · rw [lookup_spec C hI]; intro h; cases h
  · have h := set_default C hI k (fun _ => .ok v)
    cases hl : look C t k with
    | none => simp only [hl] at h; obtain ⟨t', h1, _⟩ := h; rw [h1]; intro h2; cases h2
    | some p => simp only [hl] at h; rw [h]; intro h2; cases h2

/-! ### sets -/

/-- `add` / `update` on sets: the classes of the added keys join the set, nothing else changes -/
theorem set_add_spec (C : Consistent hash eq) {t : Table K Unit} (hI : Inv C t) (ks : List K) :
    ∃ t', sUpdate hash eq t (ks.map .ok) = .ok t' ∧ Inv C t' ∧
      ∀ k', has C t' k' = (has C t k' || ks.any (fun k => C.e k' k)) := by
  obtain ⟨t', h1, h2, h3⟩ := sWithUpdate_spec C hI ks
  exact ⟨t', h1, h2, fun k' => by rw [has_eq_mem C h2, has_eq_mem C hI]; exact h3 k'⟩

/-- `contains` -/
theorem set_contains_spec (C : Consistent hash eq) {t : Table K Unit} (hI : Inv C t) (k : K) :
    sContains hash eq t k = .ok (has C t k) := by
  rw [has_eq_mem C hI]; exact sContains_eq C t k

/-- `|`, `&`, `-`, `^` are union, intersection, difference and symmetric difference of the class sets -/
theorem set_algebra (C : Consistent hash eq) {a b : Table K Unit} (ha : Inv C a) (hb : Inv C b) :
    (∃ r, bitOr hash eq a b = .ok r ∧ Inv C r ∧ ∀ k, has C r k = (has C a k || has C b k)) ∧
    (∃ r, bitAnd hash eq a b = .ok r ∧ Inv C r ∧ ∀ k, has C r k = (has C a k && has C b k)) ∧
    (∃ r, sSub hash eq a b = .ok r ∧ Inv C r ∧ ∀ k, has C r k = (has C a k && !has C b k)) ∧
    (∃ r, bitXor hash eq a b = .ok r ∧ Inv C r ∧ ∀ k, has C r k = (has C a k != has C b k)) := by
  refine ⟨?_, ?_, ?_, ?_⟩
  · obtain ⟨r, h1, h2, h3⟩ := bitOr_spec C ha hb
    exact ⟨r, h1, h2, fun k => by rw [has_eq_mem C h2, has_eq_mem C ha, has_eq_mem C hb]; exact h3 k⟩
  · obtain ⟨r, h1, h2, h3⟩ := bitAnd_spec C ha hb
    exact ⟨r, h1, h2, fun k => by rw [has_eq_mem C h2, has_eq_mem C ha, has_eq_mem C hb]; exact h3 k⟩
  · obtain ⟨r, h1, h2, h3⟩ := sSub_spec C ha hb
    exact ⟨r, h1, h2, fun k => by rw [has_eq_mem C h2, has_eq_mem C ha, has_eq_mem C hb]; exact h3 k⟩
  · obtain ⟨r, h1, h2, h3⟩ := bitXor_spec C ha hb
    exact ⟨r, h1, h2, fun k => by rw [has_eq_mem C h2, has_eq_mem C ha, has_eq_mem C hb]; exact h3 k⟩

/-- `<=`, `>=`, `<`, `>`, `==`, `is_disjoint` decide inclusion, proper inclusion, equality and disjointness of
the class sets (the `len` shortcuts in the library code are justified by counting classes) -/
theorem set_relations (C : Consistent hash eq) {a b : Table K Unit} (ha : Inv C a) (hb : Inv C b) :
    (∃ r, sLe hash eq a b = .ok r ∧ (r = true ↔ ∀ k, has C a k = true → has C b k = true)) ∧
    (∃ r, sLt hash eq a b = .ok r ∧ (r = true ↔ ((∀ k, has C a k = true → has C b k = true) ∧
        ¬ ∀ k, has C b k = true → has C a k = true))) ∧
    (∃ r, sEq hash eq a b = .ok r ∧ (r = true ↔ ∀ k, has C a k = has C b k)) ∧
    (∃ r, isDisjoint hash eq a b = .ok r ∧ (r = true ↔ ∀ k, ¬ (has C a k = true ∧ has C b k = true))) := by
  have e1 : ∀ k, has C a k = mem C a k := has_eq_mem C ha
  have e2 : ∀ k, has C b k = mem C b k := has_eq_mem C hb
  simp only [e1, e2]
  exact ⟨sGe_spec C ha hb, sGt_spec C ha hb, sEq_spec C ha hb, isDisjoint_spec C ha hb⟩

/-! ### `==`, `hash`, `map_values` -/

/-- mapping `==` (with both mappings built on the same consistent `hash` / `eq`, and a total value equality
`ve`): true exactly when every key class is absent from both or present in both with `ve`-equal values — equality
of the two association lists over the classes.  (Set `==` is the third clause of `set_relations`.) -/
theorem mapping_eq_spec (C : Consistent hash eq) (veq : V → V → Res Bool) (ve : V → V → Bool)
    (hve : ∀ a b, veq a b = .ok (ve a b)) {m0 m1 : Table K V} (h0 : Inv C m0) (h1 : Inv C m1) :
    ∃ r, dynEq hash eq veq m0 m1 = .ok r ∧ (r = true ↔ ∀ k, optRel ve (look C m0 k) (look C m1 k) = true) := by
  rw [look_fun C h0, look_fun C h1]
  exact dynEq_spec C veq ve hve h0 h1

/-- set `hash` on the repaired code: sets with the same members hash equally — whatever the insertion and
removal history, the stored representatives, or the (consistent) key hash — and the hash lies in `[0, 2^64)` -/
theorem set_hash_congr (C : Consistent hash eq) {a b : Table K Unit} (ha : Inv C a) (hb : Inv C b)
    (h : ∀ k, has C a k = has C b k) : sHash a = sHash b ∧ sHash a < 2 ^ 64 :=
  ⟨sHash_congr C ha hb (fun k => by rw [← has_eq_mem C ha, ← has_eq_mem C hb]; exact h k), sHash_lt a⟩

/-- mapping `hash` on the repaired code, for a total value hash with values in range (`VHashOK vhash vh`):
the hash succeeds, lies in `[0, 2^64)`, and mappings with the same association list over the classes hash equally -/
theorem mapping_hash_congr (C : Consistent hash eq) {vhash : V → Res Int} {vh : V → Nat} (hv : VHashOK vhash vh)
    {a b : Table K V} (ha : Inv C a) (hb : Inv C b) (h : ∀ k, look C a k = look C b k) :
    dynHash vhash a = dynHash vhash b ∧ ∃ n, dynHash vhash a = .ok n ∧ n < 2 ^ 64 :=
  ⟨dynHash_congr C hv ha hb (fun k => by rw [← look_eq_lookB C ha, ← look_eq_lookB C hb]; exact h k),
   dynHash_lt hv a⟩

/-- `map_values(m, f)` for a total `f`: same key classes, every value mapped, `len` unchanged, invariant kept -/
theorem map_values_spec {W : Type} (C : Consistent hash eq) (f : V → Res W) (g : V → W) (hf : ∀ v, f v = .ok (g v))
    {t : Table K V} (hI : Inv C t) :
    ∃ t', mapValues hash eq f t = .ok t' ∧ Inv C t' ∧ t'.len = t.len ∧ ∀ k, look C t' k = (look C t k).map g := by
  obtain ⟨t', h1, h2, h3, h4⟩ := mapValues_spec C f g hf hI
  exact ⟨t', h1, h2, h3, fun k => by rw [look_eq_lookB C h2, look_eq_lookB C hI]; exact h4 k⟩

/-! ### the hash-keyed consumer `with_count` (and `distinct`, which filters its output) -/

/-- the reference `put` hands back (read by `with_count` only) is the slot of the key's class: the value returned
is the value now stored for `k`'s class in the new table, namely `on_found(previous)` / `on_empty()` — for a found
key that is NOT the last entry of its bucket too -/
theorem put_returns_slot (C : Consistent hash eq) {t : Table K V} (hI : Inv C t) (k : K) (onEmpty : Unit → V)
    (onFound : V → V) :
    ∃ t', putRet hash eq t k onEmpty onFound = .ok (t', pureNew onEmpty onFound (look C t k)) ∧
      put hash eq t k onEmpty onFound = .ok t' ∧ Inv C t' ∧
      look C t' k = some (pureNew onEmpty onFound (look C t k)) := by
  rw [look_eq_lookB C hI]
  obtain ⟨t', h1, h2, _, h4⟩ := (tryPut_spec C hI k (fun u => .ok (onEmpty u)) (fun v => .ok (onFound v))).2
    (pureNew onEmpty onFound (lookB C t k)) (by cases lookB C t k <;> rfl)
  have hput : put hash eq t k onEmpty onFound = .ok t' := by rw [put_eq_tryPut]; exact h1
  refine ⟨t', by rw [putRet_eq C, hput], hput, h2, ?_⟩
  rw [look_eq_lookB C h2, h4, C.refl]; rfl

/-- `with_count(h, e)` over a stream yields every element with the running count of its equivalence class
(`wcSpec`), whatever collisions the hash produces and in whatever order colliding elements recur -/
theorem with_count_spec (C : Consistent hash eq) (ks : List K) :
    withCount hash eq empty (ks.map .ok) = (wcSpec C (fun _ => 0) ks).map .ok := by
  have h := withCount_spec C (⟨trivial, rfl⟩ : Inv C (empty : Table K Nat)) ks
  simpa [lookB, empty, bget] using h


/-! ### `keys`, `values` and `update(m, Mapping)` -/

/-- `keys(m)` and `values(m)` enumerate the stored entries in one common order: as many as `len(m)`, the keys
pairwise inequivalent (one per class), position `i` of `values` is the value bound to position `i` of `keys`,
and a key is present exactly when an equivalent key is listed — under any consistent hash -/
theorem keys_values_spec (C : Consistent hash eq) {t : Table K V} (hI : Inv C t) :
    (keys t).length = t.len ∧ (values t).length = t.len ∧
    (keys t).Pairwise (fun x y => C.e x y = false) ∧
    (∀ kv ∈ (keys t).zip (values t), look C t kv.1 = some kv.2) ∧
    (∀ k, has C t k = true ↔ ∃ x ∈ keys t, C.e k x = true) := by
  have hp := toList_pairwise C hI
  have hz : (keys t).zip (values t) = toList t := by
    unfold keys values; rw [List.zip_map_left, List.zip_map_right]
    induction toList t with
    | nil => rfl
    | cons x r ih => simp [List.zip_cons_cons] at ih ⊢; exact ih
  refine ⟨by simp [keys, toList_length, hI.len_eq], by simp [values, toList_length, hI.len_eq],
    List.pairwise_map.2 hp, ?_, fun k => ?_⟩
  · intro kv hkv
    rw [hz] at hkv
    exact findE_self_of_mem C _ hp kv hkv
  · unfold has look keys
    rw [findE_isSome_iff]
    simp

/-- `update(m, s)` for a mapping `s`: the result is well-formed and answers every key with `s`'s binding where `s`
has one and with `m`'s otherwise (right-biased union of the two finite maps), whatever the iteration order of `s` -/
theorem update_from_mapping_spec (C : Consistent hash eq) {t s : Table K V} (hI : Inv C t) (hS : Inv C s) :
    ∃ t', updateFromMapping hash eq t s = .ok t' ∧ Inv C t' ∧
      ∀ k, look C t' k = match look C s k with | some v => some v | none => look C t k := by
  obtain ⟨t', h1, h2, h3⟩ := bulk_update C hI (toList s)
  refine ⟨t', h1, h2, fun k => ?_⟩
  rw [h3 k, writeAll_pairwise C _ (toList_pairwise C hS)]
  rfl

/-- consequence: updating with an empty mapping, or with the mapping itself, changes no answer -/
theorem update_from_mapping_idem (C : Consistent hash eq) {t : Table K V} (hI : Inv C t) :
    ∃ t', updateFromMapping hash eq t t = .ok t' ∧ Inv C t' ∧ ∀ k, look C t' k = look C t k := by
  obtain ⟨t', h1, h2, h3⟩ := update_from_mapping_spec C hI hI
  refine ⟨t', h1, h2, fun k => ?_⟩
  rw [h3 k]; cases look C t k <;> rfl

/-- `map_values(m, f)` with an erroring `f`: the result is the error of the FIRST stored entry (in the iteration order
`keys`/`values` expose) on whose value `f` errs — the entries before it are mapped, none after it is evaluated into the
result, and no table is produced -/
theorem map_values_first_error {W : Type} (C : Consistent hash eq) (f : V → Res W) {t : Table K V} (hI : Inv C t)
    (pre post : List (K × V)) (k : K) (v : V) (er : Err) (hsplit : toList t = pre ++ (k, v) :: post)
    (hpre : ∀ kv ∈ pre, ∃ w, f kv.2 = .ok w) (hv : f v = .error er) :
    mapValues hash eq f t = .error er :=
  mapValues_err C f hI pre post k v er hsplit hpre hv

end XrayModel.C17
