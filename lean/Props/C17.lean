/-
C17 — Mappings and sets are finite maps under any consistent hash.
Property theorems only; definitions (`Consistent`, `Inv`, `look`, `lookB`) and helper lemmas live in
XrayProofs/HashMap.lean, the model in XrayModel/HashMap.lean.

`Consistent hash eq` is the premise of the property: `eq` is a total equivalence relation (`C.e`), `hash` is
total (`C.h`), equal keys hash equally and hashes lie in `[0, 2^64)`.
`look C t k` is plain association-list lookup, over the classes of `C.e`, in the list of all stored entries —
no hashing involved.  `Inv C t` is the representation invariant (every key sits in the bucket of its hash, no
two equivalent keys are stored, no bucket is empty, no hash occurs twice, `len` = number of stored entries).
-/
import XrayProofs.HashMap
namespace XrayModel.C17
open XrayModel.HM

variable {K V : Type} {hash : K → Res Int} {eq : K → K → Res Bool}

/-- a hash outside `[0, 2^64)` makes `locate` (hence every keyed operation) answer the error value
"hash is out of bounds" — never a panic, never a wrong bucket -/
theorem hash_out_of_range_is_error (hash : K → Res Int) (eq : K → K → Res Bool)
    (t : Table K V) (k : K) (x : Int) (hx : hash k = .ok x) (hr : x < 0 ∨ 18446744073709551616 ≤ x) :
    locate hash eq t k = .error (.err "hash is out of bounds") := by
  have : toU64 x = none := by
    unfold toU64
    split
    · omega
    · rfl
  simp [locate, hx, this]

/-- the empty mapping / set satisfies the invariant and holds nothing -/
theorem empty_spec (C : Consistent hash eq) : Inv C (empty : Table K V) ∧ ∀ k, look C (empty : Table K V) k = none :=
  ⟨⟨trivial, rfl⟩, fun _ => rfl⟩

/-- collision independence: on a well-formed table, lookup through the hash (`lookB`: bucket of `hash k`,
then equality scan) is plain association-list lookup over all entries — for EVERY consistent hash, the
constant one included -/
theorem collision_independent (C : Consistent hash eq) {t : Table K V} (hI : Inv C t) (k : K) :
    lookB C t k = look C t k := (look_eq_lookB C hI k).symm

/-- `lookup` returns what the association list returns -/
theorem lookup_spec (C : Consistent hash eq) {t : Table K V} (hI : Inv C t) (k : K) :
    lookup hash eq t k = .ok (look C t k) := by
  rw [look_eq_lookB C hI]
  exact lookup_eq C hI k

/-- `set` (insertion and overwrite): succeeds, keeps the invariant, and afterwards every key equivalent to
`k` maps to `v` while every other key maps to what it mapped to before; `len` grows by one exactly when `k`'s
class was absent -/
theorem set_spec (C : Consistent hash eq) {t : Table K V} (hI : Inv C t) (k : K) (v : V) :
    ∃ t', set hash eq t k v = .ok t' ∧ Inv C t' ∧
      (∀ k', look C t' k' = if C.e k' k then some v else look C t k') ∧
      t'.len = if (look C t k).isSome then t.len else t.len + 1 := by
  obtain ⟨t', h1, h2, h3, h4⟩ := set_specB C hI k v
  refine ⟨t', h1, h2, ?_, ?_⟩
  · intro k'; rw [look_eq_lookB C h2, look_eq_lookB C hI]; exact h4 k'
  · rw [look_eq_lookB C hI]; exact h3

end XrayModel.C17
