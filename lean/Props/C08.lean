/-
C08 — Depth, recursion and call limits are exact and transparent (core evaluator,
XrayModel/Core.lean; the search limit lives in the sequence engines).
-/
import XrayProofs.CoreLimits
namespace XrayModel.C08
open XrayModel.Core XrayModel.CoreLimits

/-! ### 1. no limits: no violation, no counting -/

/-- With no depth, call or recursion limit configured, no function of the evaluator ever ends in a
violation — whatever the fuel, the frame, the state — and the call counter does not move (it only
runs when a call limit is configured, `increment_call_limit`). -/
theorem no_limit_no_violation (cfg : Cfg)
    (hc : cfg.depthLimit = none ∧ cfg.callLimit = none ∧ cfg.recLimit = none) (fuel : Nat) :
    (∀ fr e tail st, (∀ k, (eval fuel cfg fr e tail st).1 ≠ .viol k) ∧ (eval fuel cfg fr e tail st).2.calls = st.calls) ∧
    (∀ fr f args tail st, (∀ k, (callNamed fuel cfg fr f args tail st).1 ≠ .viol k) ∧ (callNamed fuel cfg fr f args tail st).2.calls = st.calls) ∧
    (∀ fr c args tail st, (∀ k, (callVal fuel cfg fr c args tail st).1 ≠ .viol k) ∧ (callVal fuel cfg fr c args tail st).2.calls = st.calls) ∧
    (∀ fr es st, (∀ k, (evalList fuel cfg fr es st).1 ≠ .error (.viol k)) ∧ (evalList fuel cfg fr es st).2.calls = st.calls) ∧
    (∀ fr f st, (∀ k, (mkClos fuel cfg fr f st).1 ≠ .viol k) ∧ (mkClos fuel cfg fr f st).2.calls = st.calls) ∧
    (∀ fr ps st, (∀ k, (evalDflts fuel cfg fr ps st).1 ≠ .error (.viol k)) ∧ (evalDflts fuel cfg fr ps st).2.calls = st.calls) ∧
    (∀ h c args st, (∀ k, (callUser fuel cfg h c args st).1 ≠ .viol k) ∧ (callUser fuel cfg h c args st).2.calls = st.calls) ∧
    (∀ h c args rec st, (∀ k, (tramp fuel cfg h c args rec st).1 ≠ .viol k) ∧ (tramp fuel cfg h c args rec st).2.calls = st.calls) ∧
    (∀ fr ds st, (∀ k, (evalDecls fuel cfg fr ds st).1 ≠ .error (.viol k)) ∧ (evalDecls fuel cfg fr ds st).2.calls = st.calls) ∧
    (∀ fr f args tail st, (∀ k, (builtin fuel cfg fr f args tail st).1 ≠ .viol k) ∧ (builtin fuel cfg fr f args tail st).2.calls = st.calls) ∧
    (∀ ds, (∀ k, (runProgram fuel cfg ds).1 ≠ .error (.viol k)) ∧ (runProgram fuel cfg ds).2.calls = 0) := by
  have H := noViolAt cfg hc fuel
  refine ⟨?_, ?_, ?_, ?_, ?_, ?_, ?_, ?_, ?_, ?_, ?_⟩
  · intro fr e tail st
    have := H.eval fr e tail st
    grind [Res.isViol, exViol]
  · intro fr f args tail st
    have := H.callNamed fr f args tail st
    grind [Res.isViol, exViol]
  · intro fr c args tail st
    have := H.callVal fr c args tail st
    grind [Res.isViol, exViol]
  · intro fr es st
    have := H.evalList fr es st
    grind [Res.isViol, exViol]
  · intro fr f st
    have := H.mkClos fr f st
    grind [Res.isViol, exViol]
  · intro fr ps st
    have := H.evalDflts fr ps st
    grind [Res.isViol, exViol]
  · intro h c args st
    have := H.callUser h c args st
    grind [Res.isViol, exViol]
  · intro h c args rec st
    have := H.tramp h c args rec st
    grind [Res.isViol, exViol]
  · intro fr ds st
    have := H.evalDecls fr ds st
    grind [Res.isViol, exViol]
  · intro fr f args tail st
    have := H.builtin fr f args tail st
    grind [Res.isViol, exViol]
  · intro ds
    have := H.evalDecls { env := [], self := none, height := 0 } ds {}
    simp only [runProgram]
    grind [Res.isViol, exViol]

/-! ### local exactness of the three checks (one step of `callUser` / `tramp`) -/

/-- The call limit is exact: a user call (with error-free arguments) under call limit `l` ends in the
call violation exactly when the number of user calls, this one included, reaches `l`;
otherwise the call proceeds with the counter advanced by one. -/
theorem call_limit_exact (fuel : Nat) (cfg : Cfg) (h : Nat) (c : Val) (args : List Val) (st : St) (l : Nat)
    (hl : cfg.callLimit = some l) (he : firstErr args = none) :
    (st.calls + 1 ≥ l → callUser (fuel + 1) cfg h c args st = (.viol .calls, { st with calls := st.calls + 1 })) ∧
    (st.calls + 1 < l → callUser (fuel + 1) cfg h c args st = tramp fuel cfg h c args 0 { st with calls := st.calls + 1 }) := by
  constructor <;> intro hh <;> simp [callUser, he, hl] <;> omega

/-- Without a call limit the counter is not touched by a call. -/
theorem no_call_limit_no_count (fuel : Nat) (cfg : Cfg) (h : Nat) (c : Val) (args : List Val) (st : St)
    (hl : cfg.callLimit = none) (he : firstErr args = none) :
    callUser (fuel + 1) cfg h c args st = tramp fuel cfg h c args 0 st := by
  simp [callUser, he, hl]

/-- The depth limit is exact: creating the frame of a user function at nesting depth `height + 1`
ends in the depth violation exactly when that depth reaches the limit. -/
theorem depth_limit_exact (fuel : Nat) (cfg : Cfg) (height : Nat) (f : Func) (ds : List Val) (env : List (String × Val))
    (args : List Val) (rec : Nat) (st : St) (l : Nat) (hl : cfg.depthLimit = some l) (hh : height + 1 ≥ l) :
    tramp (fuel + 1) cfg height (.clos f ds env) args rec st = (.viol .depth, st) := by
  simp [tramp, hl, hh]

end XrayModel.C08
