/-
C08 — Depth, recursion and call limits are exact and transparent (core evaluator,
XrayModel/Core.lean; the search limit lives in the sequence engines).
-/
import XrayProofs.CoreLimits
import XrayProofs.CoreLimitsSim
import XrayProofs.CoreTco
import XrayProofs.CoreLimitsConv
namespace XrayModel.C08
open XrayModel.Core XrayModel.CoreLimits XrayModel.CoreLimitsSim

/-! ### 1. no limits: no violation, no counting -/

/-- With no depth, call or recursion limit configured, no function of the evaluator ever ends in a
violation — whatever the fuel, the frame, the state — and the call counter does not move (it only
runs when a call limit is configured, `increment_call_limit`). -/
theorem no_limit_no_violation (cfg : Cfg)
    (hc : cfg.depthLimit = none ∧ cfg.callLimit = none ∧ cfg.recLimit = none) (fuel : Nat) :
    (∀ fr e tail st, (∀ k, (eval fuel cfg fr e tail st).1 ≠ .viol k) ∧ (eval fuel cfg fr e tail st).2.calls = st.calls) ∧
    (∀ fr f args tail st, (∀ k, (callNamed fuel cfg fr f args tail st).1 ≠ .viol k) ∧ (callNamed fuel cfg fr f args tail st).2.calls = st.calls) ∧
    (∀ fr c args tail st, (∀ k, (callVal fuel cfg fr c args tail st).1 ≠ .viol k) ∧ (callVal fuel cfg fr c args tail st).2.calls = st.calls) ∧
    (∀ fr es st, (∀ k, (evalList fuel cfg fr es st).1 ≠ .error (.viol k)) ∧ (evalList fuel cfg fr es st).2.calls = st.calls) ∧
    (∀ fr f st, (∀ k, (mkClos fuel cfg fr f st).1 ≠ .viol k) ∧ (mkClos fuel cfg fr f st).2.calls = st.calls) ∧
    (∀ fr ps st, (∀ k, (evalDflts fuel cfg fr ps st).1 ≠ .error (.viol k)) ∧ (evalDflts fuel cfg fr ps st).2.calls = st.calls) ∧
    (∀ h c args st, (∀ k, (callUser fuel cfg h c args st).1 ≠ .viol k) ∧ (callUser fuel cfg h c args st).2.calls = st.calls) ∧
    (∀ h c args rec st, (∀ k, (tramp fuel cfg h c args rec st).1 ≠ .viol k) ∧ (tramp fuel cfg h c args rec st).2.calls = st.calls) ∧
    (∀ fr ds st, (∀ k, (evalDecls fuel cfg fr ds st).1 ≠ .error (.viol k)) ∧ (evalDecls fuel cfg fr ds st).2.calls = st.calls) ∧
    (∀ fr f args tail st, (∀ k, (builtin fuel cfg fr f args tail st).1 ≠ .viol k) ∧ (builtin fuel cfg fr f args tail st).2.calls = st.calls) ∧
    (∀ ds, (∀ k, (runProgram fuel cfg ds).1 ≠ .error (.viol k)) ∧ (runProgram fuel cfg ds).2.calls = 0) := by
  have H := noViolAt cfg hc fuel
  refine ⟨?_, ?_, ?_, ?_, ?_, ?_, ?_, ?_, ?_, ?_, ?_⟩
  · intro fr e tail st
    have := H.eval fr e tail st
    grind [Res.isViol, exViol]
  · intro fr f args tail st
    have := H.callNamed fr f args tail st
    grind [Res.isViol, exViol]
  · intro fr c args tail st
    have := H.callVal fr c args tail st
    grind [Res.isViol, exViol]
  · intro fr es st
    have := H.evalList fr es st
    grind [Res.isViol, exViol]
  · intro fr f st
    have := H.mkClos fr f st
    grind [Res.isViol, exViol]
  · intro fr ps st
    have := H.evalDflts fr ps st
    grind [Res.isViol, exViol]
  · intro h c args st
    have := H.callUser h c args st
    grind [Res.isViol, exViol]
  · intro h c args rec st
    have := H.tramp h c args rec st
    grind [Res.isViol, exViol]
  · intro fr ds st
    have := H.evalDecls fr ds st
    grind [Res.isViol, exViol]
  · intro fr f args tail st
    have := H.builtin fr f args tail st
    grind [Res.isViol, exViol]
  · intro ds
    have := H.evalDecls { env := [], self := none, height := 0 } ds {}
    simp only [runProgram]
    grind [Res.isViol, exViol]

/-! ### 2. which violation: a violation of kind `k` needs limit `k` -/

/-- A depth / call / recursion violation can only come out of a run whose configuration has the
corresponding limit: each limit is the only source of its violation (so configuring one limit never
produces another kind of violation). -/
theorem violation_needs_its_limit (cfg : Cfg) (fuel : Nat) :
    (∀ fr e tail st,
      ((eval fuel cfg fr e tail st).1 = .viol .depth → cfg.depthLimit ≠ none) ∧
      ((eval fuel cfg fr e tail st).1 = .viol .calls → cfg.callLimit ≠ none) ∧
      ((eval fuel cfg fr e tail st).1 = .viol .recursion → cfg.recLimit ≠ none)) ∧
    (∀ h c args st,
      ((callUser fuel cfg h c args st).1 = .viol .depth → cfg.depthLimit ≠ none) ∧
      ((callUser fuel cfg h c args st).1 = .viol .calls → cfg.callLimit ≠ none) ∧
      ((callUser fuel cfg h c args st).1 = .viol .recursion → cfg.recLimit ≠ none)) ∧
    (∀ ds,
      ((runProgram fuel cfg ds).1 = .error (.viol .depth) → cfg.depthLimit ≠ none) ∧
      ((runProgram fuel cfg ds).1 = .error (.viol .calls) → cfg.callLimit ≠ none) ∧
      ((runProgram fuel cfg ds).1 = .error (.viol .recursion) → cfg.recLimit ≠ none)) := by
  have H := kindAt cfg fuel
  exact ⟨fun fr e tail st => H.eval fr e tail st, fun h c args st => H.callUser h c args st,
    fun ds => H.evalDecls _ ds _⟩

/-! ### 3. the call limit is exact for whole runs -/

/-- Under a call limit `l`, for every run (any expression, any user call, any fuel) started with
the counter below `l`: the counter never decreases; the run ends in the call violation exactly when
the counter reaches `l` (it is then exactly `l`: nothing is counted after the violation), and
otherwise the counter stays below `l`.  "The number of user calls since the last reset reaches L". -/
theorem call_limit_exact_run (cfg : Cfg) (l : Nat) (hl : cfg.callLimit = some l) (fuel : Nat) :
    (∀ fr e tail st, st.calls ≤ (eval fuel cfg fr e tail st).2.calls ∧
      (st.calls < l →
        ((eval fuel cfg fr e tail st).1 = .viol .calls ↔ (eval fuel cfg fr e tail st).2.calls = l) ∧
        ((eval fuel cfg fr e tail st).1 ≠ .viol .calls ↔ (eval fuel cfg fr e tail st).2.calls < l))) ∧
    (∀ h c args st, st.calls ≤ (callUser fuel cfg h c args st).2.calls ∧
      (st.calls < l →
        ((callUser fuel cfg h c args st).1 = .viol .calls ↔ (callUser fuel cfg h c args st).2.calls = l) ∧
        ((callUser fuel cfg h c args st).1 ≠ .viol .calls ↔ (callUser fuel cfg h c args st).2.calls < l))) ∧
    (∀ ds, 0 < l →
        ((runProgram fuel cfg ds).1 = .error (.viol .calls) ↔ (runProgram fuel cfg ds).2.calls = l) ∧
        ((runProgram fuel cfg ds).1 ≠ .error (.viol .calls) ↔ (runProgram fuel cfg ds).2.calls < l)) := by
  have H := callsAt cfg l hl fuel
  refine ⟨?_, ?_, ?_⟩
  · intro fr e tail st
    have := H.eval fr e tail st
    grind
  · intro h c args st
    have := H.callUser h c args st
    grind
  · intro ds hpos
    have := H.evalDecls { env := [], self := none, height := 0 } ds {}
    simp only [runProgram]
    grind

/-- Without a call limit the counter is never touched, whatever the other limits. -/
theorem calls_not_counted_without_limit (cfg : Cfg) (hl : cfg.callLimit = none) (fuel : Nat) :
    (∀ fr e tail st, (eval fuel cfg fr e tail st).2.calls = st.calls) ∧
    (∀ h c args st, (callUser fuel cfg h c args st).2.calls = st.calls) ∧
    (∀ ds, (runProgram fuel cfg ds).2.calls = 0) := by
  have H := noCountAt cfg hl fuel
  exact ⟨fun fr e tail st => H.eval fr e tail st, fun h c args st => H.callUser h c args st,
    fun ds => H.evalDecls _ ds _⟩

/-! ### 4. the host's reset -/

/-- `Runtime::reset_ud_calls` / `reset_call_limit` (`runtime.rs:131-163`) -/
def reset (st : St) : St := { st with calls := 0 }

/-- Resetting the call counter restores the full budget: whatever the counter was before (even at or
beyond the limit), a run started from the reset state ends in the call violation exactly when it has
itself made `l` user calls, and it leaves the output untouched. -/
theorem reset_restores (cfg : Cfg) (l : Nat) (hl : cfg.callLimit = some l) (hpos : 0 < l) (fuel : Nat)
    (fr : Frame) (e : Core.Expr) (tail : Bool) (st : St) :
    (reset st).out = st.out ∧ (reset st).calls = 0 ∧
    ((eval fuel cfg fr e tail (reset st)).1 = .viol .calls ↔ (eval fuel cfg fr e tail (reset st)).2.calls = l) ∧
    ((eval fuel cfg fr e tail (reset st)).1 ≠ .viol .calls ↔ (eval fuel cfg fr e tail (reset st)).2.calls < l) := by
  have H := (callsAt cfg l hl fuel).eval fr e tail (reset st)
  have h0 : (reset st).calls = 0 := rfl
  refine ⟨rfl, rfl, ?_, ?_⟩ <;> grind

/-! ### concrete runs: the bounds are attained -/

/-- `fn f(x) = x; let y = f(1);` -/
def progOneCall : List Decl :=
  [.fnD (.mk (some "f") [.mk "x" none] [] (.var "x")), .letD "y" (.call "f" [.int 1])]

example : (runProgram 10 { callLimit := some 1 } progOneCall).1 = .error (.viol .calls) := by rfl
example : (runProgram 10 { callLimit := some 1 } progOneCall).2.calls = 1 := by rfl
example : ∃ fr, (runProgram 10 { callLimit := some 2 } progOneCall).1 = .ok fr := ⟨_, rfl⟩
example : (runProgram 10 { depthLimit := some 1 } progOneCall).1 = .error (.viol .depth) := by rfl
example : ∃ fr, (runProgram 10 { depthLimit := some 2 } progOneCall).1 = .ok fr := ⟨_, rfl⟩

/-- `fn g(n) = if(eq(n, 0), 0, g(sub(n, 1))); let y = g(2);` — two tail iterations -/
def progLoop : List Decl :=
  [.fnD (.mk (some "g") [.mk "n" none] []
      (.call "if" [.call "eq" [.var "n", .int 0], .int 0, .call "g" [.call "sub" [.var "n", .int 1]]])),
   .letD "y" (.call "g" [.int 2])]

example : (runProgram 20 { recLimit := some 1 } progLoop).1 = .error (.viol .recursion) := by rfl
example : ∃ fr, (runProgram 20 { recLimit := some 2 } progLoop).1 = .ok fr := ⟨_, rfl⟩
-- the two tail iterations are not counted as calls: one user call in all
example : (runProgram 20 { callLimit := some 5 } progLoop).2.calls = 1 := by rfl
-- without tail calls the same program makes three user calls and nests three deep
example : (runProgram 40 { callLimit := some 5, tco := false } progLoop).2.calls = 3 := by rfl
example : (runProgram 40 { depthLimit := some 3, tco := false } progLoop).1 = .error (.viol .depth) := by rfl
example : ∃ fr, (runProgram 40 { depthLimit := some 4, tco := false } progLoop).1 = .ok fr := ⟨_, rfl⟩


/-! ### local exactness of the three checks (one step of `callUser` / `tramp`) -/

/-- The call limit is exact: a user call (with error-free arguments) under call limit `l` ends in the
call violation exactly when the number of user calls, this one included, reaches `l`;
otherwise the call proceeds with the counter advanced by one. -/
theorem call_limit_exact (fuel : Nat) (cfg : Cfg) (h : Nat) (c : Val) (args : List Val) (st : St) (l : Nat)
    (hl : cfg.callLimit = some l) (he : firstErr args = none) :
    (st.calls + 1 ≥ l → callUser (fuel + 1) cfg h c args st = (.viol .calls, { st with calls := st.calls + 1 })) ∧
    (st.calls + 1 < l → callUser (fuel + 1) cfg h c args st = tramp fuel cfg h c args 0 { st with calls := st.calls + 1 }) := by
  constructor <;> intro hh <;> simp [callUser, he, hl] <;> omega

/-- Without a call limit the counter is not touched by a call. -/
theorem no_call_limit_no_count (fuel : Nat) (cfg : Cfg) (h : Nat) (c : Val) (args : List Val) (st : St)
    (hl : cfg.callLimit = none) (he : firstErr args = none) :
    callUser (fuel + 1) cfg h c args st = tramp fuel cfg h c args 0 st := by
  simp [callUser, he, hl]

/-- The depth limit is exact: creating the frame of a user function at nesting depth `height + 1`
ends in the depth violation exactly when that depth reaches the limit. -/
theorem depth_limit_exact (fuel : Nat) (cfg : Cfg) (height : Nat) (f : Func) (ds : List Val) (env : List (String × Val))
    (args : List Val) (rec : Nat) (st : St) (l : Nat) (hl : cfg.depthLimit = some l) (hh : height + 1 ≥ l) :
    tramp (fuel + 1) cfg height (.clos f ds env) args rec st = (.viol .depth, st) := by
  simp [tramp, hl, hh]

/-! ### 5. transparency: limits never change a result, they only stop the run

Two runs with the same fuel are compared; `CfgLe cfg cfg'`: same `tco`, every limit of `cfg'` at least
as high as in `cfg` or removed (`optLe`, `none` = ∞); `noLimits cfg`: all three limits removed. -/

/-- **Raising or removing any limit never changes a non-violation result.** Let `cfg'` be weaker
than `cfg` (pointwise, `none` = ∞), and let the two runs start from states with the same output
(the counter of the second not behind the first, and its remaining call budget not smaller, when
both count: trivially so for equal states). If the run under `cfg` ends in anything but a violation
— value, error value, tail call, stuck, out of fuel — the run under `cfg'` with the same fuel ends
in the same result (results carry no counters: literally equal) and the same output; for
expressions, calls of function values, `eval_func_with_values`, the trampoline, declarations. -/
theorem limit_monotone (cfg cfg' : Cfg) (hle : CfgLe cfg cfg') (fuel : Nat) (st st' : St) (ho : st'.out = st.out)
    (hb : ∀ l l', cfg.callLimit = some l → cfg'.callLimit = some l' →
      st.calls ≤ st'.calls ∧ st'.calls + l ≤ st.calls + l') :
    (∀ fr e tail r s, eval fuel cfg fr e tail st = (r, s) → (∀ k, r ≠ .viol k) →
      ∃ s', eval fuel cfg' fr e tail st' = (r, s') ∧ s'.out = s.out) ∧
    (∀ fr c args tail r s, callVal fuel cfg fr c args tail st = (r, s) → (∀ k, r ≠ .viol k) →
      ∃ s', callVal fuel cfg' fr c args tail st' = (r, s') ∧ s'.out = s.out) ∧
    (∀ h c args r s, callUser fuel cfg h c args st = (r, s) → (∀ k, r ≠ .viol k) →
      ∃ s', callUser fuel cfg' h c args st' = (r, s') ∧ s'.out = s.out) ∧
    (∀ h c args rec r s, tramp fuel cfg h c args rec st = (r, s) → (∀ k, r ≠ .viol k) →
      ∃ s', tramp fuel cfg' h c args rec st' = (r, s') ∧ s'.out = s.out) ∧
    (∀ fr ds x s, evalDecls fuel cfg fr ds st = (x, s) → (∀ k, x ≠ .error (.viol k)) →
      ∃ s', evalDecls fuel cfg' fr ds st' = (x, s') ∧ s'.out = s.out) := by
  have W := weaker_of_le hle st.calls st'.calls hb
  have H := simL W fuel
  have hT := kappa_start hle st st' ho (fun l l' h h' => (hb l l' h h').1)
  refine ⟨?_, ?_, ?_, ?_, ?_⟩
  · intro fr e tail r s h hr
    have := H.eval fr e tail st (by rw [h]; exact (not_viol_iff r).mpr hr)
    rw [hT, h] at this
    exact ⟨_, this, rfl⟩
  · intro fr c args tail r s h hr
    have := H.callVal fr c args tail st (by rw [h]; exact (not_viol_iff r).mpr hr)
    rw [hT, h] at this
    exact ⟨_, this, rfl⟩
  · intro h c args r s hh hr
    have := H.callUser h c args st (by rw [hh]; exact (not_viol_iff r).mpr hr)
    rw [hT, hh] at this
    exact ⟨_, this, rfl⟩
  · intro h c args rec r s hh hr
    have := H.tramp h c args rec st (by rw [hh]; exact (not_viol_iff r).mpr hr)
    rw [hT, hh] at this
    exact ⟨_, this, rfl⟩
  · intro fr ds x s h hr
    have := H.evalDecls fr ds st (by rw [h]; exact (ex_not_viol_iff x).mpr hr)
    rw [hT, h] at this
    exact ⟨_, this, rfl⟩

/-- The same from one and the same start state, and for whole programs: a program (an expression, a
call) that ends without violation under `cfg` ends in the same result with the same output under
every weaker `cfg'`. -/
theorem limit_monotone_same_start (cfg cfg' : Cfg) (hle : CfgLe cfg cfg') (fuel : Nat) :
    (∀ fr e tail st r s, eval fuel cfg fr e tail st = (r, s) → (∀ k, r ≠ .viol k) →
      ∃ s', eval fuel cfg' fr e tail st = (r, s') ∧ s'.out = s.out) ∧
    (∀ h c args st r s, callUser fuel cfg h c args st = (r, s) → (∀ k, r ≠ .viol k) →
      ∃ s', callUser fuel cfg' h c args st = (r, s') ∧ s'.out = s.out) ∧
    (∀ ds x s, runProgram fuel cfg ds = (x, s) → (∀ k, x ≠ .error (.viol k)) →
      ∃ s', runProgram fuel cfg' ds = (x, s') ∧ s'.out = s.out) := by
  have hb : ∀ st : St, ∀ l l', cfg.callLimit = some l → cfg'.callLimit = some l' →
      st.calls ≤ st.calls ∧ st.calls + l ≤ st.calls + l' := by
    intro st l l' h h'
    have := hle.call
    rw [h, h'] at this
    simp only [optLe] at this
    omega
  refine ⟨?_, ?_, ?_⟩
  · intro fr e tail st r s h hr
    exact (limit_monotone cfg cfg' hle fuel st st rfl (hb st)).1 fr e tail r s h hr
  · intro h c args st r s hh hr
    exact (limit_monotone cfg cfg' hle fuel st st rfl (hb st)).2.2.1 h c args r s hh hr
  · intro ds x s h hr
    exact (limit_monotone cfg cfg' hle fuel {} {} rfl (hb {})).2.2.2.2 _ ds x s h hr

/-- **Limits are transparent.** `noLimits cfg` = `cfg` with all three limits removed. For every
fuel, frame, argument, and states `st`, `st0` with the same output (the counters may differ): if the
run under `cfg` from `st` ends in a result that is not a violation, the run under `noLimits cfg` from
`st0` with the same fuel ends in the very same result, with the same output, its counter untouched. -/
theorem limits_transparent (cfg : Cfg) (fuel : Nat) (st st0 : St) (ho : st0.out = st.out) :
    (∀ fr e tail r s, eval fuel cfg fr e tail st = (r, s) → (∀ k, r ≠ .viol k) →
      eval fuel (noLimits cfg) fr e tail st0 = (r, { out := s.out, calls := st0.calls })) ∧
    (∀ fr c args tail r s, callVal fuel cfg fr c args tail st = (r, s) → (∀ k, r ≠ .viol k) →
      callVal fuel (noLimits cfg) fr c args tail st0 = (r, { out := s.out, calls := st0.calls })) ∧
    (∀ h c args r s, callUser fuel cfg h c args st = (r, s) → (∀ k, r ≠ .viol k) →
      callUser fuel (noLimits cfg) h c args st0 = (r, { out := s.out, calls := st0.calls })) ∧
    (∀ h c args rec r s, tramp fuel cfg h c args rec st = (r, s) → (∀ k, r ≠ .viol k) →
      tramp fuel (noLimits cfg) h c args rec st0 = (r, { out := s.out, calls := st0.calls })) ∧
    (∀ fr ds x s, evalDecls fuel cfg fr ds st = (x, s) → (∀ k, x ≠ .error (.viol k)) →
      evalDecls fuel (noLimits cfg) fr ds st0 = (x, { out := s.out, calls := st0.calls })) := by
  have H := simL (weaker_noLimits cfg st0.calls) fuel
  have hT : T (fun _ => st0.calls) st = st0 := by unfold T; rw [← ho]
  refine ⟨?_, ?_, ?_, ?_, ?_⟩
  · intro fr e tail r s h hr
    have := H.eval fr e tail st (by rw [h]; exact (not_viol_iff r).mpr hr)
    rw [hT, h] at this; exact this
  · intro fr c args tail r s h hr
    have := H.callVal fr c args tail st (by rw [h]; exact (not_viol_iff r).mpr hr)
    rw [hT, h] at this; exact this
  · intro h c args r s hh hr
    have := H.callUser h c args st (by rw [hh]; exact (not_viol_iff r).mpr hr)
    rw [hT, hh] at this; exact this
  · intro h c args rec r s hh hr
    have := H.tramp h c args rec st (by rw [hh]; exact (not_viol_iff r).mpr hr)
    rw [hT, hh] at this; exact this
  · intro fr ds x s h hr
    have := H.evalDecls fr ds st (by rw [h]; exact (ex_not_viol_iff x).mpr hr)
    rw [hT, h] at this; exact this

/-- Whole programs: a program that ends without violation under `cfg` gives the same bindings and
the same output with every limit removed. -/
theorem limits_transparent_program (cfg : Cfg) (fuel : Nat) (ds : List Decl) (x : Except Res Frame) (s : St)
    (h : runProgram fuel cfg ds = (x, s)) (hr : ∀ k, x ≠ .error (.viol k)) :
    runProgram fuel (noLimits cfg) ds = (x, { out := s.out, calls := 0 }) :=
  (limits_transparent cfg fuel {} {} rfl).2.2.2.2 _ ds x s h hr

-- the hypotheses are satisfiable: the one-call program under call limit 2 and depth limit 2 ends
-- without violation (and so does it with the limits raised or removed, by the theorems)
example : ∃ fr s, runProgram 10 { callLimit := some 2, depthLimit := some 2 } progOneCall = (.ok fr, s) ∧
    CfgLe { callLimit := some 2, depthLimit := some 2 } { callLimit := some 7, depthLimit := none } :=
  ⟨_, _, rfl, ⟨rfl, trivial, trivial, by simp [optLe]⟩⟩
-- and the non-violation hypothesis is needed: under call limit 1 the same program is stopped
example : (runProgram 10 { callLimit := some 1 } progOneCall).1 = .error (.viol .calls) ∧
    ∃ fr, (runProgram 10 (noLimits { callLimit := some 1 }) progOneCall).1 = .ok fr := ⟨rfl, _, rfl⟩

/-! ### 6. calls are counted per user call, not per tail iteration -/

/-- The counter is advanced in exactly one place, `callUser` (`eval_func_with_values` entry), once
per user call and before the trampoline starts; the trampoline itself never touches it: when the body
ends with a tail call at state `st2`, the next iteration starts from exactly `st2` — same counter,
same height `h` — and only the recursion counter grows (it is the recursion limit, `>`, that bounds
the loop). -/
theorem calls_counted_per_user_call_not_per_tail_iteration (fuel : Nat) (cfg : Cfg) (h : Nat) (f : Func)
    (dflts : List Val) (env ps : List (String × Val)) (args newArgs : List Val) (rec : Nat) (st st1 st2 : St)
    (fr' : Frame) (l : Nat) (hl : cfg.callLimit = some l) (he : firstErr args = none)
    (hd : depthOk cfg h) (hb : bindParams f.params args dflts = some ps)
    (hdecl : evalDecls fuel cfg (callFrame h f dflts env ps) f.decls st = (.ok fr', st1))
    (hbody : eval fuel cfg fr' f.body true st1 = (.tail newArgs, st2)) (hr : recOk cfg (rec + 1)) :
    (st.calls + 1 < l → callUser (fuel + 1) cfg h (.clos f dflts env) args st
        = tramp fuel cfg h (.clos f dflts env) args 0 { st with calls := st.calls + 1 }) ∧
    tramp (fuel + 1) cfg h (.clos f dflts env) args rec st
        = tramp fuel cfg h (.clos f dflts env) newArgs (rec + 1) st2 :=
  ⟨(call_limit_exact fuel cfg h _ args st l hl he).2,
   (tramp_body_tail fuel cfg h f dflts env ps args newArgs rec st st1 st2 fr' hd hb hdecl hbody).1 hr⟩

/-- For every iteration count `n`: the accumulator loop `fn f(n, acc) { if(n == 0, acc, f(n-1, acc+n)) }`
called under a call limit `l` (and any depth limit admitting one frame) counts **one** call, whatever
`n`: the final counter is `st.calls + 1` after `n` tail iterations (`n` within the recursion limit). -/
theorem tail_iterations_not_counted (cfg : Cfg) (htco : cfg.tco = true) (h : Nat) (hd : depthOk cfg h)
    (n : Nat) (acc : Int) (st : St) (k l : Nat) (hl : cfg.callLimit = some l) (hc : st.calls + 1 < l)
    (hr : recOk cfg n) :
    (callUser (k + 16 + n) cfg h sumClos [.int n, .int acc] st).2.calls = st.calls + 1 := by
  have := (sum_call cfg htco h hd n acc st k (by intro l' hl'; rw [hl] at hl'; cases hl'; exact hc)).1 hr
  rw [this]
  simp [hl]

/-! ### 7. need-based exactness: a limit above the need never fires

`evalI` (CoreLimits.lean) is the same evaluator without any check, recording the number of user calls
(`calls`), the greatest frame height created (`maxH`) and the greatest tail-iteration count reached by
a trampoline (`maxRec`) — the *need* of a run. `evalI` never ends in a violation (`noViolI`). -/

/-- All three limits set (`cfgL tco Ld Lc Lr`), start state `st`: if the need of the run stays below
the limits — every frame height `< Ld` (depth check `≥`), the calls made on top of `st.calls` `< Lc`
(call check `≥`), every tail-iteration count `≤ Lr` (recursion check `>`) — the limited run is the
instrumented run: same result (never a violation), same output, counter advanced by the calls made. -/
theorem limits_above_need_exact (tco : Bool) (Ld Lc Lr fuel : Nat) (st : St) :
    (∀ fr e tail, let q := evalI fuel tco fr e tail { out := st.out }
      q.2.maxH < Ld → st.calls + q.2.calls < Lc → q.2.maxRec ≤ Lr →
      eval fuel (cfgL tco Ld Lc Lr) fr e tail st = (q.1, { out := q.2.out, calls := st.calls + q.2.calls }) ∧
      ∀ k, q.1 ≠ .viol k) ∧
    (∀ h c args, let q := callUserI fuel tco h c args { out := st.out }
      q.2.maxH < Ld → st.calls + q.2.calls < Lc → q.2.maxRec ≤ Lr →
      callUser fuel (cfgL tco Ld Lc Lr) h c args st = (q.1, { out := q.2.out, calls := st.calls + q.2.calls }) ∧
      ∀ k, q.1 ≠ .viol k) ∧
    (∀ fr ds, let q := evalDeclsI fuel tco fr ds { out := st.out }
      q.2.maxH < Ld → st.calls + q.2.calls < Lc → q.2.maxRec ≤ Lr →
      evalDecls fuel (cfgL tco Ld Lc Lr) fr ds st = (q.1, { out := q.2.out, calls := st.calls + q.2.calls }) ∧
      ∀ k, q.1 ≠ .error (.viol k)) := by
  have H := simI tco Ld Lc Lr st.calls fuel
  have N := noViolI tco fuel
  have hst : TI st.calls { out := st.out } = st := rfl
  refine ⟨?_, ?_, ?_⟩
  · intro fr e tail q h1 h2 h3
    have := H.eval fr e tail { out := st.out } ⟨h1, h2, h3⟩
    rw [hst] at this
    exact ⟨this, (not_viol_iff _).mp (N.eval fr e tail _)⟩
  · intro h c args q h1 h2 h3
    have := H.callUser h c args { out := st.out } ⟨h1, h2, h3⟩
    rw [hst] at this
    exact ⟨this, (not_viol_iff _).mp (N.callUser h c args _)⟩
  · intro fr ds q h1 h2 h3
    have := H.evalDecls fr ds { out := st.out } ⟨h1, h2, h3⟩
    rw [hst] at this
    exact ⟨this, (ex_not_viol_iff _).mp (N.evalDecls fr ds _)⟩

/-- **A limit above the need never fires**, for any configuration (each limit set or not): if every
configured limit exceeds the need of the run (depth limit `>` greatest frame height; call limit `>`
calls made, counted from `st.calls`; recursion limit `≥` greatest tail-iteration count), the run under
`cfg` ends in the result of the unchecked run — not a violation — with the same output. In particular:
depth limit `>` max height ⇒ no depth violation; recursion limit `≥` max consecutive tail count ⇒ no
recursion violation. -/
theorem no_violation_when_limits_exceed_need (cfg : Cfg) (fuel : Nat) (st : St) :
    (∀ fr e tail, let q := evalI fuel cfg.tco fr e tail { out := st.out }
      (∀ l, cfg.depthLimit = some l → q.2.maxH < l) → (∀ l, cfg.callLimit = some l → st.calls + q.2.calls < l) →
      (∀ l, cfg.recLimit = some l → q.2.maxRec ≤ l) →
      (∃ s', eval fuel cfg fr e tail st = (q.1, s') ∧ s'.out = q.2.out) ∧ ∀ k, q.1 ≠ .viol k) ∧
    (∀ ds, let q := evalDeclsI fuel cfg.tco { env := [], self := none, height := 0 } ds {}
      (∀ l, cfg.depthLimit = some l → q.2.maxH < l) → (∀ l, cfg.callLimit = some l → q.2.calls < l) →
      (∀ l, cfg.recLimit = some l → q.2.maxRec ≤ l) →
      (∃ s', runProgram fuel cfg ds = (q.1, s') ∧ s'.out = q.2.out) ∧ ∀ k, q.1 ≠ .error (.viol k)) := by
  have hle : ∀ (a b c : Nat), (∀ l, cfg.depthLimit = some l → a < l) → (∀ l, cfg.callLimit = some l → b < l) →
      (∀ l, cfg.recLimit = some l → c ≤ l) →
      CfgLe (cfgL cfg.tco (cfg.depthLimit.getD (a + 1)) (cfg.callLimit.getD (b + 1)) (cfg.recLimit.getD c)) cfg ∧
      a < cfg.depthLimit.getD (a + 1) ∧ b < cfg.callLimit.getD (b + 1) ∧ c ≤ cfg.recLimit.getD c := by
    intro a b c h1 h2 h3
    refine ⟨⟨rfl, ?_, ?_, ?_⟩, ?_, ?_, ?_⟩
    · cases h : cfg.depthLimit <;> simp [cfgL, optLe]
    · cases h : cfg.recLimit <;> simp [cfgL, optLe]
    · cases h : cfg.callLimit <;> simp [cfgL, optLe]
    · cases h : cfg.depthLimit with
      | none => simp
      | some l => simpa using h1 l h
    · cases h : cfg.callLimit with
      | none => simp
      | some l => simpa using h2 l h
    · cases h : cfg.recLimit with
      | none => simp
      | some l => simpa using h3 l h
  refine ⟨?_, ?_⟩
  · intro fr e tail q h1 h2 h3
    obtain ⟨hcle, k1, k2, k3⟩ := hle q.2.maxH (st.calls + q.2.calls) q.2.maxRec h1 h2 h3
    obtain ⟨e1, nv⟩ := (limits_above_need_exact cfg.tco _ _ _ fuel st).1 fr e tail k1 k2 k3
    exact ⟨(limit_monotone_same_start _ cfg hcle fuel).1 fr e tail st _ _ e1 nv, nv⟩
  · intro ds q h1 h2 h3
    obtain ⟨hcle, k1, k2, k3⟩ := hle q.2.maxH (0 + q.2.calls) q.2.maxRec h1 (by simpa using h2) h3
    obtain ⟨e1, nv⟩ := (limits_above_need_exact cfg.tco _ _ _ fuel {}).2.2 { env := [], self := none, height := 0 } ds k1 k2 k3
    exact ⟨(limit_monotone_same_start _ cfg hcle fuel).2.2 ds _ _ e1 nv, nv⟩

-- the need of the loop program (tco on): one call, frame height 1, two tail iterations;
-- limits just above it do not fire (theorem), limits at it do (`rfl` examples above)
example : (evalDeclsI 20 true { env := [], self := none, height := 0 } progLoop {}).2.calls = 1 ∧
    (evalDeclsI 20 true { env := [], self := none, height := 0 } progLoop {}).2.maxH = 1 ∧
    (evalDeclsI 20 true { env := [], self := none, height := 0 } progLoop {}).2.maxRec = 2 := ⟨rfl, rfl, rfl⟩

/-! ### 8. the converse: a limit at or below the need fires — whole-run exactness of the depth and the
recursion limit (the call limit has `call_limit_exact_run`)

Helper `vioO` (CoreLimitsConv.lean): depth and recursion limit each set or not (`cfgO tco Ld Lr`, no call
limit); if the instrumented counters are within the limits at the start and not at the end of a run of
`evalI`, the limited run ends in a violation. Everything before the first point at which the counters
leave the limits is simulated (`simO`); at that point — a frame creation or a tail iteration — the
limited run raises the violation, which every enclosing construct passes on. -/

/-- Depth and recursion limit each set or not, no call limit: if the need of the run (greatest frame
height, greatest tail-iteration count of the unchecked run `evalI`) reaches a configured limit —
height `≥` depth limit or tail count `>` recursion limit — the limited run ends in a violation. -/
theorem limit_at_or_below_need_fires (tco : Bool) (Ld Lr : Option Nat) (fuel : Nat) (st : St)
    (hL : ∀ l, Ld = some l → 1 ≤ l) :
    (∀ fr e tail, ¬ WithinO Ld Lr (evalI fuel tco fr e tail { out := st.out }).2 →
      ∃ k, (eval fuel (cfgO tco Ld Lr) fr e tail st).1 = .viol k) ∧
    (∀ h c args, ¬ WithinO Ld Lr (callUserI fuel tco h c args { out := st.out }).2 →
      ∃ k, (callUser fuel (cfgO tco Ld Lr) h c args st).1 = .viol k) ∧
    (∀ ds, ¬ WithinO Ld Lr (evalDeclsI fuel tco { env := [], self := none, height := 0 } ds {}).2 →
      ∃ k, (runProgram fuel (cfgO tco Ld Lr) ds).1 = .error (.viol k)) := by
  have h0 : ∀ o : List String, WithinO Ld Lr ({ out := o } : StI) := by
    intro o
    refine ⟨?_, ?_⟩
    · cases Ld with
      | none => trivial
      | some l => exact hL l rfl
    · cases Lr with
      | none => trivial
      | some l => exact Nat.zero_le l
  refine ⟨?_, ?_, ?_⟩
  · intro fr e tail h
    exact viol_of_isViol ((vioO tco Ld Lr st.calls fuel).eval fr e tail { out := st.out } (h0 _) h)
  · intro hh c args h
    exact viol_of_isViol ((vioO tco Ld Lr st.calls fuel).callUser hh c args { out := st.out } (h0 _) h)
  · intro ds h
    exact viol_of_exViol ((vioO tco Ld Lr 0 fuel).evalDecls { env := [], self := none, height := 0 } ds {} (h0 _) h)

/-- **The depth limit is exact over whole runs.** Only the depth limit `L ≥ 1` configured. With
`maxH` the greatest frame height created by the unchecked run: the run ends in the depth violation
exactly when `L ≤ maxH`; otherwise (`maxH < L`) it ends in the unchecked run's result, which is not a
violation. For expressions (any frame, start state) and whole programs. -/
theorem depth_limit_exact_run (tco : Bool) (L fuel : Nat) (hL : 1 ≤ L) :
    (∀ fr e tail st,
      let q := evalI fuel tco fr e tail { out := st.out }
      let r := (eval fuel { depthLimit := some L, tco := tco } fr e tail st).1
      (L ≤ q.2.maxH → r = .viol .depth) ∧ (q.2.maxH < L → r = q.1 ∧ ∀ k, r ≠ .viol k) ∧
      (r = .viol .depth ↔ L ≤ q.2.maxH)) ∧
    (∀ ds,
      let q := evalDeclsI fuel tco { env := [], self := none, height := 0 } ds {}
      let r := (runProgram fuel { depthLimit := some L, tco := tco } ds).1
      (L ≤ q.2.maxH → r = .error (.viol .depth)) ∧ (q.2.maxH < L → r = q.1 ∧ ∀ k, r ≠ .error (.viol k)) ∧
      (r = .error (.viol .depth) ↔ L ≤ q.2.maxH)) := by
  have cfgeq : ({ depthLimit := some L, tco := tco } : Cfg) = cfgO tco (some L) none := rfl
  refine ⟨?_, ?_⟩
  · intro fr e tail st q r
    have fires : L ≤ q.2.maxH → r = .viol .depth := by
      intro hle
      obtain ⟨k, hk⟩ := (limit_at_or_below_need_fires tco (some L) none fuel st (by intro l h; cases h; exact hL)).1 fr e tail
        (by intro hw; have := hw.1; simp only [optLt] at this; exact absurd this (Nat.not_lt.mpr hle))
      have K := (kindAt (cfgO tco (some L) none) fuel).eval fr e tail st
      show (eval fuel _ fr e tail st).1 = _
      rw [cfgeq, hk]
      cases k with
      | depth => rfl
      | calls => exact absurd rfl (K.2.1 hk)
      | recursion => exact absurd rfl (K.2.2 hk)
    have quiet : q.2.maxH < L → r = q.1 ∧ ∀ k, r ≠ .viol k := by
      intro hlt
      obtain ⟨⟨s', e1, _⟩, nv⟩ := (no_violation_when_limits_exceed_need { depthLimit := some L, tco := tco } fuel st).1 fr e tail
        (by intro l h; cases h; exact hlt) (by intro l h; cases h) (by intro l h; cases h)
      have : r = q.1 := by show (eval fuel _ fr e tail st).1 = _; rw [e1]
      exact ⟨this, by rw [this]; exact nv⟩
    refine ⟨fires, quiet, fires |> fun f => ⟨fun hr => ?_, f⟩⟩
    by_cases hlt : q.2.maxH < L
    · exact absurd hr ((quiet hlt).2 _)
    · omega
  · intro ds q r
    have fires : L ≤ q.2.maxH → r = .error (.viol .depth) := by
      intro hle
      obtain ⟨k, hk⟩ := (limit_at_or_below_need_fires tco (some L) none fuel {} (by intro l h; cases h; exact hL)).2.2 ds
        (by intro hw; have := hw.1; simp only [optLt] at this; exact absurd this (Nat.not_lt.mpr hle))
      have K := (kindAt (cfgO tco (some L) none) fuel).evalDecls { env := [], self := none, height := 0 } ds {}
      show (runProgram fuel _ ds).1 = _
      rw [cfgeq, hk]
      cases k with
      | depth => rfl
      | calls => exact absurd rfl (K.2.1 (by rw [← hk]; rfl))
      | recursion => exact absurd rfl (K.2.2 (by rw [← hk]; rfl))
    have quiet : q.2.maxH < L → r = q.1 ∧ ∀ k, r ≠ .error (.viol k) := by
      intro hlt
      obtain ⟨⟨s', e1, _⟩, nv⟩ := (no_violation_when_limits_exceed_need { depthLimit := some L, tco := tco } fuel {}).2 ds
        (by intro l h; cases h; exact hlt) (by intro l h; cases h) (by intro l h; cases h)
      have : r = q.1 := by show (runProgram fuel _ ds).1 = _; rw [e1]
      exact ⟨this, by rw [this]; exact nv⟩
    refine ⟨fires, quiet, ⟨fun hr => ?_, fires⟩⟩
    by_cases hlt : q.2.maxH < L
    · exact absurd hr ((quiet hlt).2 _)
    · omega

/-- **The recursion limit is exact over whole runs.** Only the recursion limit `L` configured. With
`maxRec` the greatest number of consecutive tail iterations of one trampoline in the unchecked run: the
run ends in the recursion violation exactly when `L < maxRec`; otherwise it ends in the unchecked run's
result, which is not a violation. -/
theorem recursion_limit_exact_run (tco : Bool) (L fuel : Nat) :
    (∀ fr e tail st,
      let q := evalI fuel tco fr e tail { out := st.out }
      let r := (eval fuel { recLimit := some L, tco := tco } fr e tail st).1
      (L < q.2.maxRec → r = .viol .recursion) ∧ (q.2.maxRec ≤ L → r = q.1 ∧ ∀ k, r ≠ .viol k) ∧
      (r = .viol .recursion ↔ L < q.2.maxRec)) ∧
    (∀ ds,
      let q := evalDeclsI fuel tco { env := [], self := none, height := 0 } ds {}
      let r := (runProgram fuel { recLimit := some L, tco := tco } ds).1
      (L < q.2.maxRec → r = .error (.viol .recursion)) ∧ (q.2.maxRec ≤ L → r = q.1 ∧ ∀ k, r ≠ .error (.viol k)) ∧
      (r = .error (.viol .recursion) ↔ L < q.2.maxRec)) := by
  have cfgeq : ({ recLimit := some L, tco := tco } : Cfg) = cfgO tco none (some L) := rfl
  refine ⟨?_, ?_⟩
  · intro fr e tail st q r
    have fires : L < q.2.maxRec → r = .viol .recursion := by
      intro hle
      obtain ⟨k, hk⟩ := (limit_at_or_below_need_fires tco none (some L) fuel st (by intro l h; cases h)).1 fr e tail
        (by intro hw; have := hw.2; simp only [optLeN] at this; exact absurd this (Nat.not_le.mpr hle))
      have K := (kindAt (cfgO tco none (some L)) fuel).eval fr e tail st
      show (eval fuel _ fr e tail st).1 = _
      rw [cfgeq, hk]
      cases k with
      | depth => exact absurd rfl (K.1 hk)
      | calls => exact absurd rfl (K.2.1 hk)
      | recursion => rfl
    have quiet : q.2.maxRec ≤ L → r = q.1 ∧ ∀ k, r ≠ .viol k := by
      intro hlt
      obtain ⟨⟨s', e1, _⟩, nv⟩ := (no_violation_when_limits_exceed_need { recLimit := some L, tco := tco } fuel st).1 fr e tail
        (by intro l h; cases h) (by intro l h; cases h) (by intro l h; cases h; exact hlt)
      have : r = q.1 := by show (eval fuel _ fr e tail st).1 = _; rw [e1]
      exact ⟨this, by rw [this]; exact nv⟩
    refine ⟨fires, quiet, ⟨fun hr => ?_, fires⟩⟩
    by_cases hlt : q.2.maxRec ≤ L
    · exact absurd hr ((quiet hlt).2 _)
    · omega
  · intro ds q r
    have fires : L < q.2.maxRec → r = .error (.viol .recursion) := by
      intro hle
      obtain ⟨k, hk⟩ := (limit_at_or_below_need_fires tco none (some L) fuel {} (by intro l h; cases h)).2.2 ds
        (by intro hw; have := hw.2; simp only [optLeN] at this; exact absurd this (Nat.not_le.mpr hle))
      have K := (kindAt (cfgO tco none (some L)) fuel).evalDecls { env := [], self := none, height := 0 } ds {}
      show (runProgram fuel _ ds).1 = _
      rw [cfgeq, hk]
      cases k with
      | depth => exact absurd rfl (K.1 (by rw [← hk]; rfl))
      | calls => exact absurd rfl (K.2.1 (by rw [← hk]; rfl))
      | recursion => rfl
    have quiet : q.2.maxRec ≤ L → r = q.1 ∧ ∀ k, r ≠ .error (.viol k) := by
      intro hlt
      obtain ⟨⟨s', e1, _⟩, nv⟩ := (no_violation_when_limits_exceed_need { recLimit := some L, tco := tco } fuel {}).2 ds
        (by intro l h; cases h) (by intro l h; cases h) (by intro l h; cases h; exact hlt)
      have : r = q.1 := by show (runProgram fuel _ ds).1 = _; rw [e1]
      exact ⟨this, by rw [this]; exact nv⟩
    refine ⟨fires, quiet, ⟨fun hr => ?_, fires⟩⟩
    by_cases hlt : q.2.maxRec ≤ L
    · exact absurd hr ((quiet hlt).2 _)
    · omega

-- the loop program (tco on) needs height 1 and 2 tail iterations: depth limit 1 fires, 2 does not;
-- recursion limit 1 fires, 2 does not (the `rfl` examples above are these instances)
example : (runProgram 20 { depthLimit := some 1 } progLoop).1 = .error (.viol .depth) :=
  ((depth_limit_exact_run true 1 20 (Nat.le_refl 1)).2 progLoop).1 (by decide)
example : (runProgram 20 { recLimit := some 1 } progLoop).1 = .error (.viol .recursion) :=
  ((recursion_limit_exact_run true 1 20).2 progLoop).1 (by decide)

end XrayModel.C08
