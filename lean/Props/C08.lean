/-
C08 — Depth, recursion, call and search limits are exact and transparent.
Theorems over the core evaluator (XrayModel/Core.lean).
-/
import XrayProofs.Core
namespace XrayModel.C08
open XrayModel.Core

/-- The call limit is exact: a user call (with error-free arguments) under call limit `l` ends in the
call violation exactly when the number of user calls, this one included, reaches `l`;
otherwise the call proceeds with the counter advanced by one. -/
theorem call_limit_exact (fuel : Nat) (cfg : Cfg) (h : Nat) (c : Val) (args : List Val) (st : St) (l : Nat)
    (hl : cfg.callLimit = some l) (he : firstErr args = none) :
    (st.calls + 1 ≥ l → callUser (fuel + 1) cfg h c args st = (.viol .calls, { st with calls := st.calls + 1 })) ∧
    (st.calls + 1 < l → callUser (fuel + 1) cfg h c args st = tramp fuel cfg h c args 0 { st with calls := st.calls + 1 }) := by
  constructor <;> intro hh <;> simp [callUser, he, hl] <;> omega

/-- Without a call limit the counter is not touched by a call. -/
theorem no_call_limit_no_count (fuel : Nat) (cfg : Cfg) (h : Nat) (c : Val) (args : List Val) (st : St)
    (hl : cfg.callLimit = none) (he : firstErr args = none) :
    callUser (fuel + 1) cfg h c args st = tramp fuel cfg h c args 0 st := by
  simp [callUser, he, hl]

/-- The depth limit is exact: creating the frame of a user function at nesting depth `height + 1`
ends in the depth violation exactly when that depth reaches the limit. -/
theorem depth_limit_exact (fuel : Nat) (cfg : Cfg) (height : Nat) (f : Func) (ds : List Val) (env : List (String × Val))
    (args : List Val) (rec : Nat) (st : St) (l : Nat) (hl : cfg.depthLimit = some l) (hh : height + 1 ≥ l) :
    tramp (fuel + 1) cfg height (.clos f ds env) args rec st = (.viol .depth, st) := by
  simp [tramp, hl, hh]

end XrayModel.C08
