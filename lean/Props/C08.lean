/-
C08 — Depth, recursion and call limits are exact and transparent (core evaluator,
XrayModel/Core.lean; the search limit lives in the sequence engines).
-/
import XrayProofs.CoreLimits
namespace XrayModel.C08
open XrayModel.Core XrayModel.CoreLimits

/-! ### 1. no limits: no violation, no counting -/

/-- With no depth, call or recursion limit configured, no function of the evaluator ever ends in a
violation — whatever the fuel, the frame, the state — and the call counter does not move (it only
runs when a call limit is configured, `increment_call_limit`). -/
theorem no_limit_no_violation (cfg : Cfg)
    (hc : cfg.depthLimit = none ∧ cfg.callLimit = none ∧ cfg.recLimit = none) (fuel : Nat) :
    (∀ fr e tail st, (∀ k, (eval fuel cfg fr e tail st).1 ≠ .viol k) ∧ (eval fuel cfg fr e tail st).2.calls = st.calls) ∧
    (∀ fr f args tail st, (∀ k, (callNamed fuel cfg fr f args tail st).1 ≠ .viol k) ∧ (callNamed fuel cfg fr f args tail st).2.calls = st.calls) ∧
    (∀ fr c args tail st, (∀ k, (callVal fuel cfg fr c args tail st).1 ≠ .viol k) ∧ (callVal fuel cfg fr c args tail st).2.calls = st.calls) ∧
    (∀ fr es st, (∀ k, (evalList fuel cfg fr es st).1 ≠ .error (.viol k)) ∧ (evalList fuel cfg fr es st).2.calls = st.calls) ∧
    (∀ fr f st, (∀ k, (mkClos fuel cfg fr f st).1 ≠ .viol k) ∧ (mkClos fuel cfg fr f st).2.calls = st.calls) ∧
    (∀ fr ps st, (∀ k, (evalDflts fuel cfg fr ps st).1 ≠ .error (.viol k)) ∧ (evalDflts fuel cfg fr ps st).2.calls = st.calls) ∧
    (∀ h c args st, (∀ k, (callUser fuel cfg h c args st).1 ≠ .viol k) ∧ (callUser fuel cfg h c args st).2.calls = st.calls) ∧
    (∀ h c args rec st, (∀ k, (tramp fuel cfg h c args rec st).1 ≠ .viol k) ∧ (tramp fuel cfg h c args rec st).2.calls = st.calls) ∧
    (∀ fr ds st, (∀ k, (evalDecls fuel cfg fr ds st).1 ≠ .error (.viol k)) ∧ (evalDecls fuel cfg fr ds st).2.calls = st.calls) ∧
    (∀ fr f args tail st, (∀ k, (builtin fuel cfg fr f args tail st).1 ≠ .viol k) ∧ (builtin fuel cfg fr f args tail st).2.calls = st.calls) ∧
    (∀ ds, (∀ k, (runProgram fuel cfg ds).1 ≠ .error (.viol k)) ∧ (runProgram fuel cfg ds).2.calls = 0) := by
  have H := noViolAt cfg hc fuel
  refine ⟨?_, ?_, ?_, ?_, ?_, ?_, ?_, ?_, ?_, ?_, ?_⟩
  · intro fr e tail st
    have := H.eval fr e tail st
    grind [Res.isViol, exViol]
  · intro fr f args tail st
    have := H.callNamed fr f args tail st
    grind [Res.isViol, exViol]
  · intro fr c args tail st
    have := H.callVal fr c args tail st
    grind [Res.isViol, exViol]
  · intro fr es st
    have := H.evalList fr es st
    grind [Res.isViol, exViol]
  · intro fr f st
    have := H.mkClos fr f st
    grind [Res.isViol, exViol]
  · intro fr ps st
    have := H.evalDflts fr ps st
    grind [Res.isViol, exViol]
  · intro h c args st
    have := H.callUser h c args st
    grind [Res.isViol, exViol]
  · intro h c args rec st
    have := H.tramp h c args rec st
    grind [Res.isViol, exViol]
  · intro fr ds st
    have := H.evalDecls fr ds st
    grind [Res.isViol, exViol]
  · intro fr f args tail st
    have := H.builtin fr f args tail st
    grind [Res.isViol, exViol]
  · intro ds
    have := H.evalDecls { env := [], self := none, height := 0 } ds {}
    simp only [runProgram]
    grind [Res.isViol, exViol]

/-! ### 2. which violation: a violation of kind `k` needs limit `k` -/

/-- A depth / call / recursion violation can only come out of a run whose configuration has the
corresponding limit: each limit is the only source of its violation (so configuring one limit never
produces another kind of violation). -/
theorem violation_needs_its_limit (cfg : Cfg) (fuel : Nat) :
    (∀ fr e tail st,
      ((eval fuel cfg fr e tail st).1 = .viol .depth → cfg.depthLimit ≠ none) ∧
      ((eval fuel cfg fr e tail st).1 = .viol .calls → cfg.callLimit ≠ none) ∧
      ((eval fuel cfg fr e tail st).1 = .viol .recursion → cfg.recLimit ≠ none)) ∧
    (∀ h c args st,
      ((callUser fuel cfg h c args st).1 = .viol .depth → cfg.depthLimit ≠ none) ∧
      ((callUser fuel cfg h c args st).1 = .viol .calls → cfg.callLimit ≠ none) ∧
      ((callUser fuel cfg h c args st).1 = .viol .recursion → cfg.recLimit ≠ none)) ∧
    (∀ ds,
      ((runProgram fuel cfg ds).1 = .error (.viol .depth) → cfg.depthLimit ≠ none) ∧
      ((runProgram fuel cfg ds).1 = .error (.viol .calls) → cfg.callLimit ≠ none) ∧
      ((runProgram fuel cfg ds).1 = .error (.viol .recursion) → cfg.recLimit ≠ none)) := by
  have H := kindAt cfg fuel
  exact ⟨fun fr e tail st => H.eval fr e tail st, fun h c args st => H.callUser h c args st,
    fun ds => H.evalDecls _ ds _⟩

/-! ### 3. the call limit is exact for whole runs -/

/-- Under a call limit `l`, for every run (any expression, any user call, any fuel) started with
the counter below `l`: the counter never decreases; the run ends in the call violation exactly when
the counter reaches `l` (it is then exactly `l`: nothing is counted after the violation), and
otherwise the counter stays below `l`.  "The number of user calls since the last reset reaches L". -/
theorem call_limit_exact_run (cfg : Cfg) (l : Nat) (hl : cfg.callLimit = some l) (fuel : Nat) :
    (∀ fr e tail st, st.calls ≤ (eval fuel cfg fr e tail st).2.calls ∧
      (st.calls < l →
        ((eval fuel cfg fr e tail st).1 = .viol .calls ↔ (eval fuel cfg fr e tail st).2.calls = l) ∧
        ((eval fuel cfg fr e tail st).1 ≠ .viol .calls ↔ (eval fuel cfg fr e tail st).2.calls < l))) ∧
    (∀ h c args st, st.calls ≤ (callUser fuel cfg h c args st).2.calls ∧
      (st.calls < l →
        ((callUser fuel cfg h c args st).1 = .viol .calls ↔ (callUser fuel cfg h c args st).2.calls = l) ∧
        ((callUser fuel cfg h c args st).1 ≠ .viol .calls ↔ (callUser fuel cfg h c args st).2.calls < l))) ∧
    (∀ ds, 0 < l →
        ((runProgram fuel cfg ds).1 = .error (.viol .calls) ↔ (runProgram fuel cfg ds).2.calls = l) ∧
        ((runProgram fuel cfg ds).1 ≠ .error (.viol .calls) ↔ (runProgram fuel cfg ds).2.calls < l)) := by
  have H := callsAt cfg l hl fuel
  refine ⟨?_, ?_, ?_⟩
  · intro fr e tail st
    have := H.eval fr e tail st
    grind
  · intro h c args st
    have := H.callUser h c args st
    grind
  · intro ds hpos
    have := H.evalDecls { env := [], self := none, height := 0 } ds {}
    simp only [runProgram]
    grind

/-- Without a call limit the counter is never touched, whatever the other limits. -/
theorem calls_not_counted_without_limit (cfg : Cfg) (hl : cfg.callLimit = none) (fuel : Nat) :
    (∀ fr e tail st, (eval fuel cfg fr e tail st).2.calls = st.calls) ∧
    (∀ h c args st, (callUser fuel cfg h c args st).2.calls = st.calls) ∧
    (∀ ds, (runProgram fuel cfg ds).2.calls = 0) := by
  have H := noCountAt cfg hl fuel
  exact ⟨fun fr e tail st => H.eval fr e tail st, fun h c args st => H.callUser h c args st,
    fun ds => H.evalDecls _ ds _⟩

/-! ### 4. the host's reset -/

/-- `Runtime::reset_ud_calls` / `reset_call_limit` (`runtime.rs:131-163`) -/
def reset (st : St) : St := { st with calls := 0 }

/-- Resetting the call counter restores the full budget: whatever the counter was before (even at or
beyond the limit), a run started from the reset state ends in the call violation exactly when it has
itself made `l` user calls, and it leaves the output untouched. -/
theorem reset_restores (cfg : Cfg) (l : Nat) (hl : cfg.callLimit = some l) (hpos : 0 < l) (fuel : Nat)
    (fr : Frame) (e : Core.Expr) (tail : Bool) (st : St) :
    (reset st).out = st.out ∧ (reset st).calls = 0 ∧
    ((eval fuel cfg fr e tail (reset st)).1 = .viol .calls ↔ (eval fuel cfg fr e tail (reset st)).2.calls = l) ∧
    ((eval fuel cfg fr e tail (reset st)).1 ≠ .viol .calls ↔ (eval fuel cfg fr e tail (reset st)).2.calls < l) := by
  have H := (callsAt cfg l hl fuel).eval fr e tail (reset st)
  have h0 : (reset st).calls = 0 := rfl
  refine ⟨rfl, rfl, ?_, ?_⟩ <;> grind

/-! ### concrete runs: the bounds are attained -/

/-- `fn f(x) = x; let y = f(1);` -/
def progOneCall : List Decl :=
  [.fnD (.mk (some "f") [.mk "x" none] [] (.var "x")), .letD "y" (.call "f" [.int 1])]

example : (runProgram 10 { callLimit := some 1 } progOneCall).1 = .error (.viol .calls) := by rfl
example : (runProgram 10 { callLimit := some 1 } progOneCall).2.calls = 1 := by rfl
example : ∃ fr, (runProgram 10 { callLimit := some 2 } progOneCall).1 = .ok fr := ⟨_, rfl⟩
example : (runProgram 10 { depthLimit := some 1 } progOneCall).1 = .error (.viol .depth) := by rfl
example : ∃ fr, (runProgram 10 { depthLimit := some 2 } progOneCall).1 = .ok fr := ⟨_, rfl⟩

/-- `fn g(n) = if(eq(n, 0), 0, g(sub(n, 1))); let y = g(2);` — two tail iterations -/
def progLoop : List Decl :=
  [.fnD (.mk (some "g") [.mk "n" none] []
      (.call "if" [.call "eq" [.var "n", .int 0], .int 0, .call "g" [.call "sub" [.var "n", .int 1]]])),
   .letD "y" (.call "g" [.int 2])]

example : (runProgram 20 { recLimit := some 1 } progLoop).1 = .error (.viol .recursion) := by rfl
example : ∃ fr, (runProgram 20 { recLimit := some 2 } progLoop).1 = .ok fr := ⟨_, rfl⟩
-- the two tail iterations are not counted as calls: one user call in all
example : (runProgram 20 { callLimit := some 5 } progLoop).2.calls = 1 := by rfl
-- without tail calls the same program makes three user calls and nests three deep
example : (runProgram 40 { callLimit := some 5, tco := false } progLoop).2.calls = 3 := by rfl
example : (runProgram 40 { depthLimit := some 3, tco := false } progLoop).1 = .error (.viol .depth) := by rfl
example : ∃ fr, (runProgram 40 { depthLimit := some 4, tco := false } progLoop).1 = .ok fr := ⟨_, rfl⟩


/-! ### local exactness of the three checks (one step of `callUser` / `tramp`) -/

/-- The call limit is exact: a user call (with error-free arguments) under call limit `l` ends in the
call violation exactly when the number of user calls, this one included, reaches `l`;
otherwise the call proceeds with the counter advanced by one. -/
theorem call_limit_exact (fuel : Nat) (cfg : Cfg) (h : Nat) (c : Val) (args : List Val) (st : St) (l : Nat)
    (hl : cfg.callLimit = some l) (he : firstErr args = none) :
    (st.calls + 1 ≥ l → callUser (fuel + 1) cfg h c args st = (.viol .calls, { st with calls := st.calls + 1 })) ∧
    (st.calls + 1 < l → callUser (fuel + 1) cfg h c args st = tramp fuel cfg h c args 0 { st with calls := st.calls + 1 }) := by
  constructor <;> intro hh <;> simp [callUser, he, hl] <;> omega

/-- Without a call limit the counter is not touched by a call. -/
theorem no_call_limit_no_count (fuel : Nat) (cfg : Cfg) (h : Nat) (c : Val) (args : List Val) (st : St)
    (hl : cfg.callLimit = none) (he : firstErr args = none) :
    callUser (fuel + 1) cfg h c args st = tramp fuel cfg h c args 0 st := by
  simp [callUser, he, hl]

/-- The depth limit is exact: creating the frame of a user function at nesting depth `height + 1`
ends in the depth violation exactly when that depth reaches the limit. -/
theorem depth_limit_exact (fuel : Nat) (cfg : Cfg) (height : Nat) (f : Func) (ds : List Val) (env : List (String × Val))
    (args : List Val) (rec : Nat) (st : St) (l : Nat) (hl : cfg.depthLimit = some l) (hh : height + 1 ≥ l) :
    tramp (fuel + 1) cfg height (.clos f ds env) args rec st = (.viol .depth, st) := by
  simp [tramp, hl, hh]

end XrayModel.C08
