/-
C18 — Strings are code-point sequences; literals mean what they say.
Property theorems only; helper lemmas live in XrayProofs/FString.lean, the model in XrayModel/{FString,Lex}.lean.

`s.buf : List Char` is the sequence of Unicode scalar values of the string (what `chars` shows); `s.wf` is
the representation invariant of `FencedString` (the char-start table is empty over a pure-ASCII buffer, or
holds the UTF-8 byte offset of every character).
-/
import XrayProofs.FString
namespace XrayModel.C18
open XrayModel.FStr XrayModel.FStr.FS

/-- `from_string` keeps the text, establishes the invariant, and is canonical: the table is empty exactly
when every character is ASCII -/
theorem inv_fromString (cs : List Char) :
    (fromString cs).buf = cs ∧ (fromString cs).wf ∧
    ((fromString cs).starts = [] ↔ ∀ c ∈ cs, c.utf8Size = 1) :=
  fromString_spec cs

/-- `len` is the number of code points, whatever the representation -/
theorem len_chars (s : FS) (h : s.wf) : s.len = s.buf.length := FStr.len_chars s h

/-- slicing is list slicing on code points: for `a ≤ len` and `a ≤ b` the Rust code neither panics nor
leaves the invariant, and yields the code points `a … min b len` (the end is clipped as for lists) -/
theorem substring_chars (s : FS) (hs : s.wf) (a b : Nat) (ha : a ≤ s.buf.length) (hab : a ≤ b) :
    ∃ r, s.substring a (some b) = .ok r ∧ r.wf ∧ r.buf = (s.buf.drop a).take (b - a) := by
  simpa using substring_spec s hs a (some b) ha (by intro b' h; cases h; exact hab)

/-- slicing to the end -/
theorem substring_to_end (s : FS) (hs : s.wf) (a : Nat) (ha : a ≤ s.buf.length) :
    ∃ r, s.substring a none = .ok r ∧ r.wf ∧ r.buf = s.buf.drop a := by
  simpa using substring_spec s hs a none ha (by intro b' h; cases h)

-- the hypotheses are satisfiable on a string mixing 1-, 2- and 4-byte characters
example : (fromString ['a', 'é', '😀', 'b']).wf ∧ (fromString ['a', 'é', '😀', 'b']).substring 1 (some 3)
    = .ok ⟨['é', '😀'], [0, 2]⟩ := ⟨(inv_fromString _).2.1, by decide⟩

end XrayModel.C18
