/-
C18 — Strings are code-point sequences; literals mean what they say.
Property theorems only; helper lemmas live in XrayProofs/FString.lean, the model in XrayModel/{FString,Lex}.lean.

`s.buf : List Char` is the sequence of Unicode scalar values of the string (what `chars` shows); `s.wf` is
the representation invariant of `FencedString` (the char-start table is empty over a pure-ASCII buffer, or
holds the UTF-8 byte offset of every character).
-/
import XrayProofs.FString
import XrayProofs.Lex
namespace XrayModel.C18
open XrayModel.FStr XrayModel.FStr.FS XrayModel.Lex

/-- `from_string` keeps the text, establishes the invariant, and is canonical: the table is empty exactly
when every character is ASCII -/
theorem inv_fromString (cs : List Char) :
    (fromString cs).buf = cs ∧ (fromString cs).wf ∧
    ((fromString cs).starts = [] ↔ ∀ c ∈ cs, c.utf8Size = 1) :=
  fromString_spec cs

/-- `len` is the number of code points, whatever the representation -/
theorem len_chars (s : FS) (h : s.wf) : s.len = s.buf.length := FStr.len_chars s h

/-- the byte offsets of the model are those of the UTF-8 encoding: the encoded buffer (what the driver shows and
the tie compares with the implementation's bytes) is exactly `byteLen` long, one to four bytes per code point -/
theorem utf8_length (cs : List Char) : (encode cs).length = byteLen cs := encode_length cs

/-- slicing is list slicing on code points: for `a ≤ len` and `a ≤ b` the Rust code neither panics nor
leaves the invariant, and yields the code points `a … min b len` (the end is clipped as for lists) -/
theorem substring_chars (s : FS) (hs : s.wf) (a b : Nat) (ha : a ≤ s.buf.length) (hab : a ≤ b) :
    ∃ r, s.substring a (some b) = .ok r ∧ r.wf ∧ r.buf = (s.buf.drop a).take (b - a) := by
  simpa using substring_spec s hs a (some b) ha (by intro b' h; cases h; exact hab)

/-- slicing to the end -/
theorem substring_to_end (s : FS) (hs : s.wf) (a : Nat) (ha : a ≤ s.buf.length) :
    ∃ r, s.substring a none = .ok r ∧ r.wf ∧ r.buf = s.buf.drop a := by
  simpa using substring_spec s hs a none ha (by intro b' h; cases h)

-- the hypotheses are satisfiable on a string mixing 1-, 2- and 4-byte characters
example : (fromString ['a', 'é', '😀', 'b']).wf ∧ (fromString ['a', 'é', '😀', 'b']).substring 1 (some 3)
    = .ok ⟨['é', '😀'], [0, 2]⟩ := ⟨(inv_fromString _).2.1, by decide⟩

/-- concatenation (`push`, `+`) keeps the invariant and concatenates the code points, whichever of the two
representations the operands have -/
theorem push_chars (s o : FS) (hs : s.wf) (ho : o.wf) : (s.push o).wf ∧ (s.push o).buf = s.buf ++ o.buf :=
  push_spec s o hs ho

/-- `push_ascii` with an ASCII argument -/
theorem pushAscii_chars (s : FS) (t : List Char) (hs : s.wf) (ht : ∀ c ∈ t, c.utf8Size = 1) :
    (s.pushAscii t).wf ∧ (s.pushAscii t).buf = s.buf ++ t := pushAscii_spec s t hs ht

/-- every operation that builds a string keeps the invariant (`substring` for in-range requests, `push`,
`from_string`, and the case mappings, which rebuild the table from the mapped text) -/
theorem inv_preserved (s o : FS) (hs : s.wf) (ho : o.wf) (a : Nat) (e : Option Nat) (r : FS)
    (allCased : Bool) (mapped : List Char) :
    (s.push o).wf ∧ (s.substring a e = .ok r → a ≤ s.buf.length → (∀ b, e = some b → a ≤ b) → r.wf) ∧
    (s.caseMap allCased mapped = some r → r.wf ∧ r.buf = mapped) := by
  refine ⟨(push_spec s o hs ho).1, ?_, ?_⟩
  · intro h ha hae
    obtain ⟨r', h1, h2, _⟩ := substring_spec s hs a e ha hae
    rw [h1] at h; cases h; exact h2
  · intro h
    unfold FS.caseMap at h
    split at h
    · cases h
    · cases h; exact ⟨(fromString_spec mapped).2.1, (fromString_spec mapped).1⟩

/-- `s[i]`: every index in `-len ≤ i < len` (negative ones count from the end) yields exactly that code point -/
theorem get_spec (s : FS) (hs : s.wf) (i : Int) (hlen : s.buf.length < usizeLimit)
    (hlo : -(s.buf.length : Int) ≤ i) (hhi : i < s.buf.length) :
    ∃ r, get s i = .ok r ∧ r.wf ∧
      r.buf = (s.buf.drop (if i < 0 then i + s.buf.length else i).toNat).take 1 :=
  FStr.get_spec s hs i hlen hlo hhi

/-- an index outside `-len ≤ i < len` is an error value -/
theorem get_out_of_range (s : FS) (hs : s.wf) (i : Int)
    (h : i < -(s.buf.length : Int) ∨ (s.buf.length : Int) ≤ i) : ∃ m, get s i = .err m :=
  FStr.get_out_of_range s hs i h

/-- `find(s, n, start)`: the least character index `≥ start` at which `n` occurs in the code-point sequence,
`none` if there is none (`occAt n cs i` : `n` is a prefix of `cs.drop i`) -/
theorem find_spec (s n : FS) (hs : s.wf) (hn : n.buf ≠ []) (st : Nat) (hst : st ≤ s.buf.length)
    (h64 : st < usizeLimit) :
    (∃ i, find s n (some st) = .ok (some i) ∧ st ≤ i ∧ occAt n.buf s.buf i ∧
        ∀ j, st ≤ j → j < i → ¬ occAt n.buf s.buf j) ∨
    (find s n (some st) = .ok none ∧ ∀ j, st ≤ j → j ≤ s.buf.length → ¬ occAt n.buf s.buf j) :=
  FStr.find_spec s n hs hn st hst h64

/-- `rfind(s, n, end)`: the greatest character index at which `n` occurs inside the first `end` code points -/
theorem rfind_spec (s n : FS) (hs : s.wf) (hn : n.buf ≠ []) (e : Nat) (h64 : e < usizeLimit) :
    (∃ i, rfind s n (some e) = .ok (some i) ∧ occAt n.buf (s.buf.take e) i ∧
        ∀ j, i < j → j ≤ (s.buf.take e).length → ¬ occAt n.buf (s.buf.take e) j) ∨
    (rfind s n (some e) = .ok none ∧ ∀ j, j ≤ (s.buf.take e).length → ¬ occAt n.buf (s.buf.take e) j) :=
  FStr.rfind_spec s n hs hn e h64

/-- whatever the integer arguments, the index handling of `get`, `find`, `rfind` and `substring` never reaches
a Rust panic (no byte slice past the end or inside a character, no table index out of range): a request is
answered by a value or by an error value -/
theorem out_of_range_is_error (s n : FS) (hs : s.wf) (i j : Int) (oi : Option Int) :
    ¬ (get s i).isPanic ∧ ¬ (find s n oi).isPanic ∧ ¬ (rfind s n oi).isPanic ∧
    ¬ (FStr.substring s i j).isPanic :=
  ⟨get_no_panic s hs i, find_no_panic s n hs oi, rfind_no_panic s n hs oi, substring_no_panic s hs i j⟩

-- witnesses of the defects that were repaired in /repo (the old code kept the table when lower-casing):
-- the stale table of "aİb" is not the table of its lower-casing "ai̇b"
example : ¬ (FS.mk ['a', 'i', '\u0307', 'b'] (fromString ['a', 'İ', 'b']).starts).wf := by
  intro h
  rcases h with ⟨h1, _⟩ | h
  · revert h1; decide
  · revert h; decide
example : get (fromString ['a', 'b', 'c']) 5 = .err "index out of bounds" := by decide
example : find (fromString ['é', 'a']) (fromString ['a']) none = .ok (some 1) := by decide

/-! ### literals (model: XrayModel/Lex.lean, `parseLiteral` = the `#`-fence / quote scanner of xray.pest followed by
`apply_escapes`; `escapes_total` and `escapes_plain` are in Props/C12.lean) -/

/-- a raw literal `r#…#"t"#…#` (either quote kind, any fence) denotes exactly `t` when `t` does not contain the
quote character -/
theorem raw_literal_means_itself (q : Char) (hq : isQuote q) (n : Nat) (t : List Char) (hnot : q ∉ t) :
    parseLiteral ('r' :: (List.replicate n '#' ++ q :: (t ++ q :: List.replicate n '#'))) = some (.ok t, []) :=
  parseLiteral_raw q hq n t (no_close_of_not_mem q n t _ hnot)

/-- a plain literal whose text has neither the quote character nor a backslash denotes exactly that text -/
theorem plain_literal_means_itself (q : Char) (hq : isQuote q) (n : Nat) (t : List Char) (hnot : q ∉ t)
    (hb : ∀ c ∈ t, c ≠ '\\') :
    parseLiteral (List.replicate n '#' ++ q :: (t ++ q :: List.replicate n '#')) = some (.ok t, []) :=
  parseLiteral_plain q hq n t hb (no_close_of_not_mem q n t _ hnot)

/-- inside a fence of at least one `#` the text may contain its own quote character, as long as no quote is
directly followed by `#`: the literal still denotes exactly the text (the fence is matched, not the first quote) -/
theorem fence_admits_quotes (q : Char) (hq : isQuote q) (n : Nat) (hn : 1 ≤ n) (t : List Char)
    (h : ∀ i, t[i]? = some q → t[i + 1]? ≠ some '#') :
    parseLiteral ('r' :: (List.replicate n '#' ++ q :: (t ++ q :: List.replicate n '#'))) = some (.ok t, []) ∧
    ((∀ c ∈ t, c ≠ '\\') →
      parseLiteral (List.replicate n '#' ++ q :: (t ++ q :: List.replicate n '#')) = some (.ok t, [])) :=
  ⟨parseLiteral_raw q hq n t (no_close_of_fence q hq n hn t h),
   fun hb => parseLiteral_plain q hq n t hb (no_close_of_fence q hq n hn t h)⟩

/-- the escape sequences of the book (string_literals.md) denote the documented characters; an undocumented
one is a compilation error, never a character -/
theorem escape_table :
    applyEscapes ['\\', 'n'] = .ok ['\n'] ∧ applyEscapes ['\\', 'r'] = .ok ['\r'] ∧
    applyEscapes ['\\', 't'] = .ok ['\t'] ∧ applyEscapes ['\\', '\\'] = .ok ['\\'] ∧
    applyEscapes ['\\', '"'] = .ok ['"'] ∧ applyEscapes ['\\', '\''] = .ok ['\''] ∧
    applyEscapes ['\\', '0'] = .ok [Char.ofNat 0] ∧
    applyEscapes "\\u{1F600}".toList = .ok ['😀'] ∧ applyEscapes "\\u{41}".toList = .ok ['A'] ∧
    applyEscapes "\\q".toList = .error "BadEscapeSequence" ∧
    applyEscapes "\\u{110000}".toList = .error "BadEscapeSequence" ∧
    applyEscapes "\\u{D800}".toList = .error "BadEscapeSequence" ∧
    applyEscapes "\\u{+41}".toList = .error "BadEscapeSequence" ∧
    applyEscapes "\\u{0000041}".toList = .error "BadEscapeSequence" := by decide

example : parseLiteral "##\"a\"#b\"##".toList = some (.ok "a\"#b".toList, []) := by decide
example : parseLiteral "'it\\'s'".toList = some (.ok "it's".toList, []) := by decide

end XrayModel.C18
