/-
C10 — Limits bound all work: no unbounded native loop  (generator / step-count part, time gate).
Property theorems only; helper lemmas live in XrayProofs/GenWork.lean.

`next L fuel it` is Rust's `next()` of the iterator `it` under search limit `L`: `step` iterated through
the `skip`s — the iterations of the adaptor's internal loop that produce nothing.  `fuel` bounds their
number, so `next L (b + 1) it ≠ outOfFuel` says: `next()` answers (an element, a violation or the end)
after at most `b` unproductive iterations.  `Prod it`: the source has no internal loop of its own
(arrays, `count()`, `successors`, and `map` / `take_while` / `aggregate` / `with_count` of such).

General statement (`next_work_bounded`): for every generator `g` of the model, every search limit `l` and every
state reachable from `g.iter (some l)`, `next()` answers after at most `g.work l` unproductive iterations, where
`work` multiplies the bound of the source by `l + 2` at every level that loops (filter, skip_until, skip, group,
windows: a permit per iteration), by 2 at `repeat`, by the number of parts at a chain or a zip, and is 0 for
sources: a polynomial in the limit whose degree is the nesting depth of loops, with coefficients from the
program size.  The per-loop theorems below give the sharp constants over loop-free sources.
-/
import XrayProofs.GenBound
import XrayModel.GenLimits
namespace XrayModel.C10
open XrayModel.Gen XrayModel.GenLimits

/-- the general bound, nested loops included, for every generator: from the fresh consumer iterator of `g` and
from every state reachable from it, `next()` answers within `g.work l` unproductive iterations -/
theorem next_work_bounded (l : Nat) (g : G) :
    Bnd (some l) (g.work l) (g.iter (some l)) := by
  rw [G.iter]; exact bnd_budget _ _ _ _ (work_bounded_any l g)

/-- in particular the first `next()` of a consumer answers -/
theorem next_work_bounded_first (l : Nat) (g : G) :
    next (some l) (g.work l + 1) (g.iter (some l)) ≠ .outOfFuel :=
  bnd_next (next_work_bounded l g)

/-- … and so does every later one: the bound holds again after any number of steps -/
theorem next_work_bounded_later (l : Nat) (g : G) (n : Nat) (s : It)
    (hs : after (some l) n (g.iter (some l)) = some s) :
    next (some l) (g.work l + 1) s ≠ .outOfFuel := by
  have hb := next_work_bounded l g
  suffices ∀ n it s, Bnd (some l) (g.work l) it → after (some l) n it = some s → Bnd (some l) (g.work l) s from
    bnd_next (this n _ s hb hs)
  intro n
  induction n with
  | zero => intro it s hb hs; simp [after] at hs; subst hs; exact hb
  | succ n ih =>
    intro it s hb hs
    simp only [after] at hs
    cases hst : step (some l) it with
    | done => simp [hst] at hs
    | skip t => simp only [hst] at hs; exact ih t s (bnd_skip hb hst) hs
    | «yield» x t => simp only [hst] at hs; exact ih t s (bnd_yield hb hst) hs

/-- the bound is a function of the limit and the program only; e.g. a filter of a repeat of a filter of the
counter: `(l+2) * (2 * ((l+2) * 1 + 1) + 1)` -/
example (l : Nat) (p q : P) :
    (G.filter (.repeat_ (.filter (.fromCount none) p)) q).work l = (l + 2) * (2 * ((l + 2) * (0 + 1) + 1) + 1) := by
  simp [G.work]

/-- the building blocks, for any source with bound `B`: a loop that takes permits … -/
theorem loop_bound_filter (L : Option Nat) (B k : Nat) (p : P) (perm : Permits) (it : It)
    (hu : perm ≠ .unlimited) (hb : perm.bound ≤ k) (h : Bnd L B it) :
    Bnd L ((k + 1) * (B + 1)) (.filter it p perm) := bnd_filter L B k p perm it hu hb h

/-- … a restart … -/
theorem loop_bound_repeat (L : Option Nat) (B : Nat) (g : G) (cur : It) (fresh : Bool)
    (hg : Bnd L B (g.start L)) (h : Bnd L B cur) : Bnd L (2 * (B + 1)) (.repeat_ g cur fresh) :=
  bnd_repeat L B g cur fresh hg h

/-- … and a chain of parts -/
theorem loop_bound_chain (L : Option Nat) (B : Nat) (rest : List G) (cur : It) (h : Bnd L B cur)
    (hr : ∀ g ∈ rest, Bnd L B (g.start L)) : Bnd L ((rest.length + 1) * (B + 1)) (.chain cur rest) :=
  bnd_chain L B rest cur h hr

/-- `filter`: with `k` permits left, `next()` answers within `k + 1` rejected elements, whatever the
predicate does — under a search limit `l` that is at most `l + 1` -/
theorem next_work_bounded_filter (L : Option Nat) (p : P) (k : Nat) (it : It) (h : Prod it) :
    next L (k + 2) (.filter it p (.left k)) ≠ .outOfFuel :=
  filter_next_bounded_aux L p (k + 1) (.left k) it (by simp) (by simp [Permits.bound]) h

/-- … and once the permits are used up it ends at once -/
theorem next_work_bounded_filter_dead (L : Option Nat) (p : P) (it : It) (h : Prod it) :
    next L 1 (.filter it p .dead) ≠ .outOfFuel :=
  filter_next_bounded_aux L p 0 .dead it (by simp) (by simp [Permits.bound]) h

/-- a fresh filter under search limit `l`: at most `l + 1` unproductive iterations per `next()` -/
theorem next_work_bounded_filter_start (l : Nat) (g : G) (p : P) (h : Prod (g.start (some l))) :
    next (some l) (l + 2) ((G.filter g p).start (some l)) ≠ .outOfFuel := by
  rw [G.start]; exact next_work_bounded_filter (some l) p l _ h

/-- without permits nothing bounds it: this is the code before 5cb2fd9 under *any* limit (it took no
permit), and the present code when no search limit is configured -/
theorem filter_without_permits_diverges (L : Option Nat) (n : Nat) :
    next L n (.filter (.count 0 none) (fun _ => .f) .unlimited) = .outOfFuel :=
  filter_unlimited_diverges L n 0

/-- `skip_until` -/
theorem next_work_bounded_skipUntil (L : Option Nat) (p : P) (found : Bool) (k : Nat) (it : It)
    (h : Prod it) : next L (k + 2) (.skipUntil it p found (.left k)) ≠ .outOfFuel :=
  skipUntil_next_bounded_aux L p found (k + 1) (.left k) it (by simp) (by simp [Permits.bound]) h

/-- `skip(a)`: bounded by `a` … -/
theorem next_work_bounded_skip (L : Option Nat) (a : Nat) (perm : Permits) (t : Option Nat) (it : It)
    (h : Prod it) : next L (a + 1) (.slice it a perm t) ≠ .outOfFuel :=
  slice_next_bounded_skip L a perm t it h

/-- … and by the search limit, however large `a` is (`skip(10**15)` ends in a violation after `l` elements) -/
theorem next_work_bounded_skip_permits (L : Option Nat) (a k : Nat) (t : Option Nat) (it : It)
    (h : Prod it) : next L (k + 2) (.slice it a (.left k) t) ≠ .outOfFuel :=
  slice_next_bounded_permits L (k + 1) (.left k) a t it (by simp) (by simp [Permits.bound]) h

/-- `repeat`: at most one restart per `next()`; the repetition of an empty generator ends (it used to
spin for ever: 44f5035) -/
theorem next_work_bounded_repeat (L : Option Nat) (g : G) (cur : It) (fresh : Bool)
    (hg : Prod (g.start L)) (hc : Prod cur) : next L 2 (.repeat_ g cur fresh) ≠ .outOfFuel :=
  repeat_next_bounded L g cur fresh hg hc

example : next none 2 ((G.repeat_ (.fromArr [])).start none) = .done := by rfl

/-- `add`: one step per part that has ended -/
theorem next_work_bounded_chain (L : Option Nat) (rest : List G) (cur : It)
    (hr : ∀ g ∈ rest, Prod (g.start L)) (hc : Prod cur) :
    next L (rest.length + 1) (.chain cur rest) ≠ .outOfFuel :=
  chain_next_bounded L rest cur hr hc

/-- the hypotheses are satisfiable: `count().to_generator().map(f)` has no internal loop -/
example (f : F) : Prod ((G.map (.fromCount none) f).start (some 5)) := by
  simp only [G.start]; exact Gen.Prod.map f (Gen.Prod.count 0 none)

/-- once the deadline has passed no user-function body begins: neither by a call … -/
theorem timeout_gates_calls (argErr : Bool) (udLimit : Option Nat) (calls d now : Nat) (h : d ≤ now) :
    (beginCall argErr udLimit calls (some d) now).1 ≠ .bodyRuns := by
  have hc : checkTimeout (some d) now = false := by simp [checkTimeout]; omega
  unfold beginCall
  rw [hc]
  cases argErr <;> simp
  split <;> simp

/-- … nor by a turn of the tail-call loop -/
theorem timeout_gates_tail_calls (recLimit : Option Nat) (depth d now : Nat) (h : d ≤ now) :
    (tailIteration recLimit depth (some d) now).1 ≠ .bodyRuns := by
  have hc : checkTimeout (some d) now = false := by simp [checkTimeout]; omega
  unfold tailIteration
  rw [hc]
  simp only
  split
  · split <;> simp
  · simp

/-- before the deadline, under the call limit and without an error argument, the body does run -/
theorem call_begins_before_deadline (udLimit : Option Nat) (calls d now : Nat) (h : now < d)
    (hl : ∀ l, udLimit = some l → calls + 1 < l) :
    (beginCall false udLimit calls (some d) now).1 = .bodyRuns := by
  have hc : checkTimeout (some d) now = true := by simp [checkTimeout]; omega
  unfold beginCall
  rw [hc]
  cases udLimit with
  | none => simp [incrementCallLimit]
  | some l =>
    have := hl l rfl
    have h2 : ¬ (l ≤ calls + 1) := by omega
    simp [incrementCallLimit, h2]

end XrayModel.C10
