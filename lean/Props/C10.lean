/-
C10 — Limits bound all work: no unbounded native loop  (generator / step-count part, time gate).
Property theorems only; helper lemmas live in XrayProofs/GenWork.lean.

`next L fuel it` is Rust's `next()` of the iterator `it` under search limit `L`: `step` iterated through
the `skip`s — the iterations of the adaptor's internal loop that produce nothing.  `fuel` bounds their
number, so `next L (b + 1) it ≠ outOfFuel` says: `next()` answers (an element, a violation or the end)
after at most `b` unproductive iterations.  `Prod it`: the source has no internal loop of its own
(arrays, `count()`, `successors`, and `map` / `take_while` / `aggregate` / `with_count` of such).

Full statement (kept for reference; proved for the loops below over such sources, hence `_partial`):
  for every generator `g`, every limit `L = some l` and every state `it` reachable from `g.iter L`,
  `next L (c * (l + size g) + 1) it ≠ outOfFuel`.
What is proved covers every internal loop of `generators.rs` that the repairs 5cb2fd9 / 44f5035 /
5b71e05 touched, each over loop-free sources and from every state (all permits, all counters);
nesting loops inside loops (a filter of a filter …) multiplies the bounds and is explored by the tie.
-/
import XrayProofs.GenWork
import XrayModel.GenLimits
namespace XrayModel.C10
open XrayModel.Gen XrayModel.GenLimits

/-- `filter`: with `k` permits left, `next()` answers within `k + 1` rejected elements, whatever the
predicate does — under a search limit `l` that is at most `l + 1` -/
theorem next_work_bounded_filter_partial (L : Option Nat) (p : P) (k : Nat) (it : It) (h : Prod it) :
    next L (k + 2) (.filter it p (.left k)) ≠ .outOfFuel :=
  filter_next_bounded_aux L p (k + 1) (.left k) it (by simp) (by simp [Permits.bound]) h

/-- … and once the permits are used up it ends at once -/
theorem next_work_bounded_filter_dead (L : Option Nat) (p : P) (it : It) (h : Prod it) :
    next L 1 (.filter it p .dead) ≠ .outOfFuel :=
  filter_next_bounded_aux L p 0 .dead it (by simp) (by simp [Permits.bound]) h

/-- a fresh filter under search limit `l`: at most `l + 1` unproductive iterations per `next()` -/
theorem next_work_bounded_filter_start (l : Nat) (g : G) (p : P) (h : Prod (g.start (some l))) :
    next (some l) (l + 2) ((G.filter g p).start (some l)) ≠ .outOfFuel := by
  rw [G.start]; exact next_work_bounded_filter_partial (some l) p l _ h

/-- without permits nothing bounds it: this is the code before 5cb2fd9 under *any* limit (it took no
permit), and the present code when no search limit is configured -/
theorem filter_without_permits_diverges (L : Option Nat) (n : Nat) :
    next L n (.filter (.count 0 none) (fun _ => .f) .unlimited) = .outOfFuel :=
  filter_unlimited_diverges L n 0

/-- `skip_until` -/
theorem next_work_bounded_skipUntil_partial (L : Option Nat) (p : P) (found : Bool) (k : Nat) (it : It)
    (h : Prod it) : next L (k + 2) (.skipUntil it p found (.left k)) ≠ .outOfFuel :=
  skipUntil_next_bounded_aux L p found (k + 1) (.left k) it (by simp) (by simp [Permits.bound]) h

/-- `skip(a)`: bounded by `a` … -/
theorem next_work_bounded_skip_partial (L : Option Nat) (a : Nat) (perm : Permits) (t : Option Nat) (it : It)
    (h : Prod it) : next L (a + 1) (.slice it a perm t) ≠ .outOfFuel :=
  slice_next_bounded_skip L a perm t it h

/-- … and by the search limit, however large `a` is (`skip(10**15)` ends in a violation after `l` elements) -/
theorem next_work_bounded_skip_permits_partial (L : Option Nat) (a k : Nat) (t : Option Nat) (it : It)
    (h : Prod it) : next L (k + 2) (.slice it a (.left k) t) ≠ .outOfFuel :=
  slice_next_bounded_permits L (k + 1) (.left k) a t it (by simp) (by simp [Permits.bound]) h

/-- `repeat`: at most one restart per `next()`; the repetition of an empty generator ends (it used to
spin for ever: 44f5035) -/
theorem next_work_bounded_repeat_partial (L : Option Nat) (g : G) (cur : It) (fresh : Bool)
    (hg : Prod (g.start L)) (hc : Prod cur) : next L 2 (.repeat_ g cur fresh) ≠ .outOfFuel :=
  repeat_next_bounded L g cur fresh hg hc

example : next none 2 ((G.repeat_ (.fromArr [])).start none) = .done := by rfl

/-- `add`: one step per part that has ended -/
theorem next_work_bounded_chain_partial (L : Option Nat) (rest : List G) (cur : It)
    (hr : ∀ g ∈ rest, Prod (g.start L)) (hc : Prod cur) :
    next L (rest.length + 1) (.chain cur rest) ≠ .outOfFuel :=
  chain_next_bounded L rest cur hr hc

/-- the hypotheses are satisfiable: `count().to_generator().map(f)` has no internal loop -/
example (f : F) : Prod ((G.map (.fromCount none) f).start (some 5)) := by
  simp only [G.start]; exact Gen.Prod.map f (Gen.Prod.count 0 none)

/-- once the deadline has passed no user-function body begins: neither by a call … -/
theorem timeout_gates_calls (argErr : Bool) (udLimit : Option Nat) (calls d now : Nat) (h : d ≤ now) :
    (beginCall argErr udLimit calls (some d) now).1 ≠ .bodyRuns := by
  have hc : checkTimeout (some d) now = false := by simp [checkTimeout]; omega
  unfold beginCall
  rw [hc]
  cases argErr <;> simp
  split <;> simp

/-- … nor by a turn of the tail-call loop -/
theorem timeout_gates_tail_calls (recLimit : Option Nat) (depth d now : Nat) (h : d ≤ now) :
    (tailIteration recLimit depth (some d) now).1 ≠ .bodyRuns := by
  have hc : checkTimeout (some d) now = false := by simp [checkTimeout]; omega
  unfold tailIteration
  rw [hc]
  simp only
  split
  · split <;> simp
  · simp

/-- before the deadline, under the call limit and without an error argument, the body does run -/
theorem call_begins_before_deadline (udLimit : Option Nat) (calls d now : Nat) (h : now < d)
    (hl : ∀ l, udLimit = some l → calls + 1 < l) :
    (beginCall false udLimit calls (some d) now).1 = .bodyRuns := by
  have hc : checkTimeout (some d) now = true := by simp [checkTimeout]; omega
  unfold beginCall
  rw [hc]
  cases udLimit with
  | none => simp [incrementCallLimit]
  | some l =>
    have := hl l rfl
    have h2 : ¬ (l ≤ calls + 1) := by omega
    simp [incrementCallLimit, h2]

end XrayModel.C10
