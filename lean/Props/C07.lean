/-
C07 — Tail-call optimisation is semantically transparent.
Theorems over the core evaluator (XrayModel/Core.lean).
-/
import XrayProofs.CoreTco
namespace XrayModel.C07
open XrayModel.Core

/-- A self-call that is not offered the tail slot is an ordinary call, whatever `tco` says. -/
theorem non_tail_self_call_is_ordinary (fuel : Nat) (cfg : Cfg) (fr : Frame) (f : String) (c : Val)
    (args : List Expr) (st : St) (hs : fr.self = some (f, c)) (hl : lookup f fr.env = none) :
    eval (fuel + 1) cfg fr (.call f args) false st = callVal fuel cfg fr c args false st := by
  simp [eval, hs, hl]

/-- With the tail slot free and tco on, a self-call evaluates its arguments and hands them to the
trampoline; no frame is created and no call is counted at this point. -/
theorem tail_self_call_returns_args (fuel : Nat) (cfg : Cfg) (fr : Frame) (f : String) (c : Val)
    (args : List Expr) (st st' : St) (vs : List Val) (hs : fr.self = some (f, c))
    (hl : lookup f fr.env = none) (ht : cfg.tco = true)
    (ha : evalList fuel cfg fr args st = (.ok vs, st')) :
    eval (fuel + 1) cfg fr (.call f args) true st = (.tail vs, st') := by
  simp [eval, hs, hl, ht, ha]

/-! ## 1. A tail call never escapes -/

/-- An evaluation that was not offered the tail slot never returns a tail call — so every
`eval(…, false)` site of the interpreter may apply `unwrap_value` to the result. -/
theorem tail_never_escapes (fuel : Nat) (cfg : Cfg) (fr : Frame) (e : Expr) (st : St) (args : List Val) :
    (eval fuel cfg fr e false st).1 ≠ .tail args :=
  (Res.isTail_false_iff _).mp ((noTailAt cfg fuel).eval fr e false st (by simp)) args

example : eval 20 {} (sumFrame 3 0) sumBody true {} = (.tail [.int 2, .int 3], {}) ∧
    eval 30 {} (sumFrame 3 0) sumBody false {} = (.val (.int 6), {}) := by
  constructor <;>
  core_run

/-- Calls never return a tail call to their caller: a call by name or a native without the tail
slot, and — whatever the slot — a call of a function value, `eval_func_with_values`, the trampoline
and closure creation. -/
theorem tail_never_escapes_calls (fuel : Nat) (cfg : Cfg) (fr : Frame) (st : St) (a : List Val) :
    (∀ f args, (callNamed fuel cfg fr f args false st).1 ≠ .tail a) ∧
    (∀ f args, (builtin fuel cfg fr f args false st).1 ≠ .tail a) ∧
    (∀ c args tail, (callVal fuel cfg fr c args tail st).1 ≠ .tail a) ∧
    (∀ h c vs, (callUser fuel cfg h c vs st).1 ≠ .tail a) ∧
    (∀ h c vs rec, (tramp fuel cfg h c vs rec st).1 ≠ .tail a) ∧
    (∀ fn, (mkClos fuel cfg fr fn st).1 ≠ .tail a) := by
  have H := noTailAt cfg fuel
  refine ⟨?_, ?_, ?_, ?_, ?_, ?_⟩
  · intro f args; exact (Res.isTail_false_iff _).mp (H.callNamed fr f args false st (by simp)) a
  · intro f args; exact (Res.isTail_false_iff _).mp (H.builtin fr f args false st (by simp)) a
  · intro c args tail; exact (Res.isTail_false_iff _).mp (H.callVal fr c args tail st) a
  · intro h c vs; exact (Res.isTail_false_iff _).mp (H.callUser h c vs st) a
  · intro h c vs rec; exact (Res.isTail_false_iff _).mp (H.tramp h c vs rec st) a
  · intro fn; exact (Res.isTail_false_iff _).mp (H.mkClos fr fn st) a

/-- Argument lists, parameter defaults, the declarations of a body and a whole program never end
with a tail call as their outcome. -/
theorem tail_never_escapes_lists (fuel : Nat) (cfg : Cfg) (fr : Frame) (st : St) (a : List Val) :
    (∀ es, (evalList fuel cfg fr es st).1 ≠ .error (.tail a)) ∧
    (∀ ps, (evalDflts fuel cfg fr ps st).1 ≠ .error (.tail a)) ∧
    (∀ ds, (evalDecls fuel cfg fr ds st).1 ≠ .error (.tail a)) ∧
    (∀ ds, (runProgram fuel cfg ds).1 ≠ .error (.tail a)) := by
  have H := noTailAt cfg fuel
  refine ⟨?_, ?_, ?_, ?_⟩
  · intro es h; have := H.evalList fr es st; rw [h] at this; simp [exNoTail] at this
  · intro ps h; have := H.evalDflts fr ps st; rw [h] at this; simp [exNoTail] at this
  · intro ds h; have := H.evalDecls fr ds st; rw [h] at this; simp [exNoTail] at this
  · intro ds h; have := H.evalDecls { env := [], self := none, height := 0 } ds {}
    rw [runProgram] at h; rw [h] at this; simp [exNoTail] at this

/-- With the optimisation switched off no evaluation whatsoever returns a tail call. -/
theorem no_tail_without_tco (fuel : Nat) (cfg : Cfg) (htco : cfg.tco = false) (fr : Frame) (tail : Bool)
    (st : St) (a : List Val) :
    (∀ e, (eval fuel cfg fr e tail st).1 ≠ .tail a) ∧
    (∀ f args, (callNamed fuel cfg fr f args tail st).1 ≠ .tail a) ∧
    (∀ f args, (builtin fuel cfg fr f args tail st).1 ≠ .tail a) := by
  have H := noTailAt cfg fuel
  refine ⟨?_, ?_, ?_⟩
  · intro e; exact (Res.isTail_false_iff _).mp (H.eval fr e tail st (by simp [htco])) a
  · intro f args; exact (Res.isTail_false_iff _).mp (H.callNamed fr f args tail st (by simp [htco])) a
  · intro f args; exact (Res.isTail_false_iff _).mp (H.builtin fr f args tail st (by simp [htco])) a

end XrayModel.C07
