/-
C07 — Tail-call optimisation is semantically transparent.
Theorems over the core evaluator (XrayModel/Core.lean).
-/
import XrayProofs.CoreTco
namespace XrayModel.C07
open XrayModel.Core

/-- A self-call that is not offered the tail slot is an ordinary call, whatever `tco` says. -/
theorem non_tail_self_call_is_ordinary (fuel : Nat) (cfg : Cfg) (fr : Frame) (f : String) (c : Val)
    (args : List Expr) (st : St) (hs : fr.self = some (f, c)) (hl : lookup f fr.env = none) :
    eval (fuel + 1) cfg fr (.call f args) false st = callVal fuel cfg fr c args false st := by
  simp [eval, hs, hl]

/-- With the tail slot free and tco on, a self-call evaluates its arguments and hands them to the
trampoline; no frame is created and no call is counted at this point. -/
theorem tail_self_call_returns_args (fuel : Nat) (cfg : Cfg) (fr : Frame) (f : String) (c : Val)
    (args : List Expr) (st st' : St) (vs : List Val) (hs : fr.self = some (f, c))
    (hl : lookup f fr.env = none) (ht : cfg.tco = true)
    (ha : evalList fuel cfg fr args st = (.ok vs, st')) :
    eval (fuel + 1) cfg fr (.call f args) true st = (.tail vs, st') := by
  simp [eval, hs, hl, ht, ha]

/-! ## 1. A tail call never escapes -/

/-- An evaluation that was not offered the tail slot never returns a tail call — so every
`eval(…, false)` site of the interpreter may apply `unwrap_value` to the result. -/
theorem tail_never_escapes (fuel : Nat) (cfg : Cfg) (fr : Frame) (e : Expr) (st : St) (args : List Val) :
    (eval fuel cfg fr e false st).1 ≠ .tail args :=
  (Res.isTail_false_iff _).mp ((noTailAt cfg fuel).eval fr e false st (by simp)) args

example : eval 20 {} (sumFrame 3 0) sumBody true {} = (.tail [.int 2, .int 3], {}) ∧
    eval 30 {} (sumFrame 3 0) sumBody false {} = (.val (.int 6), {}) := by
  constructor <;>
  core_run

/-- Calls never return a tail call to their caller: a call by name or a native without the tail
slot, and — whatever the slot — a call of a function value, `eval_func_with_values`, the trampoline
and closure creation. -/
theorem tail_never_escapes_calls (fuel : Nat) (cfg : Cfg) (fr : Frame) (st : St) (a : List Val) :
    (∀ f args, (callNamed fuel cfg fr f args false st).1 ≠ .tail a) ∧
    (∀ f args, (builtin fuel cfg fr f args false st).1 ≠ .tail a) ∧
    (∀ c args tail, (callVal fuel cfg fr c args tail st).1 ≠ .tail a) ∧
    (∀ h c vs, (callUser fuel cfg h c vs st).1 ≠ .tail a) ∧
    (∀ h c vs rec, (tramp fuel cfg h c vs rec st).1 ≠ .tail a) ∧
    (∀ fn, (mkClos fuel cfg fr fn st).1 ≠ .tail a) := by
  have H := noTailAt cfg fuel
  refine ⟨?_, ?_, ?_, ?_, ?_, ?_⟩
  · intro f args; exact (Res.isTail_false_iff _).mp (H.callNamed fr f args false st (by simp)) a
  · intro f args; exact (Res.isTail_false_iff _).mp (H.builtin fr f args false st (by simp)) a
  · intro c args tail; exact (Res.isTail_false_iff _).mp (H.callVal fr c args tail st) a
  · intro h c vs; exact (Res.isTail_false_iff _).mp (H.callUser h c vs st) a
  · intro h c vs rec; exact (Res.isTail_false_iff _).mp (H.tramp h c vs rec st) a
  · intro fn; exact (Res.isTail_false_iff _).mp (H.mkClos fr fn st) a

/-- Argument lists, parameter defaults, the declarations of a body and a whole program never end
with a tail call as their outcome. -/
theorem tail_never_escapes_lists (fuel : Nat) (cfg : Cfg) (fr : Frame) (st : St) (a : List Val) :
    (∀ es, (evalList fuel cfg fr es st).1 ≠ .error (.tail a)) ∧
    (∀ ps, (evalDflts fuel cfg fr ps st).1 ≠ .error (.tail a)) ∧
    (∀ ds, (evalDecls fuel cfg fr ds st).1 ≠ .error (.tail a)) ∧
    (∀ ds, (runProgram fuel cfg ds).1 ≠ .error (.tail a)) := by
  have H := noTailAt cfg fuel
  refine ⟨?_, ?_, ?_, ?_⟩
  · intro es h; have := H.evalList fr es st; rw [h] at this; simp [exNoTail] at this
  · intro ps h; have := H.evalDflts fr ps st; rw [h] at this; simp [exNoTail] at this
  · intro ds h; have := H.evalDecls fr ds st; rw [h] at this; simp [exNoTail] at this
  · intro ds h; have := H.evalDecls { env := [], self := none, height := 0 } ds {}
    rw [runProgram] at h; rw [h] at this; simp [exNoTail] at this

/-- With the optimisation switched off no evaluation whatsoever returns a tail call. -/
theorem no_tail_without_tco (fuel : Nat) (cfg : Cfg) (htco : cfg.tco = false) (fr : Frame) (tail : Bool)
    (st : St) (a : List Val) :
    (∀ e, (eval fuel cfg fr e tail st).1 ≠ .tail a) ∧
    (∀ f args, (callNamed fuel cfg fr f args tail st).1 ≠ .tail a) ∧
    (∀ f args, (builtin fuel cfg fr f args tail st).1 ≠ .tail a) := by
  have H := noTailAt cfg fuel
  refine ⟨?_, ?_, ?_⟩
  · intro e; exact (Res.isTail_false_iff _).mp (H.eval fr e tail st (by simp [htco])) a
  · intro f args; exact (Res.isTail_false_iff _).mp (H.callNamed fr f args tail st (by simp [htco])) a
  · intro f args; exact (Res.isTail_false_iff _).mp (H.builtin fr f args tail st (by simp [htco])) a

/-- `unwrap_value` is never applied to a TailCall: the model turns every such application into the
outcome `stuck "tail escaped"`, and no evaluation whatsoever — any fuel, configuration, frame,
expression, with or without the tail slot; calls, trampoline, lists, declarations, programs —
produces it. -/
theorem tail_escape_unreachable (fuel : Nat) (cfg : Cfg) (fr : Frame) (st : St) :
    (∀ e tail, (eval fuel cfg fr e tail st).1 ≠ .stuck "tail escaped") ∧
    (∀ c args tail, (callVal fuel cfg fr c args tail st).1 ≠ .stuck "tail escaped") ∧
    (∀ h c vs, (callUser fuel cfg h c vs st).1 ≠ .stuck "tail escaped") ∧
    (∀ h c vs rec, (tramp fuel cfg h c vs rec st).1 ≠ .stuck "tail escaped") ∧
    (∀ es, (evalList fuel cfg fr es st).1 ≠ .error (.stuck "tail escaped")) ∧
    (∀ ds, (evalDecls fuel cfg fr ds st).1 ≠ .error (.stuck "tail escaped")) ∧
    (∀ ds, (runProgram fuel cfg ds).1 ≠ .error (.stuck "tail escaped")) := by
  have H := noEscAt cfg fuel
  have key : ∀ r : Res, r.isEsc = false → r ≠ .stuck "tail escaped" := by
    intro r h he; subst he; simp at h
  refine ⟨?_, ?_, ?_, ?_, ?_, ?_, ?_⟩
  · intro e tail; exact key _ (H.eval fr e tail st)
  · intro c args tail; exact key _ (H.callVal fr c args tail st)
  · intro h c vs; exact key _ (H.callUser h c vs st)
  · intro h c vs rec; exact key _ (H.tramp h c vs rec st)
  · intro es h; have := H.evalList fr es st; rw [h] at this; simp [exNoEsc] at this
  · intro ds h; have := H.evalDecls fr ds st; rw [h] at this; simp [exNoEsc] at this
  · intro ds h; have := H.evalDecls { env := [], self := none, height := 0 } ds {}
    rw [runProgram] at h; rw [h] at this; simp [exNoEsc] at this

/-! ## 2. Only a self-call by name in tail position takes the tail path -/

/-- A tail call can only come out of an evaluation that was offered the tail slot, with tco on, in
a frame that has a recursion cell `name` which no local binding shadows, and from an expression that
is syntactically a call by name of `name` in tail position (`TailPos`: the call itself, or the
then/else argument of `if`, the second argument of `and`, `or`, `if_error`, nested). -/
theorem tail_only_self_call (fuel : Nat) (cfg : Cfg) (fr : Frame) (e : Expr) (tail : Bool) (st st' : St)
    (a : List Val) (h : eval fuel cfg fr e tail st = (.tail a, st')) :
    tail = true ∧ cfg.tco = true ∧
      ∃ name c, fr.self = some (name, c) ∧ lookup name fr.env = none ∧ TailPos name e :=
  (tailOriginAt cfg fuel).eval fr e tail st a st' h

example : TailPos "f" sumBody := .ifElse _ _ _ (.call _)

/-- A self-call that is not in tail position is never treated as a tail call, whatever the slot:
(1) a call of anything that is neither the recursion cell nor a forwarding native — so a self-call
under an operator (`add(f(n-1), 1)`), in argument position (`g(f(n-1))`), through an alias
(`let g = f; g(n-1)`) or inside a lambda body run by another frame (whose cell is not `f`);
(2) a computed callee (a captured copy), tuples, arrays, items, variables, lambdas;
(3) the condition of `if` and the first argument of `and`/`or`/`if_error` (the other arguments
not being tail positions themselves);
(4) anything at all in a frame without recursion cell (top level, anonymous lambda) or whose cell
is shadowed. -/
theorem non_tail_not_optimised (fuel : Nat) (cfg : Cfg) (fr : Frame) (tail : Bool) (st : St) (a : List Val) :
    (∀ op args, op ∉ ["if", "and", "or", "if_error"] → (∀ c, fr.self ≠ some (op, c)) →
        (eval fuel cfg fr (.call op args) tail st).1 ≠ .tail a) ∧
    (∀ fe args es e i x fn, (eval fuel cfg fr (.callE fe args) tail st).1 ≠ .tail a ∧
        (eval fuel cfg fr (.tup es) tail st).1 ≠ .tail a ∧ (eval fuel cfg fr (.arr es) tail st).1 ≠ .tail a ∧
        (eval fuel cfg fr (.item e i) tail st).1 ≠ .tail a ∧ (eval fuel cfg fr (.var x) tail st).1 ≠ .tail a ∧
        (eval fuel cfg fr (.lam fn) tail st).1 ≠ .tail a) ∧
    (∀ c x y, (∀ name, ¬ TailPos name x ∧ ¬ TailPos name y) → (∀ v, fr.self ≠ some ("if", v)) →
        (eval fuel cfg fr (.call "if" [c, x, y]) tail st).1 ≠ .tail a) ∧
    (∀ op x y, op ∈ ["and", "or", "if_error"] → (∀ name, ¬ TailPos name y) → (∀ v, fr.self ≠ some (op, v)) →
        (eval fuel cfg fr (.call op [x, y]) tail st).1 ≠ .tail a) ∧
    ((fr.self = none ∨ ∃ name c v, fr.self = some (name, c) ∧ lookup name fr.env = some v) →
        ∀ e, (eval fuel cfg fr e tail st).1 ≠ .tail a) := by
  have key : ∀ e, (eval fuel cfg fr e tail st).1 = .tail a →
      ∃ name c, fr.self = some (name, c) ∧ lookup name fr.env = none ∧ TailPos name e := by
    intro e h
    have := tail_only_self_call fuel cfg fr e tail st (eval fuel cfg fr e tail st).2 a (by rw [← h])
    exact this.2.2
  refine ⟨?_, ?_, ?_, ?_, ?_⟩
  · intro op args hop hself h
    obtain ⟨name, c, hs, _, hp⟩ := key _ h
    rcases hp.inv with rfl | ⟨_, _, _, rfl, _⟩ | ⟨_, _, rfl | rfl | rfl, _⟩
    · exact hself c hs
    all_goals simp at hop
  · intro fe args es e i x fn
    refine ⟨?_, ?_, ?_, ?_, ?_, ?_⟩ <;> intro h <;> obtain ⟨_, _, _, _, hp⟩ := key _ h <;> cases hp
  · intro c x y hxy hself h
    obtain ⟨name, v, hs, _, hp⟩ := key _ h
    rcases hp.inv with rfl | ⟨_, _, _, _, hargs, hp⟩ | ⟨_, _, h1 | h1 | h1, _⟩
    · exact hself v hs
    · simp only [List.cons.injEq, and_true] at hargs
      obtain ⟨_, rfl, rfl⟩ := hargs
      rcases hp with hp | hp
      · exact (hxy name).1 hp
      · exact (hxy name).2 hp
    all_goals simp at h1
  · intro op x y hop hy hself h
    obtain ⟨name, v, hs, _, hp⟩ := key _ h
    rcases hp.inv with rfl | ⟨_, _, _, rfl, _⟩ | ⟨_, _, _, hargs, hp⟩
    · exact hself v hs
    · simp at hop
    · simp only [List.cons.injEq, and_true] at hargs
      obtain ⟨_, rfl⟩ := hargs
      exact hy name hp
  · intro hfr e h
    obtain ⟨name, c, hs, hl, _⟩ := key _ h
    rcases hfr with hn | ⟨name', c', v, hs', hl'⟩
    · rw [hn] at hs; cases hs
    · rw [hs'] at hs; cases hs; rw [hl] at hl'; cases hl'

/-- `fn f(n) { if(n == 0, 0, add(f(n - 1), 1)) }`: the self-call sits under an operator; offered the
tail slot, the body runs the inner call as an ordinary call and returns a value. -/
example :
    let body : Expr := .call "if" [.call "eq" [.var "n", .int 0], .int 0,
      .call "add" [.call "f" [.call "sub" [.var "n", .int 1]], .int 1]]
    let c : Val := .clos (.mk (some "f") [.mk "n" none] [] body) [] []
    eval 40 {} { env := [("n", .int 2)], self := some ("f", c), height := 1 } body true {} = (.val (.int 2), {}) := by
  core_run

/-! ## 4. A tail loop uses no depth and no calls; only the recursion counter grows -/

/-- One iteration of the trampoline. If the body of the running closure (frame built by
`callFrame` at height `h + 1`, declarations evaluated) ends with a tail call, the loop goes on
with the new arguments **at the same height `h`**, **from exactly the state `st2` the body left**
(the loop adds nothing to `calls` and writes nothing) and with the recursion counter `rec + 1`,
provided `rec + 1` does not exceed the recursion limit; and it is the recursion violation exactly
in the other case (`rec + 1 > l`). Neither the depth limit nor the call limit is consulted. -/
theorem tail_loop_uses_no_depth_no_calls (fuel : Nat) (cfg : Cfg) (h : Nat) (f : Func) (dflts : List Val)
    (env ps : List (String × Val)) (args newArgs : List Val) (rec : Nat) (st st1 st2 : St) (fr' : Frame)
    (hd : depthOk cfg h)
    (hb : bindParams f.params args dflts = some ps)
    (hdecl : evalDecls fuel cfg (callFrame h f dflts env ps) f.decls st = (.ok fr', st1))
    (hbody : eval fuel cfg fr' f.body true st1 = (.tail newArgs, st2)) :
    (recOk cfg (rec + 1) →
      tramp (fuel + 1) cfg h (.clos f dflts env) args rec st
        = tramp fuel cfg h (.clos f dflts env) newArgs (rec + 1) st2) ∧
    (∀ l, cfg.recLimit = some l → rec + 1 > l →
      tramp (fuel + 1) cfg h (.clos f dflts env) args rec st = (.viol .recursion, st2)) :=
  tramp_body_tail fuel cfg h f dflts env ps args newArgs rec st st1 st2 fr' hd hb hdecl hbody

/-- the hypotheses are satisfiable: one turn of `f(3, 0)` under depth limit 2 and call limit 1 -/
example : let cfg : Cfg := { depthLimit := some 2, callLimit := some 1, recLimit := some 5 }
    depthOk cfg 0 ∧ recOk cfg (0 + 1) ∧
    bindParams sumFn.params [.int 3, .int 0] [] = some [("n", .int 3), ("acc", .int 0)] ∧
    evalDecls 20 cfg (callFrame 0 sumFn [] [] [("n", .int 3), ("acc", .int 0)]) sumFn.decls {} = (.ok (sumFrame 3 0), {}) ∧
    eval 20 cfg (sumFrame 3 0) sumFn.body true {} = (.tail [.int 2, .int 3], {}) := by
  refine ⟨?_, ?_, ?_, ?_, ?_⟩
  · intro l hl; cases hl; decide
  · intro l hl; cases hl; decide
  · core_run
  · simp [evalDecls, sumFn, Func.decls, callFrame, selfCell, sumFrame, sumClos, Func.name]
  · core_run

/-- **Every iteration count.** The accumulator-style function
`fn f(n, acc) { if(n == 0, acc, f(n - 1, acc + n)) }`, called as `f(n, acc)` from height `h`, for
*every* `n`: under any depth limit that admits the one frame (`h + 1 < depth limit`) and any call
limit that admits the one call, the optimised run returns `acc + (0 + 1 + … + n)`, leaves the state
as it was but for that one counted call, provided `n ≤` recursion limit (or none is set) — and it is
the recursion violation exactly when `n` exceeds the recursion limit. The loop is bounded by the
recursion limit only. -/
theorem tail_loop_bounded_by_recursion_limit_only (cfg : Cfg) (htco : cfg.tco = true) (h : Nat)
    (hd : depthOk cfg h) (n : Nat) (acc : Int) (st : St) (k : Nat)
    (hc : ∀ l, cfg.callLimit = some l → st.calls + 1 < l) :
    let st1 : St := if cfg.callLimit.isSome then { st with calls := st.calls + 1 } else st
    (recOk cfg n →
      callUser (k + 16 + n) cfg h sumClos [.int n, .int acc] st = (.val (.int (acc + tri n)), st1)) ∧
    (∀ l, cfg.recLimit = some l → n > l →
      callUser (k + 16 + n) cfg h sumClos [.int n, .int acc] st = (.viol .recursion, st1)) ∧
    2 * tri n = n * (n + 1) :=
  ⟨(sum_call cfg htco h hd n acc st k hc).1, (sum_call cfg htco h hd n acc st k hc).2, two_tri n⟩

/-- 10⁵ iterations under depth limit 2, call limit 2 and recursion limit 10⁵ succeed; one more
iteration is the recursion violation; the reference run (tco off) of three iterations already
exceeds depth limit 3. -/
example :
    let cfg : Cfg := { depthLimit := some 2, callLimit := some 2, recLimit := some 100000 }
    callUser (16 + 100000) cfg 0 sumClos [.int (100000 : Nat), .int 0] {} = (.val (.int (0 + tri 100000)), { calls := 1 }) ∧
    callUser (16 + 100001) cfg 0 sumClos [.int (100001 : Nat), .int 0] {} = (.viol .recursion, { calls := 1 }) ∧
    (callUser 40 { depthLimit := some 3, tco := false } 0 sumClos [.int 3, .int 0] {}).1 = .viol .depth := by
  intro cfg
  have hd : depthOk cfg 0 := by intro l hl; cases hl; decide
  have hc : ∀ l, cfg.callLimit = some l → ({} : St).calls + 1 < l := by intro l hl; cases hl; decide
  refine ⟨?_, ?_, ?_⟩
  · have := (tail_loop_bounded_by_recursion_limit_only cfg rfl 0 hd 100000 0 {} 0 hc).1
      (by intro l hl; cases hl; decide)
    simpa [cfg] using this
  · have := (tail_loop_bounded_by_recursion_limit_only cfg rfl 0 hd 100001 0 {} 0 hc).2.1 100000 rfl (by decide)
    simpa [cfg] using this
  · core_run

/-- The call counter is touched once per user call, before the trampoline starts — never by the
loop: with a call limit, `callUser` adds one to `calls`, compares, and enters the loop with
recursion counter 0. -/
theorem call_counted_once_before_loop (fuel : Nat) (cfg : Cfg) (h : Nat) (c : Val) (args : List Val) (st : St)
    (l : Nat) (he : firstErr args = none) (hl : cfg.callLimit = some l) :
    callUser (fuel + 1) cfg h c args st =
      if st.calls + 1 ≥ l then (.viol .calls, { st with calls := st.calls + 1 })
      else tramp fuel cfg h c args 0 { st with calls := st.calls + 1 } := by
  simp [callUser, he, hl]

/-! ## 3. The optimisation is semantically transparent

`cT` / `cF`: no limits configured (`depthLimit = callLimit = recLimit = none`), tco on / off.
`FrameOk fr`: the recursion cell of the frame, if any, holds a closure (what `from_template` puts
there; true of every frame the interpreter builds). -/

/-- More fuel never changes an answer: whatever `n` units of fuel answer (anything but "out of
fuel"), `m ≥ n` units answer too — for expressions, calls, the trampoline and whole programs. -/
theorem fuel_monotone (cfg : Cfg) (n m : Nat) (hle : n ≤ m) :
    (∀ fr e tail st, (eval n cfg fr e tail st).1 ≠ .oof → eval m cfg fr e tail st = eval n cfg fr e tail st) ∧
    (∀ h c args st, (callUser n cfg h c args st).1 ≠ .oof → callUser m cfg h c args st = callUser n cfg h c args st) ∧
    (∀ h c args rec st, (tramp n cfg h c args rec st).1 ≠ .oof →
        tramp m cfg h c args rec st = tramp n cfg h c args rec st) ∧
    (∀ ds, (runProgram n cfg ds).1 ≠ .error .oof → runProgram m cfg ds = runProgram n cfg ds) := by
  have H := fuelLe (cfg := cfg) hle
  have oof : ∀ r : Res, r ≠ .oof → r.isOof = false := by intro r; cases r <;> simp
  refine ⟨?_, ?_, ?_, ?_⟩
  · intro fr e tail st h; exact H.eval _ _ _ _ (oof _ h)
  · intro h c args st hh; exact H.callUser _ _ _ _ (oof _ hh)
  · intro h c args rec st hh; exact H.tramp _ _ _ _ _ (oof _ hh)
  · intro ds h
    refine H.evalDecls _ _ _ ?_
    revert h; unfold runProgram
    rcases evalDecls n cfg { env := [], self := none, height := 0 } ds {} with ⟨x, s⟩
    cases x with
    | ok _ => simp
    | error r => cases r <;> simp

/-- Reference ⟶ optimised, with the very same fuel. Whatever the reference semantics (tco off: a
self-call is an ordinary call) answers — a value, an error value, a stuck state; the output and
counters in `st'` — the optimised semantics answers too:
for an expression that is not offered the tail slot, for a call of a function value, for
`eval_func_with_values`, for the trampoline (whatever the heights and the recursion counters the two
runs start from) and for a whole program. -/
theorem tco_transparent_off_to_on (n : Nat) :
    (∀ fr e st r st', FrameOk fr → eval n cF fr e false st = (r, st') → r ≠ .oof →
        eval n cT fr e false st = (r, st')) ∧
    (∀ fr c args tail st r st', FrameOk fr → callVal n cF fr c args tail st = (r, st') → r ≠ .oof →
        callVal n cT fr c args tail st = (r, st')) ∧
    (∀ h h2 c args st r st', callUser n cF h c args st = (r, st') → r ≠ .oof →
        callUser n cT h2 c args st = (r, st')) ∧
    (∀ h h2 c args rec rec2 st r st', tramp n cF h c args rec st = (r, st') → r ≠ .oof →
        tramp n cT h2 c args rec2 st = (r, st')) ∧
    (∀ ds fr st', runProgram n cF ds = (.ok fr, st') → runProgram n cT ds = (.ok fr, st')) ∧
    (∀ ds r st', runProgram n cF ds = (.error r, st') → r ≠ .oof → runProgram n cT ds = (.error r, st')) := by
  have H := simAt n
  have oof : ∀ r : Res, r ≠ .oof → r.isOof = false := by intro r; cases r <;> simp
  have ok0 : FrameOk { env := [], self := none, height := 0 } := by intro _ _ h; cases h
  refine ⟨?_, ?_, ?_, ?_, ?_, ?_⟩
  · intro fr e st r st' hf h hr
    have := H.evalF fr fr.height e st hf (by rw [h]; exact oof r hr)
    rw [← h]; exact this
  · intro fr c args tail st r st' hf h hr
    have := H.callVal fr fr.height c args tail st hf (by rw [h]; exact oof r hr)
    rw [← h]; exact this
  · intro h h2 c args st r st' hh hr
    rw [← hh]; exact H.callUser h h2 c args st (by rw [hh]; exact oof r hr)
  · intro h h2 c args rec rec2 st r st' hh hr
    rw [← hh]; exact H.tramp h h2 c args rec rec2 st (by rw [hh]; exact oof r hr)
  · intro ds fr st' h
    unfold runProgram at h ⊢
    have := H.evalDecls _ 0 ds {} ok0 (by rw [h]; rfl)
    rw [h] at this
    have hh := (evalDecls_frame _ _ _ _ _ _ _ h).2
    rw [show ({ env := [], self := none, height := 0 } : Frame).atHeight 0 = { env := [], self := none, height := 0 } from rfl] at this
    rw [this, setH_ok]
    simp only at hh
    rw [← hh]; rfl
  · intro ds r st' h hr
    unfold runProgram at h ⊢
    have := H.evalDecls _ 0 ds {} ok0 (by rw [h]; exact oof r hr)
    rw [h] at this
    exact this

/-- The same with the tail slot offered (the invariant the trampoline maintains): the optimised
run either gives the reference answer itself, or it hands back a tail call `.tail args` at a state
`st1` — and then the reference answer is what the reference trampoline, started on `args` at `st1`
for the function in the frame's recursion cell, returns (with less fuel). -/
theorem tco_tail_call_is_the_call (n : Nat) (fr : Frame) (e : Expr) (st : St) (r : Res) (st' : St)
    (hf : FrameOk fr) (h : eval n cF fr e true st = (r, st')) (hr : r ≠ .oof) :
    eval n cT fr e true st = (r, st') ∨
    ∃ name c args st1 k, fr.self = some (name, c) ∧ eval n cT fr e true st = (.tail args, st1) ∧
      k < n ∧ tramp k cF fr.height c args 0 st1 = (r, st') := by
  have oof : r.isOof = false := by cases r <;> simp at hr ⊢
  rcases (simAt n).eval fr fr.height e true st hf (by rw [h]; exact oof) with he | ⟨_, name, c, args, st1, hs, hT, k, hk, hF⟩
  · left; rw [← h]; exact he
  · right; exact ⟨name, c, args, st1, k, hs, hT, hk, by rw [hF, h]⟩

/-- Optimised ⟶ reference, with an explicit fuel bound. Whatever the optimised semantics answers
with fuel `m` (a value, an error value, a stuck state — anything but "out of fuel"; same output and
counters), the reference semantics answers with any fuel `N ≥ phi m = m (m + 7) / 2`: a tail
iteration costs the optimised run one unit of fuel, the reference run needs the whole nesting. -/
theorem tco_transparent_on_to_off (m N : Nat) (hN : phi m ≤ N) :
    (∀ fr e st r st', FrameOk fr → eval m cT fr e false st = (r, st') → r ≠ .oof →
        eval N cF fr e false st = (r, st')) ∧
    (∀ fr c args tail st r st', FrameOk fr → callVal m cT fr c args tail st = (r, st') → r ≠ .oof →
        callVal N cF fr c args tail st = (r, st')) ∧
    (∀ h h2 c args st r st', callUser m cT h c args st = (r, st') → r ≠ .oof →
        callUser N cF h2 c args st = (r, st')) ∧
    (∀ h h2 c args rec rec2 st r st', tramp m cT h c args rec st = (r, st') → r ≠ .oof →
        tramp N cF h2 c args rec2 st = (r, st')) ∧
    (∀ ds fr st', runProgram m cT ds = (.ok fr, st') → runProgram N cF ds = (.ok fr, st')) ∧
    (∀ ds r st', runProgram m cT ds = (.error r, st') → r ≠ .oof → runProgram N cF ds = (.error r, st')) := by
  have H := simB m
  obtain ⟨j, rfl⟩ : ∃ j, N = phi m + j := ⟨N - phi m, by omega⟩
  have oof : ∀ r : Res, r ≠ .oof → r.isOof = false := by intro r; cases r <;> simp
  have ok0 : FrameOk { env := [], self := none, height := 0 } := by intro _ _ h; cases h
  refine ⟨?_, ?_, ?_, ?_, ?_, ?_⟩
  · intro fr e st r st' hf h hr
    have := H.evalF fr fr.height e st j hf (by rw [h]; exact oof r hr)
    rw [← h]; exact this
  · intro fr c args tail st r st' hf h hr
    have := H.callVal fr fr.height c args tail st j hf (by rw [h]; exact oof r hr)
    rw [← h]; exact this
  · intro h h2 c args st r st' hh hr
    rw [← hh]; exact H.callUser h2 h c args st j (by rw [hh]; exact oof r hr)
  · intro h h2 c args rec rec2 st r st' hh hr
    rw [← hh]; exact H.tramp h2 h c args rec2 rec st j (by rw [hh]; exact oof r hr)
  · intro ds fr st' h
    unfold runProgram at h ⊢
    have := H.evalDecls _ 0 ds {} j ok0 (by rw [h]; rfl)
    rw [h] at this
    have hh := (evalDecls_frame _ _ _ _ _ _ _ h).2
    rw [show ({ env := [], self := none, height := 0 } : Frame).atHeight 0 = { env := [], self := none, height := 0 } from rfl] at this
    rw [this, setH_ok]
    simp only at hh
    rw [← hh]; rfl
  · intro ds r st' h hr
    unfold runProgram at h ⊢
    have := H.evalDecls _ 0 ds {} j ok0 (by rw [h]; exact oof r hr)
    rw [h] at this
    exact this

/-- **Transparency.** With no limits configured, the optimised and the reference semantics
terminate on the same inputs with the same outcome — value or error value, stuck state, written
output and counters: for an expression evaluated without the tail slot in a frame whose recursion
cell holds a closure, for `eval_func_with_values` (any heights), and for whole programs. -/
theorem tco_transparent :
    (∀ fr e st r st', FrameOk fr → r ≠ .oof →
      ((∃ n, eval n cT fr e false st = (r, st')) ↔ (∃ n, eval n cF fr e false st = (r, st')))) ∧
    (∀ h h2 c args st r st', r ≠ .oof →
      ((∃ n, callUser n cT h c args st = (r, st')) ↔ (∃ n, callUser n cF h2 c args st = (r, st')))) ∧
    (∀ ds fr st', (∃ n, runProgram n cT ds = (.ok fr, st')) ↔ (∃ n, runProgram n cF ds = (.ok fr, st'))) ∧
    (∀ ds r st', r ≠ .oof →
      ((∃ n, runProgram n cT ds = (.error r, st')) ↔ (∃ n, runProgram n cF ds = (.error r, st')))) := by
  refine ⟨?_, ?_, ?_, ?_⟩
  · intro fr e st r st' hf hr
    exact ⟨fun ⟨n, h⟩ => ⟨phi n, (tco_transparent_on_to_off n (phi n) (Nat.le_refl _)).1 fr e st r st' hf h hr⟩,
      fun ⟨n, h⟩ => ⟨n, (tco_transparent_off_to_on n).1 fr e st r st' hf h hr⟩⟩
  · intro h h2 c args st r st' hr
    exact ⟨fun ⟨n, hh⟩ => ⟨phi n, (tco_transparent_on_to_off n (phi n) (Nat.le_refl _)).2.2.1 h h2 c args st r st' hh hr⟩,
      fun ⟨n, hh⟩ => ⟨n, (tco_transparent_off_to_on n).2.2.1 h2 h c args st r st' hh hr⟩⟩
  · intro ds fr st'
    exact ⟨fun ⟨n, h⟩ => ⟨phi n, (tco_transparent_on_to_off n (phi n) (Nat.le_refl _)).2.2.2.2.1 ds fr st' h⟩,
      fun ⟨n, h⟩ => ⟨n, (tco_transparent_off_to_on n).2.2.2.2.1 ds fr st' h⟩⟩
  · intro ds r st' hr
    exact ⟨fun ⟨n, h⟩ => ⟨phi n, (tco_transparent_on_to_off n (phi n) (Nat.le_refl _)).2.2.2.2.2 ds r st' h hr⟩,
      fun ⟨n, h⟩ => ⟨n, (tco_transparent_off_to_on n).2.2.2.2.2 ds r st' h hr⟩⟩

/-- `f(3, 0)` for the accumulator-style sum: both semantics give 6 -/
example : callUser 40 cF 0 sumClos [.int 3, .int 0] {} = (.val (.int 6), {}) ∧
    callUser 40 cT 0 sumClos [.int 3, .int 0] {} = (.val (.int 6), {}) := by
  constructor <;> core_run

end XrayModel.C07
