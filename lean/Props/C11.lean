/-
C11 — Side effects happen only with permission.
Property theorems only.  `Generated.Permissions` is regenerated from /repo/src on every run, so the two `decide`
theorems are re-checked against what the code says now; the others hold for *every* site table that passes
`sitesGuarded`, every permission set, every program of the model and every amount of fuel.
-/
import XrayProofs.Perm
import Generated.Permissions
namespace XrayModel.C11
open XrayModel.Perm Generated.Permissions

/-- the six permissions with the documented defaults: regex and sleep off, the others on
    (book/src/interop/permissions.md), read off the constants of `builtin_permissions.rs` -/
theorem defaults_documented :
    permissions.map (fun cp => (cp.1, cp.2.id, cp.2.default)) =
      [("NOW", "now", true), ("PRINT", "print", true), ("PRINT_DEBUG", "print_debug", true),
       ("RANDOM", "random", true), ("REGEX", "regex", false), ("SLEEP", "sleep", false)] := by
  decide

/-- a permission that was never configured answers with its own default -/
theorem get_unconfigured (p : Permission) : PermissionSet.get [] p = p.default := rfl

/-- `allow` / `forbid` decide the permission they name … -/
theorem get_allow_forbid (P : PermissionSet) (p : Permission) :
    (P.allow p).get p = true ∧ (P.forbid p).get p = false := by
  simp [PermissionSet.allow, PermissionSet.forbid, PermissionSet.get]

/-- … and no other one (all 64 assignments of the six permissions are independent) -/
theorem get_other (P : PermissionSet) (p q : Permission) (h : q.id ≠ p.id) :
    (P.allow p).get q = P.get q ∧ (P.forbid p).get q = P.get q := by
  have : (q.id == p.id) = false := by simpa using h
  simp [PermissionSet.allow, PermissionSet.forbid, PermissionSet.get, List.lookup, this]

/-- every effect token found in the crate sits in a closure that first asks for a permission covering it
    (and, for the documented builtins, for exactly the documented one).  Fails to elaborate as soon as the
    translator finds an effect without such a guard. -/
theorem sites_guarded : sitesGuarded sites = true := by decide

/-- an effect of channel `k` at site `s` occurs in the trace only if a guard of that very site, for a permission
    that covers `k`, was passed — whatever the path to the site (wrappers, closures, callbacks, lazy elements,
    defaults are all `Expr` constructors) -/
theorem effect_needs_permission (T : List Site) (hT : sitesGuarded T = true) (P : PermissionSet)
    (fuel : Nat) (e : Expr) (l : Log) (s : Nat) (k : Kind)
    (h : Entry.effect s k ∈ (eval T P fuel e l).2) (hnew : Entry.effect s k ∉ l) :
    ∃ site p, T[s]? = some site ∧ p ∈ checksOf site.steps ∧ okPerm site.name p k = true ∧ P.get p = true := by
  obtain ⟨n, hn, heff, _, _⟩ := eval_inv hT P fuel e l
  rw [hn] at h
  rcases List.mem_append.mp h with h | h
  · exact absurd h hnew
  · exact heff s k h

/-- reaching the guard of a denied permission ends the evaluation in the violation naming that permission, and the
    failed guard is the last thing that happens (no effect, no further guard) -/
theorem denied_is_violation (T : List Site) (hT : sitesGuarded T = true) (P : PermissionSet)
    (fuel : Nat) (e : Expr) (s : Nat) (p : Permission) (b : Bool)
    (hden : P.get p = false) (hreach : Entry.guard s p b ∈ (eval T P fuel e []).2) :
    (eval T P fuel e []).1 = .viol p.id ∧
    (eval T P fuel e []).2.getLast? = some (Entry.guard s p false) := by
  obtain ⟨n, hn, _, htr, hsh⟩ := eval_inv hT P fuel e []
  rw [hn] at hreach ⊢
  simp only [List.nil_append] at hreach ⊢
  have hb : b = false := by rw [htr s p b hreach, hden]
  subst hb
  rcases hsh with ⟨hc, _⟩ | ⟨pre, s', p', hpre, hcp, hr⟩
  · exact absurd (hc _ hreach) (by simp [isFail])
  · subst hpre
    rcases List.mem_append.mp hreach with h | h
    · exact absurd (hcp _ h) (by simp [isFail])
    · simp only [List.mem_singleton, Entry.guard.injEq] at h
      obtain ⟨rfl, rfl, _⟩ := h
      exact ⟨hr, by simp⟩

/-- with every permission that covers channel `k` switched off, the channel's double is never touched -/
theorem denied_is_silent (T : List Site) (hT : sitesGuarded T = true) (P : PermissionSet)
    (fuel : Nat) (e : Expr) (k : Kind)
    (hden : ∀ p : Permission, admits p.id k = true → P.get p = false) :
    countKind k (eval T P fuel e []).2 = 0 := by
  unfold countKind
  rw [List.length_eq_zero_iff, List.filter_eq_nil_iff]
  intro x hx
  cases x with
  | guard s p b => simp
  | effect s k' =>
    by_cases hk : k' = k
    · subst hk
      obtain ⟨site, p, _, _, hok, hget⟩ := effect_needs_permission T hT P fuel e [] s k' hx (by simp)
      have hadm : admits p.id k' = true := by
        unfold okPerm at hok
        exact (Bool.and_eq_true _ _ ▸ hok).1
      rw [hden p hadm] at hget
      cases hget
    · simpa using hk

/-- a violation is never produced by anything but a failed guard -/
theorem violation_only_from_guard (T : List Site) (hT : sitesGuarded T = true) (P : PermissionSet)
    (fuel : Nat) (e : Expr) (id : String) (h : (eval T P fuel e []).1 = .viol id) :
    ∃ s p, p.id = id ∧ P.get p = false ∧ (eval T P fuel e []).2.getLast? = some (Entry.guard s p false) := by
  obtain ⟨n, hn, _, htr, hsh⟩ := eval_inv hT P fuel e []
  rcases hsh with ⟨_, hv⟩ | ⟨pre, s, p, hpre, _, hr⟩
  · rw [h] at hv; simp [Res.isViol] at hv
  · rw [h] at hr
    injection hr with hid
    refine ⟨s, p, hid.symm, ?_, ?_⟩
    · exact (htr s p false (by rw [hpre]; simp)).symm
    · rw [hn, hpre]; simp

/-- the fuel is only a device: with at least `e.depth` units the evaluator finishes on every program whose site indices
    are rows of the table (so the statements above, which hold for every amount of fuel, are statements about the
    finished run) -/
theorem fuel_suffices (T : List Site) (P : PermissionSet) (e : Expr) (l : Log) (hs : e.sitesIn T.length = true)
    (fuel : Nat) (hf : e.depth ≤ fuel) : (eval T P fuel e l).1 ≠ .stuck :=
  eval_fin T P fuel e l hf hs

/-- the statement for the table extracted from the current sources -/
theorem xray_effect_needs_permission (P : PermissionSet) (fuel : Nat) (e : Expr) (s : Nat) (k : Kind)
    (h : Entry.effect s k ∈ (eval sites P fuel e []).2) :
    ∃ site p, sites[s]? = some site ∧ p ∈ checksOf site.steps ∧ okPerm site.name p k = true ∧ P.get p = true :=
  effect_needs_permission sites sites_guarded P fuel e [] s k h (by simp)

/- the hypotheses are satisfiable and the conclusions not vacuous: `display` under a forbidden PRINT, reached
   through a wrapper inside a callback, is a violation naming "print" with an empty effect trace … -/
example :
    let d := sites.findIdx (fun s => s.name == "display")
    eval sites (PermissionSet.forbid [] PRINT) 10 (.thunk (.wrap [.lit] (.nat d [.lit])) 3) [] =
      (.viol "print", [Entry.guard d PRINT false]) := by decide

/- … and with the default permissions the same program writes (three calls; how many writer tokens a call has is
   a matter of how the source spells the write — two `stdout` uses, or one call of a helper — so only "it writes,
   and each of the three calls writes equally often" is stated) -/
example :
    let d := sites.findIdx (fun s => s.name == "display")
    let n := countKind .writer (eval sites [] 10 (.thunk (.wrap [.lit] (.nat d [.lit])) 3) []).2
    0 < n ∧ n % 3 = 0 := by decide

end XrayModel.C11
