/-
C13 — Floats are always finite.
Lean's `Float` is opaque to the kernel; the theorems are about the *discipline*: every construction of a float value
goes through a site of the table regenerated from /repo/src on every run (`Generated.FloatSites`), and every site is
either the checked constructor or closed under finiteness.  `FloatDom.Laws` (negation keeps finiteness, serde_json
numbers are finite) are parameters — they are listed in the trusted base and sampled by the tie.
-/
import XrayProofs.FloatSites
import Generated.FloatSites
namespace XrayModel.C13
open XrayModel.FloatSites Generated.FloatSites

/-- no expression of the crate builds an `XValue::Float` outside the checked constructor or a closed form, and
    float literals go through the checked constructor.  Stops elaborating as soon as the translator finds another one. -/
theorem sites_ok : sitesOk sites = true := by decide

/-- the checked constructor: a value only for finite floats, otherwise an error value -/
theorem mk_spec (D : FloatDom) (x : D.F) :
    (D.isFin x = true → mk D x = .flt x) ∧ (D.isFin x = false → mk D x = .err) := by
  unfold mk
  constructor <;> intro h <;> simp [h]

/-- every float in every value the evaluator produces is finite: for every float domain satisfying the two closure
    laws, every table without an unguarded site and every program of the model — whatever raw floats (infinite, NaN)
    native code computes on the way -/
theorem floats_finite (D : FloatDom) (hD : D.Laws) (T : List FSite) (hT : sitesOk T = true) :
    ∀ e : FExpr D, AllFin D (eval D T e) := by
  intro e
  induction e with
  | ext s x => exact construct_allFin D hT s none x (by simp)
  | json s n => exact construct_allFin D hT s _ _ (fun _ => hD.json_fin n)
  | un s op a ih =>
    unfold eval
    cases ha : eval D T a with
    | flt x =>
      rw [ha] at ih
      have hx : D.isFin x = true := ih
      simp only
      cases hy : apply1 op x with
      | none => simp [AllFin]
      | some y =>
        simp only
        refine construct_allFin D hT s (hypOf op) y ?_
        intro hne
        cases op with
        | fn1 g => simp [hypOf] at hne
        | fn2 g => simp [hypOf] at hne
        | neg => simp only [apply1, Option.some.injEq] at hy; rw [← hy]; exact hD.neg_fin x hx
        | ident => simp only [apply1, Option.some.injEq] at hy; rw [← hy]; exact hx
    | err => simp [AllFin]
    | other => simp [AllFin]
    | pair p q => simp [AllFin]
    | stuck => simp [AllFin]
  | bin s op a b iha ihb =>
    unfold eval
    cases ha : eval D T a <;> cases hb : eval D T b <;> simp only [AllFin] <;>
      first
        | trivial
        | (rename_i x y
           cases hz : apply2 op x y with
           | none => simp [AllFin]
           | some z => exact construct_allFin D hT s none z (by simp))
  | pair a b iha ihb => exact ⟨iha, ihb⟩
  | fst a ih =>
    unfold eval
    cases ha : eval D T a with
    | pair x y => rw [ha] at ih; exact ih.1
    | flt x => simp [AllFin]
    | err => simp [AllFin]
    | other => simp [AllFin]
    | stuck => simp [AllFin]
  | snd a ih =>
    unfold eval
    cases ha : eval D T a with
    | pair x y => rw [ha] at ih; exact ih.2
    | flt x => simp [AllFin]
    | err => simp [AllFin]
    | other => simp [AllFin]
    | stuck => simp [AllFin]
  | nonfloat => simp [eval, AllFin]

/-- the statement for the table extracted from the current sources -/
theorem xray_floats_finite (D : FloatDom) (hD : D.Laws) (e : FExpr D) : AllFin D (eval D sites e) :=
  floats_finite D hD sites sites_ok e

/-- the hypothesis on the table is needed: one unguarded site is enough to let a non-finite float become a value -/
theorem unguarded_site_leaks (D : FloatDom) (T : List FSite) (s : Nat) (site : FSite)
    (hs : T[s]? = some site) (htag : site.tag = .unguarded) (x : D.F) (hx : D.isFin x = false) :
    ¬ AllFin D (eval D T (.ext s x)) := by
  simp [eval, construct, hs, htag, AllFin, hx]

/- the laws are satisfiable (a two-point domain: `true` = finite, `false` = not), and on it the checked constructor
   really rejects: the hypotheses of `floats_finite` are not vacuous -/
example : ∃ D : FloatDom, D.Laws ∧ ∃ x : D.F, mk D x = .err :=
  ⟨⟨Bool, Unit, id, id, fun _ => true⟩, ⟨fun _ h => h, fun _ => rfl⟩, false, rfl⟩

end XrayModel.C13
