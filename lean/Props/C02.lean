/-
C02 — Core evaluation follows the documented semantics: the syntax half (operators with their precedence and
associativity; operator, method and index sugar) and the evaluation-order statements.

Model: `XrayModel/Syntax.lean` (the PEG of the expression rules of `xray.pest`, pest's `PrecClimber` mirrored
loop for loop over the operator table that `translate/ops.py` regenerates from `parser.rs` / `xray.pest` on
every run into `Generated/Ops.lean`, the unary and accessor desugaring of `parse_expr`) and the run-time core
evaluator `XrayModel/Core.lean`.
-/
import XrayProofs.Syntax
namespace XrayModel.C02
open XrayModel.Syntax Generated.Ops

/-! ## the operator table that the parser uses *is* the documented one
(book/src/lang/functions.md "Operators": `**` `*` `/` `%` `+` `-` `|` `&` `^` `<=` `<` `>=` `>` `==` `!=` `&&` `||`
"resolved in this order", each an alias of the named function).  The left-hand side is regenerated from parser.rs
and xray.pest on every run: an edit of the table, of a token or of a desugaring arm changes it. -/

/-- token ↦ (function it calls, precedence level (6 = tightest), associativity), in the order of the grammar's
    ordered choice -/
theorem table_documented :
    pestBinary.map (fun p => (p.2, infixName p.1, climberInfo p.1)) =
      [("**", some "pow", some (6, .right)),
       ("+", some "add", some (4, .left)), ("-", some "sub", some (4, .left)),
       ("*", some "mul", some (5, .left)), ("/", some "div", some (5, .left)), ("%", some "mod", some (5, .left)),
       ("&&", some "and", some (1, .left)), ("||", some "or", some (1, .left)),
       ("==", some "eq", some (2, .left)), ("!=", some "ne", some (2, .left)),
       ("<=", some "le", some (2, .left)), (">=", some "ge", some (2, .left)),
       ("<", some "lt", some (2, .left)), (">", some "gt", some (2, .left)),
       ("&", some "bit_and", some (3, .left)), ("|", some "bit_or", some (3, .left)), ("^", some "bit_xor", some (3, .left))] := by
  decide

theorem unary_documented :
    pestUnary.map (fun p => (p.2, unaryName p.1)) = [("+", some "pos"), ("-", some "neg"), ("!", some "not")]
    ∧ indexFunc = "get" := by
  decide

/-- all operators of one precedence level associate the same way, and `**` is the only right-associative one -/
theorem levels_uniform :
    (∀ lvl ∈ climberLevels, ∀ x ∈ lvl, ∀ y ∈ lvl, x.2 = y.2) ∧
    (∀ p ∈ pestBinary, ((climberInfo p.1).map (·.2) = some Assoc.right ↔ p.2 = "**")) := by
  decide

/-- the grammar's ordered choice over the operator tokens never lets a shorter token shadow a longer one
    (`**` before `*`, `&&` before `&`, `<=` before `<` …): the first alternative that matches is the longest -/
theorem lex_longest :
    ∀ i j : Fin pestBinary.length, i < j → ¬ (pestBinary[i].2.toList.isPrefixOf pestBinary[j].2.toList) := by
  decide

/-! ## sugar: operators, methods and indexing are calls of named functions

The desugared forms are *equal as static-expression trees* (`XStaticExpr`) to the explicit calls, so whatever the
compiler and the evaluator do with the explicit call — overload resolution included — they do with the sugar:
a user overload of `add` takes effect for `+` exactly as for `add(a, b)`. -/

/-- `a ⊕ b` is `f(a, b)` for the function `f` the table gives the operator, for all operand trees -/
theorem operator_is_call (r f : String) (a b : SExpr) (hf : infixName r = some f) (hi : (climberInfo r).isSome) :
    buildBinary a [(r, b)] = some (.call (.ident f) [a, b]) := by
  obtain ⟨⟨p, as⟩, hp⟩ := Option.isSome_iff_exists.mp hi
  simp [buildBinary, climb, climbRec, climbInner, hp, foldTree, hf, newCall]

/-- the same on source text, for every operator of the grammar: `a ⊕ b`, `f(a, b)` and `a.f(b)` parse to one tree -/
theorem operator_is_call_text :
    ∀ p ∈ pestBinary, ∃ f, infixName p.1 = some f ∧
      (parse ("a " ++ p.2 ++ " b")).show = "(call (id " ++ f ++ ") (id a) (id b))" ∧
      (parse (f ++ "(a, b)")).show = "(call (id " ++ f ++ ") (id a) (id b))" ∧
      (parse ("a." ++ f ++ "(b)")).show = "(call (id " ++ f ++ ") (id a) (id b))" := by
  decide +kernel

/-- a unary operator is a call of its function; a run of unary operators applies the one nearest the operand first -/
theorem unary_is_call (r f : String) (rs : List String) (e e' : SExpr) (hf : unaryName r = some f)
    (h : applyUnary rs e = some e') : applyUnary (r :: rs) e = some (.call (.ident f) [e']) := by
  simp [applyUnary, h, hf, newCall]

theorem unary_is_call_text :
    ∀ p ∈ pestUnary, ∃ f, unaryName p.1 = some f ∧
      (parse (p.2 ++ "a")).show = "(call (id " ++ f ++ ") (id a))" ∧
      (parse (f ++ "(a)")).show = "(call (id " ++ f ++ ") (id a))" ∧
      (parse (p.2 ++ " - a")).show = "(call (id " ++ f ++ ") (call (id neg) (id a)))" := by
  decide +kernel

/-- `x.f(ys)` is `f(x, ys)` -/
theorem method_sugar (x : SExpr) (f : String) (ys : List SExpr) :
    applyAccessor x (.method f ys) = applyAccessor (.ident f) (.call (x :: ys)) := rfl

/-- `a[bs]` is `get(a, bs)` -/
theorem index_sugar (a : SExpr) (bs : List SExpr) :
    applyAccessor a (.index bs) = applyAccessor (.ident "get") (.call (a :: bs)) := rfl

theorem sugar_text :
    (parse "x.f(y, z)").show = (parse "f(x, y, z)").show ∧ (parse "a[b]").show = (parse "get(a, b)").show ∧
    (parse "a[b, c]").show = (parse "a.get(b, c)").show ∧ (parse "a[b]").show = "(call (id get) (id a) (id b))" ∧
    -- accessors bind tighter than unary operators, unary operators tighter than binary ones
    (parse "-a.f(b)[c] ** d").show = (parse "pow(neg(get(f(a, b), c)), d)").show ∧
    (parse "!a == b").show = (parse "eq(not(a), b)").show := by
  decide +kernel

/-! ## precedence and associativity: the tree `climb` builds is the one the table prescribes

`climb` is pest's `PrecClimber::climb` (outer and inner `while` of `climb_rec`) over the pair list
`primary (operator primary)*` of a `Rule::expression`, with the table generated from parser.rs.
`Shaped climberInfo t` says that `t` obeys the table at every node (`shaped_node_iff`): the root of the right operand
binds tighter than the node's operator, or equally and is right-associative; the root of the left operand binds
tighter, or equally and the node's operator is left-associative — i.e. `t` is what one gets by writing the fully
parenthesised tree with no parentheses at all.  (A parenthesised group is a primary of the climber: the grammar hands
it over as one pair.)  `climb_spec`: such a tree is recovered exactly from its in-order listing; `climb_total`: on
every well-formed pair list `climb` answers, with a tree that lists back to the input and obeys the table; so the
table-obeying tree of a pair list exists, is unique (`climb_unique`) and is what the parser builds. -/

theorem shaped_node_iff {α : Type} (r : String) (l rt : Tree α) :
    Shaped climberInfo (.node r l rt) ↔
      ∃ p a, climberInfo r = some (p, a) ∧ Shaped climberInfo l ∧ Shaped climberInfo rt ∧
        (∀ s q b, rootRule l = some s → climberInfo s = some (q, b) → q > p ∨ (q = p ∧ a = Assoc.left)) ∧
        (∀ s, rootRule rt = some s → ∃ q b, climberInfo s = some (q, b) ∧ (q > p ∨ (q = p ∧ b = Assoc.right))) := by
  simp only [Shaped]
  constructor
  · rintro ⟨p, a, h1, h2, h3, h4, h5⟩
    refine ⟨p, a, h1, h2, h3, fun s q b hs hi => ?_, fun s hs => ?_⟩
    · have := (absorbs_false_iff q p a).mp (h4 s q b hs hi)
      rcases Nat.lt_or_ge p q with h | h
      · exact Or.inl h
      · exact Or.inr ⟨by omega, this.2 (by omega)⟩
    · obtain ⟨q, b, hi, hab⟩ := h5 s hs
      exact ⟨q, b, hi, (absorbs_true_iff p q b).mp hab⟩
  · rintro ⟨p, a, h1, h2, h3, h4, h5⟩
    refine ⟨p, a, h1, h2, h3, fun s q b hs hi => ?_, fun s hs => ?_⟩
    · rw [absorbs_false_iff]
      rcases h4 s q b hs hi with h | ⟨h, ha⟩
      · exact ⟨by omega, fun e => by omega⟩
      · exact ⟨by omega, fun _ => ha⟩
    · obtain ⟨q, b, hi, hab⟩ := h5 s hs
      exact ⟨q, b, hi, (absorbs_true_iff p q b).mpr hab⟩

/-- every tree that obeys the table is parsed back from its in-order listing (no parentheses) -/
theorem climb_spec {α : Type} (t : Tree α) (h : Shaped climberInfo t) : climb climberInfo (inorder t) = some t :=
  climb_complete climberInfo climberInfo_uniform t h

/-- on every well-formed pair list (a primary, then known operators and primaries alternating) `climb` answers;
    the tree lists back to exactly the input (nothing dropped, nothing reordered) and obeys the table -/
theorem climb_total {α : Type} (a : α) (ts : List (Item α)) (h : Alt climberInfo ts) :
    ∃ t, climb climberInfo (.prim a :: ts) = some t ∧ inorder t = .prim a :: ts ∧ Shaped climberInfo t :=
  climb_ok climberInfo climberInfo_uniform a ts h

/-- there is only one table-obeying tree over a given pair list -/
theorem climb_unique {α : Type} (t1 t2 : Tree α) (h1 : Shaped climberInfo t1) (h2 : Shaped climberInfo t2)
    (h : inorder t1 = inorder t2) : t1 = t2 := by
  have e1 := climb_spec t1 h1
  have e2 := climb_spec t2 h2
  rw [h, e2] at e1
  exact (Option.some.inj e1).symm

/-- the hypotheses are satisfiable: `a + b * c ** d ** e` obeys the table (it is what `climb` builds) … -/
example : Shaped climberInfo
    (Tree.node "BINARY_ADD" (.leaf "a") (.node "BINARY_MUL" (.leaf "b")
      (.node "BINARY_POW" (.leaf "c") (.node "BINARY_POW" (.leaf "d") (.leaf "e"))))) := by
  obtain ⟨t, h1, _, h3⟩ := climb_total "a"
    [.op "BINARY_ADD", .prim "b", .op "BINARY_MUL", .prim "c", .op "BINARY_POW", .prim "d", .op "BINARY_POW", .prim "e"]
    (.cons _ _ _ (by decide) (.cons _ _ _ (by decide) (.cons _ _ _ (by decide) (.cons _ _ _ (by decide) .nil))))
  have h : climb climberInfo
      [.prim "a", .op "BINARY_ADD", .prim "b", .op "BINARY_MUL", .prim "c", .op "BINARY_POW", .prim "d", .op "BINARY_POW", .prim "e"]
      = some (Tree.node "BINARY_ADD" (.leaf "a") (.node "BINARY_MUL" (.leaf "b")
          (.node "BINARY_POW" (.leaf "c") (.node "BINARY_POW" (.leaf "d") (.leaf "e"))))) := by decide +kernel
  rw [h] at h1; cases h1; exact h3

/-- … and `(a + b) * c` does not (it needs its parentheses: without them `climb` builds `a + (b * c)`) -/
example : ¬ Shaped climberInfo (Tree.node "BINARY_MUL" (.node "BINARY_ADD" (.leaf "a") (.leaf "b")) (.leaf "c")) := by
  intro h
  have := climb_spec _ h
  revert this
  decide +kernel

/-- the same through the whole pipeline on source text: `**` tightest and to the right, then `* / %`, `+ -`, `| & ^`,
    the comparisons, `&& ||`, each level to the left; unary tighter than binary; accessors tighter than unary -/
theorem precedence_text :
    (parse "a + b * c ** d ** e - f").show = (parse "sub(add(a, mul(b, pow(c, pow(d, e)))), f)").show ∧
    (parse "a - b - c").show = (parse "sub(sub(a, b), c)").show ∧
    (parse "a / b % c * d").show = (parse "mul(mod(div(a, b), c), d)").show ∧
    (parse "a || b && c == d | e + f").show = (parse "and(or(a, b), eq(c, bit_or(d, add(e, f))))").show ∧
    (parse "a < b <= c != d").show = (parse "ne(le(lt(a, b), c), d)").show ∧
    (parse "a ^ b & c | d").show = (parse "bit_or(bit_and(bit_xor(a, b), c), d)").show ∧
    (parse "-a ** -b").show = (parse "pow(neg(a), neg(b))").show ∧
    (parse "!a.f(b)[c]::d").show = "(call (id not) (member (call (id get) (call (id f) (id a) (id b)) (id c)) d))" ∧
    (parse "(a + b) * c").show = (parse "mul(add(a, b), c)").show := by
  decide +kernel

open XrayModel.Core

/-! ## evaluation order (over the run-time core model `XrayModel/Core.lean`)

Arguments are evaluated strictly, left to right, exactly once: a strict native and a user function both start with
`evalList` of the argument expressions; when it delivers values, `SeqVals` holds — the chain
`eval e₁` from the call's state, `eval e₂` from the state `e₁` left, … one evaluation per argument, in order — and the
call continues *on the values* (`prim f vs` / `callUser … vs`: neither can evaluate an argument expression again).
When an argument yields an error value or a violation, that outcome is the call's (C06 says which one).

The only natives of the core that skip an argument are `if`, `and`, `or`, `if_error` — documented as short-circuiting:
book/src/std/general.md:59 (`if`), std/bool.md:17 (`and`), :57 (`or`), std/errors.md:17 (`if_error`); further
documented short-circuit functions are outside the core model (`then` bool.md:61, optional `and/map/map_or/or/value_or`
optional.md:9-44, mapping `get` with default mapping.md:46, `if_error` with a message errors.md:21) and are covered by
the check only.  book/src/lang/functions.md:162: "users should assume that functions are not short-circuiting, unless
the documentation explicitly states otherwise". -/

theorem args_left_to_right_once (n : Nat) (cfg : Cfg) (fr : Frame) (es : List Expr) (st st' : St) (vs : List Val)
    (h : evalList n cfg fr es st = (.ok vs, st')) : SeqVals cfg fr n es st vs st' :=
  evalList_ok_seqVals n cfg fr es st st' vs h

theorem strict_once (n : Nat) (cfg : Cfg) (fr : Frame) (f : String) (args : List Expr) (tail : Bool) (st : St)
    (hf : isStrictPrim f = true) :
    (∀ vs st', evalList n cfg fr args st = (.ok vs, st') →
        SeqVals cfg fr n args st vs st' ∧ builtin (n + 1) cfg fr f args tail st = (prim f vs, st')) ∧
    (∀ r st', evalList n cfg fr args st = (.error r, st') → builtin (n + 1) cfg fr f args tail st = (r, st')) := by
  refine ⟨fun vs st' h => ⟨evalList_ok_seqVals _ _ _ _ _ _ _ h, ?_⟩, fun r st' h => ?_⟩ <;>
    rw [builtin_strict hf] <;> simp [strictCall, hf, h]

theorem user_call_once (n : Nat) (cfg : Cfg) (fr : Frame) (g : Func) (d : List Val) (env : List (String × Val))
    (args : List Expr) (tail : Bool) (st : St) :
    (∀ vs st', evalList n cfg fr args st = (.ok vs, st') →
        SeqVals cfg fr n args st vs st' ∧
        callVal (n + 1) cfg fr (.clos g d env) args tail st = callUser n cfg fr.height (.clos g d env) vs st') ∧
    (∀ r st', evalList n cfg fr args st = (.error r, st') → callVal (n + 1) cfg fr (.clos g d env) args tail st = (r, st')) := by
  refine ⟨fun vs st' h => ⟨evalList_ok_seqVals _ _ _ _ _ _ _ h, ?_⟩, fun r st' h => ?_⟩ <;> simp [callVal, h]

theorem shortcircuit_only_documented (f : String) (args : List Expr) (hdoc : f ∉ ["if", "and", "or", "if_error"])
    (n : Nat) (cfg : Cfg) (fr : Frame) (tail : Bool) (st : St) :
    (∃ a, args = [a] ∧ f = "is_error" ∧
        (∀ v st', eval n cfg fr a false st = (.val v, st') →
          builtin (n + 1) cfg fr f args tail st = (.val (.bool v.isErr), st')) ∧
        (∀ k st', eval n cfg fr a false st = (.viol k, st') → builtin (n + 1) cfg fr f args tail st = (.viol k, st'))) ∨
    (∃ a, args = [a] ∧ f = "display" ∧
        (∀ m st', eval n cfg fr a false st = (.val (.err m), st') →
          builtin (n + 1) cfg fr f args tail st = (.val (.err m), st')) ∧
        (∀ v s st', eval n cfg fr a false st = (.val v, st') → v.isErr = false → toStr v = some s →
          builtin (n + 1) cfg fr f args tail st = (.val v, { st' with out := st'.out ++ [s] })) ∧
        (∀ k st', eval n cfg fr a false st = (.viol k, st') → builtin (n + 1) cfg fr f args tail st = (.viol k, st'))) ∨
    builtin (n + 1) cfg fr f args tail st = strictCall n cfg fr f args st := by
  rcases builtin_shape f args with ⟨_, _, _, rfl, _⟩ | ⟨_, _, rfl, _⟩ | ⟨_, _, rfl, _⟩ | ⟨_, _, rfl, _⟩ |
    ⟨a, rfl, rfl⟩ | ⟨a, rfl, rfl⟩ | hd
  · simp at hdoc
  · simp at hdoc
  · simp at hdoc
  · simp at hdoc
  · left
    refine ⟨a, rfl, rfl, fun v st' h => ?_, fun k st' h => ?_⟩ <;> simp [builtin, h]
  · right; left
    refine ⟨a, rfl, rfl, fun m st' h => ?_, fun v s st' h hv hs => ?_, fun k st' h => ?_⟩
    · simp [builtin, h]
    · cases v <;> simp_all [builtin, Val.isErr]
    · simp [builtin, h]
  · right; right; exact hd n cfg fr tail st

theorem documented_do_skip (n : Nat) (cfg : Cfg) (fr : Frame) (c b b' x : Expr) (tail : Bool) (st st' : St) :
    (eval n cfg fr c false st = (.val (.bool false), st') →
      builtin (n + 1) cfg fr "and" [c, b] tail st = builtin (n + 1) cfg fr "and" [c, b'] tail st ∧
      builtin (n + 1) cfg fr "if" [c, b, x] tail st = builtin (n + 1) cfg fr "if" [c, b', x] tail st) ∧
    (eval n cfg fr c false st = (.val (.bool true), st') →
      builtin (n + 1) cfg fr "or" [c, b] tail st = builtin (n + 1) cfg fr "or" [c, b'] tail st ∧
      builtin (n + 1) cfg fr "if" [c, x, b] tail st = builtin (n + 1) cfg fr "if" [c, x, b'] tail st) ∧
    (∀ k : Int, eval n cfg fr c false st = (.val (.int k), st') →
      builtin (n + 1) cfg fr "if_error" [c, b] tail st = builtin (n + 1) cfg fr "if_error" [c, b'] tail st) := by
  refine ⟨fun h => ?_, fun h => ?_, fun k h => ?_⟩ <;> simp [builtin, h]

/-- a user function named like the operator's function is what the operator calls -/
theorem overload_takes_effect (r f : String) (a b : SExpr) (a' b' : Expr) (hf : infixName r = some f)
    (hi : (climberInfo r).isSome) (ha : toCore a = some a') (hb : toCore b = some b')
    (fr : Frame) (c : Val) (hc : lookup f fr.env = some c) (n : Nat) (cfg : Cfg) (tail : Bool) (st : St) :
    ∃ e, (buildBinary a [(r, b)]).bind toCore = some e ∧
      eval (n + 2) cfg fr e tail st = callVal n cfg fr c [a', b'] tail st := by
  obtain ⟨⟨p, as⟩, hp⟩ := Option.isSome_iff_exists.mp hi
  refine ⟨.call f [a', b'], ?_, eval_call_bound hc n cfg [a', b'] tail st⟩
  simp [buildBinary, climb, climbRec, climbInner, hp, foldTree, hf, newCall, toCore, toCoreList, ha, hb]


/-! ## the derived comparisons depend only on the sign of `cmp`

`<  >  >=  <=` on a type with a user `cmp` are the documented functions of `cmp(a, b)` (std/general.md: "whether
`cmp(a,b)` is less than zero" …): whatever integer the user's `cmp` returns — `a::x - b::x`, a bignum, -1/0/1 — only
its sign matters, and `!=` is the negation of the user's `eq`. -/

theorem derived_cmp_spec (c : Int) :
    derivedOfCmp "lt" c = some (decide (c < 0)) ∧ derivedOfCmp "le" c = some (decide (c ≤ 0)) ∧
    derivedOfCmp "gt" c = some (decide (c > 0)) ∧ derivedOfCmp "ge" c = some (decide (c ≥ 0)) := by
  refine ⟨rfl, ?_, rfl, ?_⟩ <;> simp only [derivedOfCmp, Option.some.injEq] <;>
    rw [Bool.eq_iff_iff] <;> simp <;> omega

theorem derived_cmp_sign (name : String) (c c' : Int) (h : Int.sign c = Int.sign c') :
    derivedOfCmp name c = derivedOfCmp name c' := by
  have h1 : (c < 0 ↔ c' < 0) := by
    rw [← Int.sign_eq_neg_one_iff_neg, ← Int.sign_eq_neg_one_iff_neg, h]
  have h2 : (c > 0 ↔ c' > 0) := by
    show (0 < c ↔ 0 < c')
    rw [← Int.sign_eq_one_iff_pos, ← Int.sign_eq_one_iff_pos, h]
  unfold derivedOfCmp
  split <;> simp [h1, h2]

/-- the four are coherent with each other for every `cmp` result (exactly one of `<`, `==0`, `>`) -/
theorem derived_cmp_coherent (c : Int) :
    derivedOfCmp "ge" c = (derivedOfCmp "lt" c).map (!·) ∧ derivedOfCmp "le" c = (derivedOfCmp "gt" c).map (!·) ∧
    ¬ (derivedOfCmp "lt" c = some true ∧ derivedOfCmp "gt" c = some true) := by
  refine ⟨rfl, rfl, ?_⟩
  simp [derivedOfCmp]; omega

end XrayModel.C02
