/-
C02 — Core evaluation follows the documented semantics: the syntax half (operators with their precedence and
associativity; operator, method and index sugar) and the evaluation-order statements.

Model: `XrayModel/Syntax.lean` (the PEG of the expression rules of `xray.pest`, pest's `PrecClimber` mirrored
loop for loop over the operator table that `translate/ops.py` regenerates from `parser.rs` / `xray.pest` on
every run into `Generated/Ops.lean`, the unary and accessor desugaring of `parse_expr`) and the run-time core
evaluator `XrayModel/Core.lean`.
-/
import XrayProofs.Syntax
namespace XrayModel.C02
open XrayModel.Syntax Generated.Ops

/-! ## the operator table that the parser uses *is* the documented one
(book/src/lang/functions.md "Operators": `**` `*` `/` `%` `+` `-` `|` `&` `^` `<=` `<` `>=` `>` `==` `!=` `&&` `||`
"resolved in this order", each an alias of the named function).  The left-hand side is regenerated from parser.rs
and xray.pest on every run: an edit of the table, of a token or of a desugaring arm changes it. -/

/-- token ↦ (function it calls, precedence level (6 = tightest), associativity), in the order of the grammar's
    ordered choice -/
theorem table_documented :
    pestBinary.map (fun p => (p.2, infixName p.1, climberInfo p.1)) =
      [("**", some "pow", some (6, .right)),
       ("+", some "add", some (4, .left)), ("-", some "sub", some (4, .left)),
       ("*", some "mul", some (5, .left)), ("/", some "div", some (5, .left)), ("%", some "mod", some (5, .left)),
       ("&&", some "and", some (1, .left)), ("||", some "or", some (1, .left)),
       ("==", some "eq", some (2, .left)), ("!=", some "ne", some (2, .left)),
       ("<=", some "le", some (2, .left)), (">=", some "ge", some (2, .left)),
       ("<", some "lt", some (2, .left)), (">", some "gt", some (2, .left)),
       ("&", some "bit_and", some (3, .left)), ("|", some "bit_or", some (3, .left)), ("^", some "bit_xor", some (3, .left))] := by
  decide

theorem unary_documented :
    pestUnary.map (fun p => (p.2, unaryName p.1)) = [("+", some "pos"), ("-", some "neg"), ("!", some "not")]
    ∧ indexFunc = "get" := by
  decide

/-- all operators of one precedence level associate the same way, and `**` is the only right-associative one -/
theorem levels_uniform :
    (∀ lvl ∈ climberLevels, ∀ x ∈ lvl, ∀ y ∈ lvl, x.2 = y.2) ∧
    (∀ p ∈ pestBinary, ((climberInfo p.1).map (·.2) = some Assoc.right ↔ p.2 = "**")) := by
  decide

/-- the grammar's ordered choice over the operator tokens never lets a shorter token shadow a longer one
    (`**` before `*`, `&&` before `&`, `<=` before `<` …): the first alternative that matches is the longest -/
theorem lex_longest :
    ∀ i j : Fin pestBinary.length, i < j → ¬ (pestBinary[i].2.toList.isPrefixOf pestBinary[j].2.toList) := by
  decide

/-! ## sugar: operators, methods and indexing are calls of named functions

The desugared forms are *equal as static-expression trees* (`XStaticExpr`) to the explicit calls, so whatever the
compiler and the evaluator do with the explicit call — overload resolution included — they do with the sugar:
a user overload of `add` takes effect for `+` exactly as for `add(a, b)`. -/

/-- `a ⊕ b` is `f(a, b)` for the function `f` the table gives the operator, for all operand trees -/
theorem operator_is_call (r f : String) (a b : SExpr) (hf : infixName r = some f) (hi : (climberInfo r).isSome) :
    buildBinary a [(r, b)] = some (.call (.ident f) [a, b]) := by
  obtain ⟨⟨p, as⟩, hp⟩ := Option.isSome_iff_exists.mp hi
  simp [buildBinary, climb, climbRec, climbInner, hp, foldTree, hf, newCall]

/-- the same on source text, for every operator of the grammar: `a ⊕ b`, `f(a, b)` and `a.f(b)` parse to one tree -/
theorem operator_is_call_text :
    ∀ p ∈ pestBinary, ∃ f, infixName p.1 = some f ∧
      (parse ("a " ++ p.2 ++ " b")).show = "(call (id " ++ f ++ ") (id a) (id b))" ∧
      (parse (f ++ "(a, b)")).show = "(call (id " ++ f ++ ") (id a) (id b))" ∧
      (parse ("a." ++ f ++ "(b)")).show = "(call (id " ++ f ++ ") (id a) (id b))" := by
  decide +kernel

/-- a unary operator is a call of its function; a run of unary operators applies the one nearest the operand first -/
theorem unary_is_call (r f : String) (rs : List String) (e e' : SExpr) (hf : unaryName r = some f)
    (h : applyUnary rs e = some e') : applyUnary (r :: rs) e = some (.call (.ident f) [e']) := by
  simp [applyUnary, h, hf, newCall]

theorem unary_is_call_text :
    ∀ p ∈ pestUnary, ∃ f, unaryName p.1 = some f ∧
      (parse (p.2 ++ "a")).show = "(call (id " ++ f ++ ") (id a))" ∧
      (parse (f ++ "(a)")).show = "(call (id " ++ f ++ ") (id a))" ∧
      (parse (p.2 ++ " - a")).show = "(call (id " ++ f ++ ") (call (id neg) (id a)))" := by
  decide +kernel

/-- `x.f(ys)` is `f(x, ys)` -/
theorem method_sugar (x : SExpr) (f : String) (ys : List SExpr) :
    applyAccessor x (.method f ys) = applyAccessor (.ident f) (.call (x :: ys)) := rfl

/-- `a[bs]` is `get(a, bs)` -/
theorem index_sugar (a : SExpr) (bs : List SExpr) :
    applyAccessor a (.index bs) = applyAccessor (.ident "get") (.call (a :: bs)) := rfl

theorem sugar_text :
    (parse "x.f(y, z)").show = (parse "f(x, y, z)").show ∧ (parse "a[b]").show = (parse "get(a, b)").show ∧
    (parse "a[b, c]").show = (parse "a.get(b, c)").show ∧ (parse "a[b]").show = "(call (id get) (id a) (id b))" ∧
    -- accessors bind tighter than unary operators, unary operators tighter than binary ones
    (parse "-a.f(b)[c] ** d").show = (parse "pow(neg(get(f(a, b), c)), d)").show ∧
    (parse "!a == b").show = (parse "eq(not(a), b)").show := by
  decide +kernel

end XrayModel.C02
