/-
C01 — Accepted programs never go wrong (type soundness): property theorems.

Model: `XrayModel/Core.lean` (evaluator of the core fragment; `Res.stuck` marks every place where the
interpreter itself would fail: a downcast with the wrong tag, an unchecked index, a call of a
non-function, a parameter list that does not fit, an escaped tail call) and
`XrayModel/CoreTyping.lean` (the annotated syntax the compiler sees, its erasure to the evaluator's
syntax, the checker `check`/`checkProgram`, value typing `HasTy`/`EnvTy`).

Proof: induction on fuel with the invariant `Inv n` (XrayProofs/CoreTypingStep1.lean) over all ten
mutually recursive evaluator functions (`eval`, `callNamed`, `callVal`, `evalList`, `mkClos`,
`evalDflts`, `callUser`, `tramp`, `evalDecls`, `builtin`): one step lemma per function
(XrayProofs/CoreTypingStep1-5.lean), assembled in XrayProofs/CoreTypingMain.lean.
-/
import XrayProofs.CoreTypingMain
namespace XrayModel.C01
open XrayModel.Core XrayModel.CoreTyping

/-- The signature table of the strict natives is sound: applied to error-free arguments that have
the argument types the table was asked about, a native never gets stuck and its result has the
result type of the table (an error value, e.g. "Modulo by zero", has every type). -/
theorem natives_sound {f : String} {ats : List Ty} {vs : List Val} {τ : Ty}
    (h : primTy f ats = some τ) (hvs : HasTys vs ats) (he : firstErr vs = none) :
    ∃ v, prim f vs = .val v ∧ HasTy v τ :=
  prim_sound h hvs he

example : primTy "mod" [.int, .unk] = some .int := by simp [primTy, sub]

/-- Soundness: a program the checker accepts never gets stuck, for every amount of fuel and every
limit configuration (depth / call / recursion limits, tail calls on or off): it ends in values
and error values, in a violation handed to the host, or is still running. -/
theorem soundness {ds : List TDecl} {Γ : TyEnv} (h : checkProgram ds = some Γ)
    (fuel : Nat) (cfg : Cfg) (why : String) (st : St) :
    runProgram fuel cfg (eraseDs ds) ≠ (.error (.stuck why), st) :=
  program_not_stuck h fuel cfg why st

/-- Preservation: when an accepted program has been instantiated, the value of every top-level
binding has the shape of the static type the checker assigned to it (same names, same order). -/
theorem preservation {ds : List TDecl} {Γ : TyEnv} (h : checkProgram ds = some Γ)
    (fuel : Nat) (cfg : Cfg) (fr : Frame) (st : St)
    (hr : runProgram fuel cfg (eraseDs ds) = (.ok fr, st)) : EnvTy fr.env Γ :=
  program_preserves h fuel cfg fr st hr

/-- the hypotheses are satisfiable: a recursive function with an optional parameter is accepted -/
example : (checkProgram [.fnD (.mk (some "f") [.mk "a" .int none, .mk "b" .str (some (.str "q"))] (some .int) []
      (.call "f" [.call "sub" [.var "a", .int 1]]))]).isSome = true := by
  simp [checkProgram, checkDecls, checkFunc, checkParams, check, checkList, paramEnv, lookupTy, checkArgs,
    builtinTy, isLazy, isStrictPrim, primTy, sub, TParam.name, TParam.ty, Ty.beq, Ty.beqList]

end XrayModel.C01
