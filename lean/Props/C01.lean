/-
C01 — Accepted programs never go wrong (type soundness): property theorems.

Model: `XrayModel/Core.lean` (evaluator of the core fragment; `Res.stuck` marks every place where the
interpreter itself would fail: a downcast with the wrong tag, an unchecked index, a call of a
non-function, a parameter list that does not fit) and `XrayModel/CoreTyping.lean` (the annotated
syntax, its erasure, the checker `check`/`checkProgram`, value typing `HasTy`).
-/
import XrayProofs.CoreTyping
namespace XrayModel.C01
open XrayModel.Core XrayModel.CoreTyping

/-- The signature table of the strict natives is sound: applied to error-free arguments that have
the argument types the table was asked about, a native never gets stuck and its result has the
result type of the table (an error value, e.g. "Modulo by zero", has every type). -/
theorem natives_sound {f : String} {ats : List Ty} {vs : List Val} {τ : Ty}
    (h : primTy f ats = some τ) (hvs : HasTys vs ats) (he : firstErr vs = none) :
    ∃ v, prim f vs = .val v ∧ HasTy v τ :=
  prim_sound h hvs he

example : primTy "mod" [.int, .unk] = some .int := by simp [primTy, sub]

end XrayModel.C01
