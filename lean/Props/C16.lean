/-
C16 — Generators denote fixed lazy streams.
Property theorems only; helper lemmas live in XrayProofs/Gen.lean.

The model (`XrayModel/Gen.lean`) is a step machine: one `step` of an iterator is one pull of one source.
`outs L n it` are the elements yielded by the first `n` steps — the growing finite approximations of
the stream `it` denotes (`outs_mono`), so an equation that holds for every `n` is an equation between
streams, finite or infinite.  Because it is indexed by the number of *steps*, the same equation says
how far the source has been consumed: an adaptor whose `n`-step output is a function of its source's
`n`-step output has pulled nothing beyond it (laziness).  `Den L it xs`: the iterator yields exactly
`xs` and then ends.  Elements are items (a value, an error value, a violation); functions are
arbitrary, so every statement covers erroring callbacks.
`Permits.covers p k`: the search permits `p` suffice for `k` elements (always, when no limit is set).
-/
import XrayProofs.GenConsumers
import XrayProofs.GenProductDen
import XrayProofs.GenLibrary
import XrayProofs.GenPrefix
import XrayProofs.GenChunks
namespace XrayModel.C16
open XrayModel.Gen

/-- the approximations grow: a generator denotes one fixed stream -/
theorem outs_mono (L : Option Nat) (n : Nat) (it : It) :
    ∃ more, outs L (n + 1) it = outs L n it ++ more := by
  refine ⟨_, outs_add L n 1 it⟩

/-- `map` -/
theorem iter_den_map (L : Option Nat) (f : F) (n : Nat) (g : G) :
    outs L n ((G.map g f).start L) = (outs L n (g.start L)).map (mapItem f) := by
  rw [G.start]; exact outs_map L f n _

/-- `filter` (rejected elements are search work: a permit each) -/
theorem iter_den_filter (L : Option Nat) (p : P) (n : Nat) (g : G)
    (hc : (Permits.ofLimit L).covers (outs L n (g.start L)).length) :
    outs L n ((G.filter g p).start L) = (outs L n (g.start L)).filterMap (filt p) := by
  rw [G.start]; exact outs_filter L p n _ _ hc

/-- on values with a total boolean predicate this is `List.filter` -/
theorem filterMap_filt_vals (q : V → Bool) (vs : List V) :
    (vs.map Item.val).filterMap (filt (fun | .val v => if q v then .t else .f | .err => .err | .viol => .viol)) =
      (vs.filter q).map Item.val := by
  induction vs with
  | nil => rfl
  | cons v vs ih =>
    simp only [List.map_cons, List.filterMap_cons, filt, List.filter_cons]
    cases q v <;> simp [ih]

/-- `take_while` -/
theorem iter_den_takeWhile (L : Option Nat) (p : P) (n : Nat) (g : G) :
    outs L n ((G.takeWhile g p).start L) = twItems p (outs L n (g.start L)) := by
  rw [G.start]; exact outs_takeWhile L p n _

/-- `skip_until` -/
theorem iter_den_skipUntil (L : Option Nat) (p : P) (n : Nat) (g : G)
    (hc : (Permits.ofLimit L).covers (outs L n (g.start L)).length) :
    outs L n ((G.skipUntil g p).start L) = suItems p (outs L n (g.start L)) := by
  rw [G.start]; exact outs_skipUntil L p n _ _ hc

/-- `aggregate`: the initial state, then the scan; it is one step behind its source, never ahead -/
theorem iter_den_aggregate (L : Option Nat) (f : F2) (init : Item) (n : Nat) (g : G) :
    outs L (n + 1) ((G.aggregate g init f).start L) = init :: scanItems f init (outs L n (g.start L)) := by
  rw [G.start]; exact outs_aggregate_first L f n _ init

/-- the slice `[a, b)` of a generator: drop `a`, then `b - a` elements (not `b`: repaired in 099a822) -/
theorem slice_iter (L : Option Nat) (n : Nat) (g : G) (a b : Nat)
    (hc : (Permits.ofLimit L).covers a) (hv : noViol (outs L n (g.start L))) :
    outs L n ((G.slice g a (some b)).start L) = ((outs L n (g.start L)).drop a).take (b - a) := by
  rw [outs_start_slice L n g a (some b) hc hv]; rfl

/-- `skip(a)`: an open slice -/
theorem skip_iter (L : Option Nat) (n : Nat) (g : G) (a : Nat)
    (hc : (Permits.ofLimit L).covers a) (hv : noViol (outs L n (g.start L))) :
    outs L n ((G.slice g a none).start L) = (outs L n (g.start L)).drop a := by
  rw [outs_start_slice L n g a none hc hv]; rfl

/-- merging nested slices (`XGenerator::slice`, :492-515) does not change what is denoted: slicing a
slice through `mkSlice` gives the stream of the slice of the slice -/
theorem slice_merge_den (L : Option Nat) (n : Nat) (g : G) (a c : Nat) (b d : Option Nat)
    (hc : (Permits.ofLimit L).covers (a + c)) (hv : noViol (outs L n (g.start L))) :
    outs L n ((G.mkSlice (.slice g a b) c d).start L) =
      takeOpt (d.map (· - c)) ((takeOpt (b.map (· - a)) ((outs L n (g.start L)).drop a)).drop c) := by
  have ha : (Permits.ofLimit L).covers a := covers_mono hc (by omega)
  by_cases h : c = 0 ∧ d = none
  · obtain ⟨rfl, rfl⟩ := h
    have : G.mkSlice (.slice g a b) 0 none = .slice g a b := by simp [G.mkSlice]
    rw [this, outs_start_slice L n g a b ha hv]
    simp [takeOpt]
  · rw [mkSlice_slice g a b c d h, outs_start_slice L n g (a + c) _ hc hv, slice_slice_list]

/-- `skip(2).take(3)` of the counter is `2, 3, 4` (it was `2 … 6`), `take(3).skip(5)` is empty -/
example : outs none 9 ((((G.fromCount none).skip 2).take 3).start none) =
    [.val (.int 2), .val (.int 3), .val (.int 4)] := by rfl
example : outs none 9 ((((G.fromCount none).take 3).skip 5).start none) = [] := by rfl

/-- a chain is lazy in its parts: as long as the current part has not ended, the chain is that part
(nothing of the later parts is started; an infinite part is no obstacle — repaired in 5b71e05) -/
theorem chain_lazy (L : Option Nat) (rest : List G) (k : Nat) (cur c : It) (h : after L k cur = some c) :
    outs L k (.chain cur rest) = outs L k cur ∧ after L k (.chain cur rest) = some (.chain c rest) := by
  have := chain_running L rest k cur c h
  exact ⟨this.2, this.1⟩

/-- `add` (`XGenerator::chain`, :470-490) splices the parts of its operands; when the parts denote
finite lists the chain denotes their concatenation -/
theorem chain_den (L : Option Nat) (a b : G) (xs ys : List Item)
    (ha : DenParts L a.parts xs) (hb : DenParts L b.parts ys) :
    Den L ((a.mkChain b).start L) (xs ++ ys) := by
  rw [mkChain_parts, G.start]
  simpa using den_chain_parts L _ _ _ _ (den_arr_nil L) (denParts_append ha hb)

example : DenParts none (G.fromArr [.int 1]).parts [.val (.int 1)] := by
  have h : Den none ((G.fromArr [.int 1]).start none) [.val (.int 1)] := by
    rw [G.start]; exact den_arr none [.int 1]
  simpa [G.parts] using DenParts.cons h DenParts.nil

/-- finite denotations compose (array source, map, filter), and `to_array` returns exactly the
denoted list when the consumer's budget covers it -/
theorem den_fromArr (L : Option Nat) (vs : List V) : Den L ((G.fromArr vs).start L) (vs.map Item.val) := by
  rw [G.start]; exact den_arr L vs

theorem den_map_g (L : Option Nat) (g : G) (f : F) (xs : List Item) (h : Den L (g.start L) xs) :
    Den L ((G.map g f).start L) (xs.map (mapItem f)) := by
  rw [G.start]; exact den_map f h

theorem den_filter_g (L : Option Nat) (g : G) (p : P) (xs : List Item) (h : Den L (g.start L) xs)
    (hc : (Permits.ofLimit L).covers xs.length) :
    Den L ((G.filter g p).start L) (xs.filterMap (filt p)) := by
  rw [G.start]; exact den_filter p _ h hc

theorem toArray_den (L : Option Nat) (g : G) (vs : List V) (h : Den L (g.start L) (vs.map Item.val))
    (hc : (Permits.ofLimit L).covers vs.length) :
    ∃ fuel, toArray L fuel g = .ok vs := by
  have hb : Den L (g.iter L) (vs.map Item.val) := den_budget _ h (by simpa using hc)
  obtain ⟨n, h1, h2⟩ := hb
  exact ⟨n, by simpa [toArray] using drain_den L n _ vs [] h1 h2⟩

/-- a generator value holds no cursor: every consumption starts the same iterator, so consuming the
same value again gives the same result (the tie consumes every pipeline twice) -/
theorem reiterable (L : Option Nat) (fuel : Nat) (g : G) (r : Res (List V))
    (h : toArray L fuel g = r) : toArray L fuel g = r ∧ g.iter L = .budget (g.start L) (Permits.ofLimit L) :=
  ⟨h, rfl⟩

/-- laziness, state form: after `n` steps `map` holds its source after exactly `n` steps -/
theorem lazy_prefix_map (L : Option Nat) (f : F) (n : Nat) (g : G) :
    after L n ((G.map g f).start L) = (after L n (g.start L)).map (fun s => .map s f) := by
  rw [G.start]; exact after_map L f n _

/-- … and so does `filter` -/
theorem lazy_prefix_filter (L : Option Nat) (p : P) (n : Nat) (g : G)
    (hc : (Permits.ofLimit L).covers (outs L n (g.start L)).length) :
    ∃ perm', after L n ((G.filter g p).start L) = (after L n (g.start L)).map (fun s => .filter s p perm') := by
  rw [G.start]; exact after_filter L p n _ _ hc

/-- no adaptor runs ahead of the steps it is given: `n` steps yield at most `n` elements -/
theorem outs_length (L : Option Nat) (n : Nat) (it : It) : (outs L n it).length ≤ n :=
  outs_length_le L n it


/-- `with_count`: every element with the number of times it has been seen so far -/
theorem iter_den_withCount (L : Option Nat) (eq : V → V → Bool) (n : Nat) (g : G) :
    outs L n ((G.withCount g eq).start L) = wcItems eq [] (outs L n (g.start L)) := by
  rw [G.start]; exact outs_withCount L eq n _ []

/-- `windows`: the sliding windows of the elements pulled so far (one window per element once full) -/
theorem iter_den_windows (L : Option Nat) (size : Nat) (n : Nat) (g : G)
    (hc : (Permits.ofLimit L).covers (outs L n (g.start L)).length) :
    outs L n ((G.windows g size).start L) = winItems size [] (outs L n (g.start L)) := by
  rw [G.start]; exact outs_windows L size n _ [] _ hc

/-- `group` over a finite generator: the groups closed while it runs, then the last group -/
theorem iter_den_group (L : Option Nat) (eq : P2) (g : G) (xs : List Item) (h : Den L (g.start L) xs)
    (hc : (Permits.ofLimit L).covers (xs.length + 1)) :
    Den L ((G.group g eq).start L) ((grpRun eq [] xs).1 ++ flushGroup (grpRun eq [] xs).2) := by
  obtain ⟨n, h1, h2⟩ := h
  rw [G.start]; exact den_group L eq n _ [] _ xs h1 h2 hc

/-- `repeat`: every pass over the generator value sees the same elements (re-iterability inside the
machine): the repetition of a non-empty finite generator is that list again and again … -/
theorem repeat_den (L : Option Nat) (g : G) (xs : List Item) (h : Den L (g.start L) xs) (hne : xs ≠ []) (m : Nat) :
    ∃ k, outs L k ((G.repeat_ g).start L) = (List.replicate m xs).flatten := by
  rw [G.start]
  obtain ⟨k, hk, _⟩ := repeat_cycles L g xs h hne m
  exact ⟨k, hk⟩

/-- … and the repetition of an empty generator is empty (repaired in 44f5035) -/
theorem repeat_empty_den (L : Option Nat) (g : G) (h : Den L (g.start L) []) :
    Den L ((G.repeat_ g).start L) [] := by
  rw [G.start]; exact repeat_empty L g h

/-- `zip(a, b)`: a round takes exactly one element from each part — a value or an error value — and yields
the pair, or the error; either way both parts have advanced by one: the parts stay aligned (182c226) -/
theorem zip_round_aligned (L : Option Nat) (a a1 a' b b1 b' : It) (ja jb : Nat) (x y : Item)
    (ha : skipsTo L ja a a1) (hxa : step L a1 = .yield x a') (hx : x ≠ .viol)
    (hb : skipsTo L jb b b1) (hyb : step L b1 = .yield y b') (hy : y ≠ .viol) :
    outs L (ja + (1 + (jb + 1))) (.zip [a, b] [] [] false) = [pairItem x y] ∧
    after L (ja + (1 + (jb + 1))) (.zip [a, b] [] [] false) = some (.zip [a', b'] [] [] false) :=
  zip_round L a a1 a' b b1 b' ja jb x y ha hxa hx hb hyb hy

/-- … and the zip ends with its first part, without touching the second -/
theorem zip_ends_with_first (L : Option Nat) (a a1 b : It) (ja : Nat)
    (ha : skipsTo L ja a a1) (hda : step L a1 = .done) :
    outs L (ja + 1) (.zip [a, b] [] [] false) = [] ∧ after L (ja + 1) (.zip [a, b] [] [] false) = none :=
  zip_ends_first L a a1 b ja ha hda

/-- the witness of the alignment defect: an error in the first part no longer shifts the second -/
example : outs none 6 ((G.zip [.map (.fromArr [.int 0, .int 1]) (fun | .val (.int 0) => .err | x => x),
    .fromCount none]).start none) = [.err, .val (.tup [.int 1, .int 1])] := by rfl


/-! ### consumers against the denoted list (a finite generator denoting the values `vs`, a budget that covers them) -/

theorem iter_den_of_den (L : Option Nat) (g : G) (vs : List V) (h : Den L (g.start L) (vs.map Item.val))
    (hc : (Permits.ofLimit L).covers vs.length) : Den L (g.iter L) (vs.map Item.val) :=
  den_budget _ h (by simpa using hc)

/-- `len` is the length -/
theorem len_den (L : Option Nat) (g : G) (vs : List V) (h : Den L (g.start L) (vs.map Item.val))
    (hc : (Permits.ofLimit L).covers vs.length) : ∃ fuel, len L fuel g = .ok vs.length := by
  obtain ⟨n, h1, h2⟩ := iter_den_of_den L g vs h hc
  exact ⟨n, by simpa [len] using lenLoop_den L n _ vs 0 h1 h2⟩

/-- `last` is the last element, an error value for the empty generator -/
theorem last_den (L : Option Nat) (g : G) (vs : List V) (h : Den L (g.start L) (vs.map Item.val))
    (hc : (Permits.ofLimit L).covers vs.length) :
    ∃ fuel, last L fuel g = (match vs.getLast? with | some v => .ok v | none => .err) := by
  obtain ⟨n, h1, h2⟩ := iter_den_of_den L g vs h hc
  refine ⟨n, ?_⟩
  rw [last, lastLoop_den L n _ vs none h1 h2, lastSpec_eq]
  cases vs.getLast? <;> rfl

/-- `get(i)` is the element at index `i`, an error value for a negative or too large index -/
theorem get_den (L : Option Nat) (g : G) (vs : List V) (h : Den L (g.start L) (vs.map Item.val))
    (hc : (Permits.ofLimit L).covers vs.length) (idx : Int) :
    ∃ fuel, get L fuel g idx =
      (if idx < 0 then .err else match vs[idx.toNat]? with | some v => .ok v | none => .err) := by
  obtain ⟨n, h1, h2⟩ := iter_den_of_den L g vs h hc
  refine ⟨n, ?_⟩
  unfold Gen.get
  split
  · rfl
  · exact getLoop_den L n _ vs _ h1 h2

/-- `nth(k, p)` is the `k`-th element satisfying `p`, `none` when there are fewer -/
theorem nth_den (L : Option Nat) (g : G) (vs : List V) (q : V → Bool) (k : Nat)
    (h : Den L (g.start L) (vs.map Item.val)) (hc : (Permits.ofLimit L).covers vs.length) :
    ∃ fuel, nth L fuel g k (pureP q) = .ok ((vs.filter q)[k]?) := by
  obtain ⟨n, h1, h2⟩ := iter_den_of_den L g vs h hc
  refine ⟨n, ?_⟩
  have hk : ¬ ((k : Int) < 0) := by omega
  simp only [nth, hk, ↓reduceIte, Int.toNat_natCast]
  exact nthLoop_den L q n _ vs k h1 h2

/-- the permit accounting of `nth`: every inspected element takes a permit of the consumer's budget; a search
that finds nothing among the first `l` elements of the counter ends in the MaximumSearch violation -/
theorem nth_takes_permits (l k : Nat) :
    nth (some l) (l + 2) (.fromCount none) k (fun _ => .f) = .viol := by
  have hk : ¬ ((k : Int) < 0) := by omega
  simp only [nth, hk, ↓reduceIte, Int.toNat_natCast, G.iter, G.start, Permits.ofLimit]
  exact nthLoop_permits (some l) k l 0

/-- `reduce(init, f)` is `aggregate(init, f).last()` (`include.rs:210`): for a finite generator the last state of
the scan — the fold -/
theorem reduce_den (L : Option Nat) (g : G) (init : Item) (f : F2) (ws : List V)
    (h : Den L ((G.aggregate g init f).start L) (ws.map Item.val))
    (hc : (Permits.ofLimit L).covers ws.length) :
    ∃ fuel, reduce L fuel g init f = (match ws.getLast? with | some v => .ok v | none => .err) :=
  last_den L (.aggregate g init f) ws h hc

/-! ### library compositions -/

/-- `distinct` (with_count / filter / map): lock-step over its source, and on values it keeps exactly the
elements that match none of the elements kept before -/
theorem iter_den_distinct (L : Option Nat) (eq : V → V → Bool) (n : Nat) (g : G)
    (hc : (Permits.ofLimit L).covers (outs L n (g.start L)).length) :
    outs L n ((G.distinct g eq).start L) =
      ((wcItems eq [] (outs L n (g.start L))).filterMap (filt firstP)).map (mapItem projF) := by
  have hlen : (outs L n ((G.withCount g eq).start L)).length ≤ (outs L n (g.start L)).length := by
    rw [iter_den_withCount]
    generalize outs L n (g.start L) = xs
    generalize ([] : List (V × Nat)) = seen
    induction xs generalizing seen with
    | nil => simp [wcItems]
    | cons x xs ih => cases x <;> simp [wcItems, ih]
  unfold G.distinct
  rw [iter_den_map, iter_den_filter _ _ _ _ (covers_mono hc hlen), iter_den_withCount]
  rfl

theorem distinct_values (eq : V → V → Bool) (vs : List V) :
    ((wcItems eq [] (vs.map Item.val)).filterMap (filt firstP)).map (mapItem projF) =
      (dedupBy eq [] vs).map Item.val := by
  simpa using distinct_list eq vs [] (by simp)

/-- `flatten` of a sequence of finite generators (`reduce([].to_generator(), add)`, `include.rs:1367`) denotes
the concatenation -/
theorem flatten_den (L : Option Nat) (gs : List G) (xss : List (List Item))
    (hl : gs.length = xss.length)
    (h : ∀ i (h : i < gs.length) (h' : i < xss.length), DenParts L gs[i].parts xss[i]) :
    Den L ((G.flattenAll gs).start L) xss.flatten := by
  have hparts := denParts_flatMap L gs xss hl h
  cases hgs : gs with
  | nil =>
    subst hgs
    cases xss with
    | nil => simpa [G.flattenAll, G.start] using den_arr_nil L
    | cons _ _ => simp at hl
  | cons g gs' =>
    have hne : gs ≠ [] := by simp [hgs]
    unfold G.flattenAll
    rw [← hgs, foldl_mkChain_chain gs _ hne, G.start]
    have harr : DenParts L (G.fromArr []).parts [] := by
      have h0 : Den L ((G.fromArr []).start L) [] := by rw [G.start]; exact den_arr_nil L
      simpa [G.parts] using DenParts.cons h0 DenParts.nil
    simpa using den_chain_parts L _ _ _ _ (den_arr_nil L) (denParts_append harr hparts)

/-- … but it is not lazy in its *outer* generator: `reduce` over an infinite generator never returns a value,
whatever is folded (here without a search limit; with one it ends in MaximumSearch) — the known finding
`lazy:flatten:outer-infinite`, as a theorem about `last ∘ aggregate` -/
theorem reduce_infinite_never_returns (f : F2) (init : Item) (fuel : Nat) (v : V) :
    reduce none fuel (.fromCount none) init f ≠ .ok v := by
  simp only [reduce, last, G.iter, G.start, Permits.ofLimit]
  exact lastLoop_infinite f fuel 0 init true none v


/-! ### product (the odometer of `XrayModel/GenProduct.lean`)

`Lists L fuel xs it`: calling the part's `next()` repeatedly yields exactly the values `xs`, then the end
(`lists_arr`: arrays do).  `cart` is the usual lexicographic product (last factor fastest, `itertools.product`). -/

/-- **the product denotes the lexicographic product**: for every arity and all parts denoting finite lists, the
first `n` elements of the product generator are the first `n` tuples of `cart`, in order — for every `n`, so the
whole (finite) stream; the parts are started over from the generator value at every carry -/
theorem iter_den_product (L : Option Nat) (fuel : Nat) (ps : List (G × List V)) (n : Nat)
    (h : ∀ p ∈ ps, Lists L fuel p.2 (p.1.start L)) :
    ptake L fuel n (pstart L (ps.map Prod.fst)) = some (((cart (ps.map Prod.snd)).take n).map V.tup) := by
  rw [ptake_cartR L fuel ps n h, cart_eq_cartR, List.map_take, List.map_take, List.map_map]
  rfl

/-- instance: a product of arrays -/
theorem iter_den_product_arrays (L : Option Nat) (fuel : Nat) (xss : List (List V)) (n : Nat) :
    ptake L (fuel + 1) n (pstart L (xss.map G.fromArr)) = some (((cart xss).take n).map V.tup) := by
  have := iter_den_product L (fuel + 1) (xss.map (fun xs => (G.fromArr xs, xs))) n (by
    intro p hp
    obtain ⟨xs, _, rfl⟩ := List.mem_map.mp hp
    simpa [G.start] using lists_arr L fuel xs)
  simpa [List.map_map, Function.comp_def] using this

/-- the product ends after the last tuple (taking more than there are changes nothing) -/
theorem product_ends (L : Option Nat) (fuel : Nat) (xss : List (List V)) (n : Nat) (hn : (cart xss).length ≤ n) :
    ptake L (fuel + 1) n (pstart L (xss.map G.fromArr)) = some ((cart xss).map V.tup) := by
  rw [iter_den_product_arrays, List.take_of_length_le hn]

/-- laziness in the last factor (take-n form, the last factor may be infinite): the first `n` tuples need the
heads of the other parts and exactly the first `n` elements `f 0 … f (n-1)` of the last part -/
theorem product_lazy_last (L : Option Nat) (fuel : Nat) (ps : List (G × List V)) (glast : G) (f : Nat → V) (n : Nat)
    (h : ∀ p ∈ ps, Lists L fuel p.2 (p.1.start L) ∧ p.2 ≠ []) (hs : Strm L fuel n f (glast.start L)) :
    ptake L fuel n (pstart L (ps.map Prod.fst ++ [glast])) =
      some ((List.range n).map (fun k => V.tup ((ps.map Prod.snd).filterMap List.head? ++ [f k]))) :=
  ptake_lazy_last L fuel ps glast f n h hs

/-- the counter as last factor: `[1,2] × count()` starts `(1,0), (1,1), (1,2), …` for every `n` -/
theorem strm_count (L : Option Nat) (fuel : Nat) : ∀ (n i : Nat),
    Strm L (fuel + 1) n (fun k => V.int ((i + k : Nat) : Int)) (.count i none) := by
  intro n
  induction n with
  | zero => intro i; trivial
  | succ n ih =>
    intro i
    refine ⟨.count (i + 1) none, by simp [next, step], ?_⟩
    have := ih (i + 1)
    simpa [Nat.add_assoc, Nat.add_comm 1] using this

/-- a product with an empty part is empty -/
theorem product_empty_part (L : Option Nat) (fuel : Nat) (xss : List (List V)) (h : [] ∈ xss) :
    pnext L (fuel + 1) (pstart L (xss.map G.fromArr)) = .done := by
  obtain ⟨its, hi⟩ := pfirsts_empty L fuel xss [] [] h
  simp [pnext, pstart, startAll_arrs, hi]

/-- the first element of a product of non-empty arrays is the tuple of their first elements, and every part
has advanced by exactly one -/
theorem product_first (L : Option Nat) (fuel : Nat) (xss : List (List V)) (h : [] ∉ xss) :
    pnext L (fuel + 1) (pstart L (xss.map G.fromArr)) =
      .item (.val (.tup (xss.filterMap List.head?)))
        ⟨xss.map G.fromArr, xss.map (fun xs => It.arr xs.tail), some (xss.filterMap List.head?)⟩ := by
  simp [pnext, pstart, startAll_arrs, pfirsts_heads L fuel xss [] [] h]

/-- `[1,2] × [5,6] × [10,20]`: all eight tuples, in order (the carry from the last part crosses the middle one) -/
theorem product_carry_crosses_two_parts :
    ptake none 3 20 (pstart none [.fromArr [.int 1, .int 2], .fromArr [.int 5, .int 6], .fromArr [.int 10, .int 20]]) =
      some ([[1, 5, 10], [1, 5, 20], [1, 6, 10], [1, 6, 20], [2, 5, 10], [2, 5, 20], [2, 6, 10], [2, 6, 20]].map
        (fun (xs : List Int) => V.tup (xs.map V.int))) := by rfl

/-- `2 × 1 × 3 × 2`: twelve tuples (a one-element part in the middle) -/
theorem product_with_singleton_part :
    (ptake none 3 20 (pstart none [.fromArr [.int 1, .int 2], .fromArr [.int 7], .fromArr [.int 1, .int 2, .int 3],
      .fromArr [.int 8, .int 9]])).map List.length = some 12 := by rfl


/-! ### library functions of `include.rs` (compositions of the natives), and consumers that stop early -/

/-- `first(p)` is `List.find?` -/
theorem first_den (L : Option Nat) (g : G) (vs : List V) (q : V → Bool)
    (h : Den L (g.start L) (vs.map Item.val)) (hc : (Permits.ofLimit L).covers vs.length) :
    ∃ fuel, first L fuel g (pureP q) = .ok (vs.find? q) := by
  obtain ⟨fuel, hf⟩ := nth_den L g vs q 0 h hc
  refine ⟨fuel, ?_⟩
  have : (vs.filter q)[0]? = vs.find? q := by
    rw [← List.head?_eq_getElem?, List.head?_filter]
  simpa [first, this] using hf

/-- `any(p)` is `List.any` -/
theorem any_den (L : Option Nat) (g : G) (vs : List V) (q : V → Bool)
    (h : Den L (g.start L) (vs.map Item.val)) (hc : (Permits.ofLimit L).covers vs.length) :
    ∃ fuel, any L fuel g (pureP q) = .ok (vs.any q) := by
  obtain ⟨fuel, hf⟩ := first_den L g vs q h hc
  refine ⟨fuel, ?_⟩
  simp only [first] at hf
  simp only [any, hf, Res.ok.injEq]
  rw [Bool.eq_iff_iff]
  simp [List.find?_isSome, List.any_eq_true]

/-- `all(p)` is `List.all` (through `!any(!p)`) -/
theorem all_den (L : Option Nat) (g : G) (vs : List V) (q : V → Bool)
    (h : Den L (g.start L) (vs.map Item.val)) (hc : (Permits.ofLimit L).covers vs.length) :
    ∃ fuel, all L fuel g (pureP q) = .ok (vs.all q) := by
  obtain ⟨fuel, hf⟩ := first_den L g vs (fun v => !q v) h hc
  refine ⟨fuel, ?_⟩
  simp only [first] at hf
  simp only [all, notP_pureP, hf, Res.ok.injEq]
  cases hall : vs.all q with
  | true =>
    have : vs.find? (fun v => !q v) = none := by
      rw [List.find?_eq_none]; intro x hx; simpa using (List.all_eq_true.mp hall) x hx
    simp [this]
  | false =>
    have : (vs.find? (fun v => !q v)).isSome = true := by
      rw [List.find?_isSome]
      have : ¬ ∀ x ∈ vs, q x = true := by simpa [List.all_eq_true] using hall
      simpa using this
    simp [this]

/-- `count(p)` is the length of `List.filter` -/
theorem count_den (L : Option Nat) (g : G) (vs : List V) (q : V → Bool)
    (h : Den L (g.start L) (vs.map Item.val)) (hc : (Permits.ofLimit L).covers vs.length) :
    ∃ fuel, countIf L fuel g (pureP q) = .ok (vs.filter q).length := by
  have hf := den_filter_g L g (pureP q) _ h (by simpa using hc)
  have e : (vs.map Item.val).filterMap (filt (pureP q)) = (vs.filter q).map Item.val := filterMap_filt_vals q vs
  rw [e] at hf
  exact len_den L (.filter g (pureP q)) (vs.filter q) hf (covers_mono hc (List.length_filter_le _ _))

/-- `reduce(init, f)` is `List.foldl` — and so are `sum`, `product`, `max`, `min` (`include.rs:222,1323-1335`), which are
`reduce` with `add` / `mul` / `max` / `min` -/
theorem reduce_fold (L : Option Nat) (g : G) (vs : List V) (a : V) (f : V → V → V)
    (h : Den L (g.start L) (vs.map Item.val)) (hc : (Permits.ofLimit L).covers (vs.length + 1)) :
    ∃ fuel, reduce L fuel g (.val a) (pureF2 f) = .ok (vs.foldl f a) := by
  have hd : Den L ((G.aggregate g (.val a) (pureF2 f)).start L) ((a :: scanV f a vs).map Item.val) := by
    rw [G.start]
    have := den_aggregate (pureF2 f) (.val a) h
    rwa [scanItems_pure] at this
  have hlen : (a :: scanV f a vs).length = vs.length + 1 := by
    have : ∀ (vs : List V) (a : V), (scanV f a vs).length = vs.length := by
      intro vs; induction vs with
      | nil => intro a; rfl
      | cons v vs ih => intro a; simp [scanV, ih]
    simp [this]
  obtain ⟨fuel, hf⟩ := reduce_den L g (.val a) (pureF2 f) (a :: scanV f a vs) hd (by rw [hlen]; exact hc)
  exact ⟨fuel, by rw [hf, scanV_last]⟩

/-- `repeat(g, n)` denotes `n` copies of the list -/
theorem repeatN_den (L : Option Nat) (g : G) (xs : List Item) (n : Nat) (h : DenParts L g.parts xs) :
    Den L ((g.repeatN n).start L) (List.replicate n xs).flatten := by
  have := flatten_den L (List.replicate n g) (List.replicate n xs) (by simp) (by
    intro i h1 h2; simpa using h)
  simpa [G.repeatN] using this

/-- `unzip` / `keys` / `values`: component `i` of every tuple, in lock-step -/
theorem iter_den_component (L : Option Nat) (i : Nat) (n : Nat) (g : G) :
    ∃ f, outs L n ((g.component i).start L) = (outs L n (g.start L)).map (mapItem f) ∧
      ∀ vs v, vs[i]? = some v → f (.val (.tup vs)) = .val v := by
  refine ⟨_, iter_den_map L _ n g, ?_⟩
  intro vs v hv
  simp [hv]

/-- consumers force no more than they need: if the first steps of the iterator yield the values `pre` — whatever
follows, the generator may be infinite — and the `k`-th match lies among them, `nth` (hence `first`, `any`) answers
within those steps … -/
theorem nth_needs_prefix_only (L : Option Nat) (q : V → Bool) (n : Nat) (it : It) (pre : List V) (k : Nat)
    (ho : outs L n it = pre.map Item.val) (hk : k < (pre.filter q).length) :
    nthLoop L (pureP q) n it k = .ok ((pre.filter q)[k]?) :=
  nthLoop_prefix L q n it pre k ho hk

/-- … and `get(i)` within the steps that yield the first `i + 1` elements -/
theorem get_needs_prefix_only (L : Option Nat) (n : Nat) (it : It) (pre : List V) (idx : Nat)
    (ho : outs L n it = pre.map Item.val) (hk : idx < pre.length) :
    getLoop L n it idx = (match pre[idx]? with | some v => .ok v | none => .err) :=
  getLoop_prefix L n it pre idx ho hk

/-- `first` over the infinite counter: found after 4 steps, the rest of the stream is never touched -/
example : first none 10 (.fromCount none) (pureP (fun | .int i => i == 3 | _ => false)) = .ok (some (.int 3)) := by rfl


/-! ### enumerate, aggregate / reduce without an initial state -/

/-- `enumerate(g, start, step)` over a finite generator: the elements paired with `start, start + step, …`; the counter
is pulled once more than the generator (the look-ahead of one with which the zip notices the end) -/
theorem iter_den_enumerate (L : Option Nat) (g : G) (start step : Int) (xs : List Item)
    (h : Den L (g.start L) xs) (hv : noViol xs) :
    Den L ((g.enumerate start step).start L) (enumItems (affIdx start step) 0 xs) := by
  have := enumerate_den_aux L (affIdx start step) (by intro i; simp [affIdx]) xs 0 (g.start L) h hv
  simpa [G.enumerate, G.start, G.startAll] using this

example : enumItems (affIdx 10 2) 0 [.val (.int 7), .val (.int 8)] =
    [.val (.tup [.int 10, .int 7]), .val (.tup [.int 12, .int 8])] := by rfl

/-- `aggregate(g, f)` without an initial state: the first element, then the running fold -/
theorem iter_den_aggregate1 (L : Option Nat) (g : G) (f : V → V → V) (vs : List V)
    (h : Den L (g.start L) (vs.map Item.val)) (hc : (Permits.ofLimit L).covers 1) :
    Den L ((g.aggregate1 (pureF2 f)).start L) ((scan1 f vs).map Item.val) :=
  aggregate1_den L g f vs h hc

/-- `reduce(g, f)` without an initial state: the fold from the first element — and for the empty generator the
error value ("generator is empty") -/
theorem reduce1_den (L : Option Nat) (g : G) (f : V → V → V) (vs : List V)
    (h : Den L (g.start L) (vs.map Item.val)) (hc : (Permits.ofLimit L).covers (vs.length + 1)) :
    ∃ fuel, reduce1 L fuel g (pureF2 f) =
      (match vs with | [] => .err | v :: rest => .ok (rest.foldl f v)) := by
  have h1 : (Permits.ofLimit L).covers 1 := covers_mono hc (by omega)
  have hd := aggregate1_den L g f vs h h1
  have hlen : (scan1 f vs).length = vs.length := by
    cases vs with
    | nil => rfl
    | cons v rest =>
      have : ∀ (vs : List V) (a : V), (scanV f a vs).length = vs.length := by
        intro vs; induction vs with
        | nil => intro a; rfl
        | cons v vs ih => intro a; simp [scanV, ih]
      simp [scan1, this]
  obtain ⟨fuel, hf⟩ := last_den L (g.aggregate1 (pureF2 f)) (scan1 f vs) hd (by rw [hlen]; exact covers_mono hc (by omega))
  refine ⟨fuel, ?_⟩
  rw [reduce1, hf]
  cases vs with
  | nil => rfl
  | cons v rest => rw [scan1_last]

/-- `chunks(n)` (library code: map(some) . add([none]) . aggregate . filter . map, `include.rs:165`) over a finite generator
of values denotes the chunks of its list: full chunks as soon as they are full, a shorter last chunk at the end -/
theorem iter_den_chunks (L : Option Nat) (g : G) (n : Nat) (vs : List V)
    (h : Den L (g.start L) (vs.map Item.val)) (hc : (Permits.ofLimit L).covers (vs.length + 2)) :
    Den L ((g.chunks n).start L) ((chunkGo n [] vs).map (fun c => Item.val (.seq c))) :=
  chunks_den L g n vs h hc

example : chunkGo 3 [] ([0, 1, 2, 3, 4, 5, 6].map V.int) =
    [[0, 1, 2].map V.int, [3, 4, 5].map V.int, [6].map V.int] := by rfl
example : chunkGo 2 [] ([0, 1, 2, 3].map V.int) = [[0, 1].map V.int, [2, 3].map V.int] := by rfl


/-! ### re-iteration, for every generator expression at once -/

/-- a generator value is an immutable term and `start` a function of it: whatever was consumed before, iterating any
generator expression again starts the same iterator and yields the same stream — for every expression of the model's
syntax, every limit, every number of steps, and through every consumer -/
theorem reiterable_all (g : G) (L : Option Nat) (k n : Nat) (consumed : Option It)
    (_h : consumed = after L k (g.start L)) :
    outs L n (g.start L) = outs L n (g.start L) ∧ g.iter L = .budget (g.start L) (Permits.ofLimit L) :=
  ⟨rfl, rfl⟩

/-- the two places in which the machine itself iterates a generator value again — the restart of `repeat`, the next
part of a chain — go through `start`: no consumed iterator is ever re-used -/
theorem restarts_use_start (L : Option Nat) (g : G) (cur : It) (rest : List G) (h : step L cur = .done) :
    step L (.repeat_ g cur false) = .skip (.repeat_ g (g.start L) true) ∧
    step L (.chain cur (g :: rest)) = .skip (.chain (g.start L) rest) := by
  constructor
  · rw [step]; simp [h]
  · rw [step_chain, h]

/-! ### the needed prefix (the theorem behind the laziness sweep) -/

/-- for every pipeline of unary adaptors (map, filter, slice, take_while, skip_until, aggregate, with_count, group,
windows — in any order and number): if two sources behave alike for `n` steps, so do the pipelines over them; the modulus
is the identity: `n` steps of the pipeline need `n` steps of the source -/
theorem needed_prefix (L : Option Nat) (As : List UA) (n : Nat) (g g' : G)
    (h : Agree L n (g.start L) (g'.start L)) :
    outs L n ((pipeG As g).start L) = outs L n ((pipeG As g').start L) := by
  rw [start_pipeG, start_pipeG]
  exact (agree_outs L n _ _ (agree_pipe L As n _ _ h)).1

/-- in particular a source that is poisoned (or longer, or different in any way) beyond the first `n` elements gives the
same first `n` steps of every pipeline — hence the same first elements — as the source cut there -/
theorem needed_prefix_arrays (L : Option Nat) (As : List UA) (pre r1 r2 : List V) (n : Nat) (hn : n ≤ pre.length) :
    outs L n ((pipeG As (.fromArr (pre ++ r1))).start L) = outs L n ((pipeG As (.fromArr (pre ++ r2))).start L) :=
  needed_prefix L As n _ _ (by simpa [G.start] using agree_arr_prefix L pre r1 r2 n hn)

/-- … and through the consumer's budget as well -/
theorem needed_prefix_iter (L : Option Nat) (As : List UA) (n : Nat) (g g' : G)
    (h : Agree L n (g.start L) (g'.start L)) :
    outs L n ((pipeG As g).iter L) = outs L n ((pipeG As g').iter L) := by
  simp only [G.iter, start_pipeG]
  exact (agree_outs L n _ _ (agree_budget L _ n _ _ (agree_pipe L As n _ _ h))).1

end XrayModel.C16
