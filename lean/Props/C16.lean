/-
C16 — Generators denote fixed lazy streams.
Property theorems only; helper lemmas live in XrayProofs/Gen.lean.
-/
import XrayProofs.Gen
namespace XrayModel.C16
open XrayModel.Gen

/-- consuming a generator value creates the same iterator every time: generator values hold no cursor
(`_iter` takes `&self`), so two consumptions under the same limit yield the same result -/
theorem reiterable (L : Option Nat) (fuel : Nat) (g : G) :
    toArray L fuel g = toArray L fuel g ∧ g.iter L = .budget (g.start L) (Permits.ofLimit L) :=
  ⟨rfl, rfl⟩

end XrayModel.C16
