/-
C05 — Overload resolution is ranked, unambiguous and stable.
Property theorems only.  `resolve` (XrayModel/Overload.lean) mirrors the candidate loop and the decision of
`CompilationScope::resolve_overload`.  `NoSC cs args`: no candidate that matches carries the library-internal
`short_circuit_overloads` flag (a flagged match returns at once, in list order, by design; only three overloads of
the standard library for `unknown`-typed arguments carry it).  `inBucket u args k c`: `c` matches `args` and is
pushed to bucket `k` (0 non-generic static, 1 generic static, 2 dynamic; 0 and 1 swap when an argument type
contains `unknown`).
-/
import XrayProofs.Overload
namespace XrayModel.C05
open XrayModel

/-- **stable under declaration order**: permuting the visible candidates changes neither the winner nor the error -/
theorem resolve_perm (cs cs' : List Cand) (args : List Ty) (hp : cs.Perm cs') (h : NoSC cs args) :
    resolve cs args = resolve cs' args := by
  rw [resolve_eq_filter cs args h, resolve_eq_filter cs' args (noSC_perm hp h)]
  exact decide3_perm _ (hp.filter _) (hp.filter _) (hp.filter _)

/-- **irrelevance of non-matching overloads**: a candidate that does not match the arguments changes nothing,
wherever it is declared (no side condition; holds with short-circuit candidates as well) -/
theorem resolve_irrelevant (c : Cand) (l1 l2 : List Cand) (args : List Ty) (hc : c.matches args = false) :
    resolve (l1 ++ c :: l2) args = resolve (l1 ++ l2) args := by
  unfold resolve
  exact resolveLoop_skip _ _ c hc l1 l2 [] [] []

/-- **independent of the names of generic parameters**: renaming the generic parameters of the candidates by an
injective map changes nothing, for call sites with fully known argument types (no generic parameter, no function
name among the argument types) -/
theorem resolve_alpha (σ : String → String) (hσ : Function.Injective σ) (cs : List Cand) (args : List Ty)
    (hg : groundList args = true) : resolve (cs.map (Cand.rename σ)) args = resolve cs args := by
  unfold resolve
  exact resolveLoop_rename σ hσ _ args hg cs [] [] []

/-- **the visible set is the lexically enclosing declarations**: unless a `forward fn` declaration is still
unimplemented, the candidates at a call site are all overloads registered in the enclosing scopes, innermost first —
whatever the call site is (after the declarations, inside the body of one of the overloads, inside a sibling function or
a lambda: scopes that register no overload of the name contribute nothing). With `resolve_perm` the outcome then does not
depend on how the overloads are spread over the scope levels. -/
theorem visible_set (levels : List ScopeLevel) (h : ∀ l ∈ levels, ∀ c ∈ l.funcs, c.pending = false) :
    (getItem levels).getD [] = levels.flatMap (·.funcs) :=
  getItem_flat levels h

/-- the only overload ever hidden is the function's own pending forward declaration: in the body of `fn f` implementing
`forward fn f`, a recursive call sees `f` once (example: the forward declaration, id 1, is skipped; the identical
overload of an outer scope, id 3 - even a pending forward declaration there - stays visible and makes the call
ambiguous) -/
example :
    let spec : FuncSpec := { gens := none, ps := [.int], nreq := 1, ret := .int }
    let self_ : Cand := { id := 2, spec := spec, kind := .static }
    let fwd : Cand := { id := 1, spec := spec, kind := .static, pending := true, height := 1 }
    let outer : Cand := { id := 3, spec := spec, kind := .static, pending := true, height := 0 }
    resolveAt [{ funcs := [self_], recourse := some spec.xtype, height := 2 }, { funcs := [fwd], height := 1 }] [.int]
      = .ok 2 ∧
    resolveAt [{ funcs := [self_], recourse := some spec.xtype, height := 2 }, { funcs := [fwd], height := 1 },
        { funcs := [outer], height := 0 }] [.int] = .ambiguous false 2 := by
  decide

/-- the winner is a visible candidate that matches the arguments -/
theorem resolve_sound (cs : List Cand) (args : List Ty) (i : Nat) (h : resolve cs args = .ok i) :
    ∃ c ∈ cs, c.id = i ∧ c.matches args = true := by
  unfold resolve at h
  obtain ⟨c, hc, hid, hm⟩ := resolveLoop_ok _ _ _ _ _ _ i (by simp) h
  simp only [List.not_mem_nil, or_false] at hc
  exact ⟨c, hc, hid, hm⟩

/-- **ranking** (for fully known argument types, `anyUnknown args = false`): the unique matching non-generic
overload wins whatever generic and dynamic overloads match … -/
theorem resolve_rank_exact (cs : List Cand) (args : List Ty) (h : NoSC cs args) (c : Cand)
    (he : cs.filter (inBucket (anyUnknown args) args 0) = [c]) : resolve cs args = .ok c.id := by
  rw [resolve_eq_filter cs args h, he]; rfl

/-- … without a matching non-generic overload the unique matching generic overload wins whatever dynamic
overloads match … -/
theorem resolve_rank_generic (cs : List Cand) (args : List Ty) (h : NoSC cs args) (c : Cand)
    (he : cs.filter (inBucket (anyUnknown args) args 0) = [])
    (hg : cs.filter (inBucket (anyUnknown args) args 1) = [c]) : resolve cs args = .ok c.id := by
  rw [resolve_eq_filter cs args h, he, hg]; rfl

/-- … and a dynamic overload is chosen only when no static overload matches. -/
theorem resolve_rank_dynamic (cs : List Cand) (args : List Ty) (h : NoSC cs args) (c : Cand)
    (he : cs.filter (inBucket (anyUnknown args) args 0) = [])
    (hg : cs.filter (inBucket (anyUnknown args) args 1) = [])
    (hd : cs.filter (inBucket (anyUnknown args) args 2) = [c]) : resolve cs args = .ok c.id := by
  rw [resolve_eq_filter cs args h, he, hg, hd]; rfl

/-- **unambiguous**: a winner exists only if it is the only match of its rank and no better rank has a match -/
theorem resolve_unique (cs : List Cand) (args : List Ty) (h : NoSC cs args) (i : Nat)
    (hr : resolve cs args = .ok i) :
    ∃ c k, c.id = i ∧ k ≤ 2 ∧ cs.filter (inBucket (anyUnknown args) args k) = [c] ∧
      ∀ j, j < k → cs.filter (inBucket (anyUnknown args) args j) = [] := by
  rw [resolve_eq_filter cs args h] at hr
  simp only [decide3] at hr
  split at hr
  · rename_i c he; cases hr
    exact ⟨c, 0, rfl, by omega, he, fun j hj => by omega⟩
  · cases hr
  · rename_i he
    split at hr
    · rename_i c hg; cases hr
      refine ⟨c, 1, rfl, by omega, hg, fun j hj => ?_⟩
      have : j = 0 := by omega
      subst this; exact he
    · cases hr
    · rename_i hg
      split at hr
      · rename_i c hd; cases hr
        refine ⟨c, 2, rfl, by omega, hd, fun j hj => ?_⟩
        have : j = 0 ∨ j = 1 := by omega
        rcases this with rfl | rfl
        · exact he
        · exact hg
      · cases hr
      · cases hr

/-- several equally ranked best matches are an ambiguity error, no match at all is `NoOverload` -/
theorem resolve_errors (cs : List Cand) (args : List Ty) (h : NoSC cs args) :
    (resolve cs args = .noOverload ↔ ∀ c ∈ cs, c.matches args = false) := by
  rw [resolve_eq_filter cs args h]
  constructor
  · intro hr c hc
    cases hm : c.matches args with
    | false => rfl
    | true =>
      exfalso
      obtain ⟨h0, h1, h2⟩ := decide3_noOverload _ _ _ _ hr
      have hmem : ∀ k, c.bucket (anyUnknown args) = k → c ∈ cs.filter (inBucket (anyUnknown args) args k) := by
        intro k hk; simp [List.mem_filter, hc, inBucket, hm, hk]
      rcases bucket_cases c (anyUnknown args) with hb | hb | hb
      · have := hmem 0 hb; rw [h0] at this; simp at this
      · have := hmem 1 hb; rw [h1] at this; simp at this
      · have := hmem 2 hb; rw [h2] at this; simp at this
  · intro hall
    have hf : ∀ k, cs.filter (inBucket (anyUnknown args) args k) = [] := by
      intro k
      rw [List.filter_eq_nil_iff]
      intro c hc; simp [inBucket, hall c hc]
    rw [hf 0, hf 1, hf 2]; rfl

/-- non-vacuity and the repaired witness, on the model: a non-generic, a generic and a dynamic overload all match
`(int)`; the non-generic one (id 1) wins; without it the generic one (id 2) wins over the dynamic one (id 3) -/
example :
    let nonGeneric : Cand := { id := 1, spec := { gens := none, ps := [.int], nreq := 1, ret := .int }, kind := .static }
    let generic : Cand := { id := 2, spec := { gens := some ["T"], ps := [.generic "T"], nreq := 1, ret := .int }, kind := .static }
    let dynamic : Cand := { id := 3, spec := { gens := none, ps := [.int], nreq := 1, ret := .int }, kind := .dynamic }
    resolve [dynamic, generic, nonGeneric] [.int] = .ok 1 ∧ resolve [dynamic, generic] [.int] = .ok 2 ∧
      resolve [generic, generic] [.int] = .ambiguous true 2 ∧ resolve [nonGeneric] [.str] = .noOverload := by
  decide

end XrayModel.C05
