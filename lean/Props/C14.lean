/-
C14 — Integers are exact at every magnitude.
Property theorems only; helper lemmas live in XrayProofs.
`Correct r v` : the operation succeeded (no panic) with a canonical representation denoting `v`.
-/
import XrayProofs.LazyInt
import XrayProofs.IntArith
import XrayProofs.LazyIntOps
import XrayProofs.IntBinom
import XrayProofs.IntDigits
import XrayProofs.IntText
import XrayProofs.IntLib
import XrayProofs.IntBits
import XrayProofs.IntMultinom
namespace XrayModel.C14
open XrayModel LB

/-- addition is exact and canonical for all operands -/
theorem add_correct (a b : LB) (ha : a.wf) (hb : b.wf) : Correct (LB.add a b) (a.den + b.den) :=
  Ops.add_correct a b ha hb

/-- subtraction is exact and canonical for all operands (in particular `Short - Long`) -/
theorem sub_correct (a b : LB) (ha : a.wf) (hb : b.wf) : Correct (LB.sub a b) (a.den - b.den) :=
  Ops.sub_correct a b ha hb

/-- negation, including `-(-2^63)` which leaves the small representation -/
theorem neg_correct (a : LB) (ha : a.wf) : Correct (LB.neg a) (-a.den) :=
  Ops.neg_correct a ha

/-- in-place addition agrees with addition -/
theorem addAssign_correct (a b : LB) (ha : a.wf) (hb : b.wf) :
    Correct (LB.addAssign a b) (a.den + b.den) :=
  Ops.addAssign_correct a b ha hb

/-- equality of representations is equality of the integers they denote -/
theorem eq_iff (a b : LB) (ha : a.wf) (hb : b.wf) : LB.beq a b = true ↔ a.den = b.den :=
  Ops.eq_iff a b ha hb

/-- the order on representations is the order on integers -/
theorem cmp_spec (a b : LB) (ha : a.wf) (hb : b.wf) : LB.cmp a b = compare a.den b.den :=
  Ops.cmp_spec a b ha hb

/-! ### multiplication, absolute value, sign -/

/-- multiplication is exact and canonical in all four representation combinations
(`Long * Long` never fits 64 bits, `Long * Short` can: `2^63 * -1`) -/
theorem mul_correct (a b : LB) (ha : a.wf) (hb : b.wf) : Correct (LB.mul a b) (a.den * b.den) :=
  Ops.mul_correct a b ha hb

/-- in-place multiplication (used by `binom`, `multinom`) agrees with multiplication -/
theorem mulAssign_correct (a b : LB) (ha : a.wf) (hb : b.wf) :
    Correct (LB.mulAssign a b) (a.den * b.den) :=
  Ops.mulAssign_correct a b ha hb

/-- absolute value, including `abs(-2^63)` which leaves the small representation -/
theorem abs_correct (a : LB) (ha : a.wf) : Correct (LB.abs a) (a.den.natAbs : Int) :=
  Ops.abs_correct a ha

/-- `signum` is the sign, as a small integer -/
theorem signum_spec (a : LB) : (LB.signum a).wf ∧ (LB.signum a).den = a.den.sign :=
  Ops.signum_spec a

/-! ### remainder and the three integer divisions (`LazyBigint` level; a zero divisor is the caller's guard) -/

/-- `%` on `LazyBigint` is the truncated remainder -/
theorem rem_correct (a b : LB) (ha : a.wf) (hb : b.wf) (h0 : b.den ≠ 0) :
    Correct (LB.rem a b) (Int.tmod a.den b.den) :=
  Ops.rem_correct a b ha hb h0

/-- `/` on `LazyBigint` is the truncated quotient (incl. `-2^63 / -1 = 2^63`) -/
theorem div_correct (a b : LB) (ha : a.wf) (hb : b.wf) (h0 : b.den ≠ 0) :
    Correct (LB.div a b) (Int.tdiv a.den b.den) :=
  Ops.div_correct a b ha hb h0

/-- `div_floor` is the floored quotient -/
theorem divFloor_correct (a b : LB) (ha : a.wf) (hb : b.wf) (h0 : b.den ≠ 0) :
    Correct (LB.divFloor a b) (Int.fdiv a.den b.den) :=
  Ops.divFloor_correct a b ha hb h0

/-- `div_ceil` is the ceiling quotient: the unique `q` with `a = q*b - r`, `r` between `0` and `b` -/
theorem divCeil_correct (a b : LB) (ha : a.wf) (hb : b.wf) (h0 : b.den ≠ 0) :
    ∃ q, Correct (LB.divCeil a b) q ∧
      ∃ r, a.den = q * b.den - r ∧ (0 < b.den → 0 ≤ r ∧ r < b.den) ∧ (b.den < 0 → b.den < r ∧ r ≤ 0) :=
  Ops.divCeil_correct a b ha hb h0

/-- the floored quotient is characterised the same way: `a = q*b + r`, `r` between `0` and `b` -/
theorem divFloor_char (a b : LB) (ha : a.wf) (hb : b.wf) (h0 : b.den ≠ 0) :
    ∃ q, Correct (LB.divFloor a b) q ∧
      ∃ r, a.den = q * b.den + r ∧ (0 < b.den → 0 ≤ r ∧ r < b.den) ∧ (b.den < 0 → b.den < r ∧ r ≤ 0) :=
  ⟨_, divFloor_correct a b ha hb h0, Arith.fdiv_char a.den b.den h0⟩

/-- the `(Short, Long)` arms of `div_floor` / `div_ceil`: a one-word dividend by a long divisor.  The floored quotient
is 0 or -1 by the signs alone; the ceiling quotient is 0 or 1 by the signs alone EXCEPT at the single point
`-2^63 / 2^63` (a one-word value whose magnitude equals that of the smallest long), where it is -1. -/
theorem short_long_quotient (s b : Int) (hs : (short s).wf) (hb : (long b).wf) :
    LB.divFloor (short s) (long b) = .ok (short (if s = 0 ∨ (s < 0 ↔ b < 0) then 0 else -1)) ∧
    LB.divCeil (short s) (long b) = .ok (short
      (if s = -9223372036854775808 ∧ b = 9223372036854775808 then -1
       else if s = 0 ∨ ¬ (s < 0 ↔ b < 0) then 0 else 1)) := by
  rw [wf_short] at hs
  rw [wf_long] at hb
  simp only [LB.divFloor, LB.divCeil, LB.cdiv]
  rcases hb with hb | hb
  · rw [Arith.fdiv_small_neg s b (by omega) (by omega) (by omega),
        Arith.fdiv_small_neg (-s) b (by omega) (by omega) (by omega)]
    constructor <;> (repeat' split) <;> first | rfl | (exfalso; omega)
  · rw [Arith.fdiv_small_pos s b (by omega) (by omega) (by omega),
        Arith.fdiv_small_pos (-s) b (by omega) (by omega) (by omega)]
    constructor <;> (repeat' split) <;> first | rfl | (exfalso; omega)

example : LB.divCeil (short (-9223372036854775808)) (long 9223372036854775808) = .ok (short (-1)) := by decide
example : LB.divFloor (short (-9223372036854775808)) (long 9223372036854775808) = .ok (short (-1)) := by decide
/-! ### the builtin layer (`int.rs`): guards give error *values*, never panics -/

/-- `a % b` of the language is the floored modulo (sign of the divisor), for every nonzero divisor -/
theorem mod_floored (a b : LB) (ha : a.wf) (hb : b.wf) (h0 : b.den ≠ 0) :
    ∃ r, IntB.mod a b = .int r ∧ r.wf ∧ r.den = Int.fmod a.den b.den := by
  unfold IntB.mod
  have hz : LB.isZero b = false := (isZero_false_iff b hb).mpr h0
  obtain ⟨r, hr, hrw, hrd⟩ := rem_correct a b ha hb h0
  simp only [hz, Bool.false_eq_true, if_false, hr]
  rw [Arith.fmod_of_tmod, ← hrd]
  have hzr : (!LB.isZero r) = true ↔ r.den ≠ 0 := by
    rw [Bool.not_eq_true', isZero_false_iff r hrw]
  simp only [Bool.and_eq_true, hzr, LB.isNegative]
  split
  · obtain ⟨s, hs, hsw, hsd⟩ := add_correct r b hrw hb
    exact ⟨s, by rw [hs]; rfl, hsw, hsd⟩
  · exact ⟨r, rfl, hrw, rfl⟩

theorem mod_by_zero (a b : LB) (hb : b.wf) (h0 : b.den = 0) : IntB.mod a b = .err "Modulo by zero" := by
  unfold IntB.mod; rw [if_pos ((isZero_iff b hb).mpr h0)]

theorem divFloor_by_zero (a b : LB) (hb : b.wf) (h0 : b.den = 0) :
    IntB.divFloor a b = .err "Division by zero" := by
  unfold IntB.divFloor; rw [if_pos ((isZero_iff b hb).mpr h0)]

theorem divCeil_by_zero (a b : LB) (hb : b.wf) (h0 : b.den = 0) :
    IntB.divCeil a b = .err "Division by zero" := by
  unfold IntB.divCeil; rw [if_pos ((isZero_iff b hb).mpr h0)]

/-- builtin `div_floor` with a nonzero divisor: a value, exact and canonical -/
theorem divFloor_builtin (a b : LB) (ha : a.wf) (hb : b.wf) (h0 : b.den ≠ 0) :
    ∃ r, IntB.divFloor a b = .int r ∧ r.wf ∧ r.den = Int.fdiv a.den b.den := by
  obtain ⟨r, hr, hw, hd⟩ := divFloor_correct a b ha hb h0
  refine ⟨r, ?_, hw, hd⟩
  unfold IntB.divFloor; rw [(isZero_false_iff b hb).mpr h0, hr]; rfl

/-- builtin `div_ceil` with a nonzero divisor: a value, canonical, the ceiling quotient -/
theorem divCeil_builtin (a b : LB) (ha : a.wf) (hb : b.wf) (h0 : b.den ≠ 0) :
    ∃ r, IntB.divCeil a b = .int r ∧ r.wf ∧
      ∃ m, a.den = r.den * b.den - m ∧ (0 < b.den → 0 ≤ m ∧ m < b.den) ∧ (b.den < 0 → b.den < m ∧ m ≤ 0) := by
  obtain ⟨q, ⟨r, hr, hw, hd⟩, hq⟩ := divCeil_correct a b ha hb h0
  refine ⟨r, ?_, hw, by rw [hd]; exact hq⟩
  unfold IntB.divCeil; rw [(isZero_false_iff b hb).mpr h0, hr]; rfl

/-- the model's fast exponentiation is exponentiation -/
theorem ipow_eq (b : Int) (e : Nat) : LB.ipow b e = b ^ e :=
  Ops.ipow_eq b e

/-- `Pow` on `LazyBigint`, on its precondition (exponent ≥ 0): exact and canonical in all four combinations -/
theorem lbPow_correct (a b : LB) (ha : a.wf) (hb : b.wf) (hneg : 0 ≤ b.den) :
    Correct (LB.pow a b) (a.den ^ b.den.toNat) :=
  Ops.lbPow_correct a b ha hb hneg

/-- `a ** b` of the language: a value `a^b`, canonical, whenever the documented guards do not apply
(negative exponent, `0 ** 0`, and an exponent beyond the machine word with a base other than 0, 1, -1) -/
theorem pow_correct (a b : LB) (ha : a.wf) (hb : b.wf) (hneg : 0 ≤ b.den)
    (h00 : ¬ (a.den = 0 ∧ b.den = 0))
    (hword : b.den < 18446744073709551616 ∨ (-1 ≤ a.den ∧ a.den ≤ 1)) :
    ∃ r, IntB.pow a b = .int r ∧ r.wf ∧ r.den = a.den ^ b.den.toNat := by
  obtain ⟨r, hr, hw, hd⟩ := lbPow_correct a b ha hb hneg
  refine ⟨r, ?_, hw, hd⟩
  unfold IntB.pow
  have h1 : LB.isNegative b = false := by
    rw [← Bool.not_eq_true, isNegative_iff]; omega
  have h2 : (LB.isZero b && LB.isZero a) = false := by
    rw [← Bool.not_eq_true, Bool.and_eq_true, isZero_iff b hb, isZero_iff a ha]; omega
  rw [h1, h2, Ops.toU64_spec b hb]
  simp only [Bool.false_eq_true, if_false]
  by_cases hw64 : 0 ≤ b.den ∧ b.den < 18446744073709551616
  · rw [if_pos hw64]; simp only [Option.isNone_some, Bool.false_eq_true, if_false]; rw [hr]; rfl
  · rw [if_neg hw64]; simp only [Option.isNone_none, if_true]
    obtain ⟨aa, haa, haw, had⟩ := abs_correct a ha
    rw [haa]; simp only []
    have hc : (!(LB.isZero a || LB.isOne aa)) = false := by
      rw [Bool.not_eq_false', Bool.or_eq_true, isZero_iff a ha, isOne_iff aa haw, had]; omega
    rw [hc]; simp only [Bool.false_eq_true, if_false]; rw [hr]; rfl

/-- an exponent of 2^64 or more with a base other than 0, 1, -1 is the error value "exponent too large" (never a panic) -/
theorem pow_exponent_too_large (a b : LB) (ha : a.wf) (hb : b.wf) (hbig : 18446744073709551616 ≤ b.den)
    (hbase : a.den < -1 ∨ 1 < a.den) : IntB.pow a b = .err "exponent too large" := by
  unfold IntB.pow
  have h1 : LB.isNegative b = false := by
    rw [← Bool.not_eq_true, isNegative_iff]; omega
  have h2 : (LB.isZero b && LB.isZero a) = false := by
    rw [← Bool.not_eq_true, Bool.and_eq_true, isZero_iff b hb, isZero_iff a ha]; omega
  rw [h1, h2, Ops.toU64_spec b hb]
  simp only [Bool.false_eq_true, if_false]
  rw [if_neg (show ¬ (0 ≤ b.den ∧ b.den < 18446744073709551616) by omega)]; simp only [Option.isNone_none, if_true]
  obtain ⟨aa, haa, haw, had⟩ := abs_correct a ha
  rw [haa]; simp only []
  have hc : (!(LB.isZero a || LB.isOne aa)) = true := by
    rw [Bool.not_eq_true', ← Bool.not_eq_true, Bool.or_eq_true, isZero_iff a ha, isOne_iff aa haw, had]; omega
  rw [hc]; rfl

/-- bases 0, 1 and -1: `a ** b` is the closed form for EVERY exponent `b ≥ 0` (of any magnitude and representation,
in particular beyond the machine word, where other bases give "exponent too large"): `0^b = 0` (b > 0), `1^b = 1`,
`(-1)^b = 1` for even `b` and `-1` for odd `b` -/
theorem pow_unit_bases (a b : LB) (ha : a.wf) (hb : b.wf) (hneg : 0 ≤ b.den)
    (h00 : ¬ (a.den = 0 ∧ b.den = 0)) (hu : -1 ≤ a.den ∧ a.den ≤ 1) :
    IntB.pow a b = .int (short (if a.den = 0 then 0 else if a.den = 1 then 1 else if b.den % 2 = 0 then 1 else -1)) := by
  obtain ⟨r, hr, hw, hd⟩ := pow_correct a b ha hb hneg h00 (Or.inr hu)
  rw [hr]; congr 1
  apply Ops.wf_den_inj r _ hw
  · rw [wf_short]; (repeat' split) <;> omega
  · rw [hd, den_short]
    by_cases h0 : a.den = 0
    · rw [if_pos h0, h0, Int.zero_pow (by omega)]
    · rw [if_neg h0]
      by_cases h1 : a.den = 1
      · rw [if_pos h1, h1, Int.one_pow]
      · rw [if_neg h1]
        have hm : a.den = -1 := by omega
        rw [hm, Arith.neg_one_pow]
        by_cases he : b.den % 2 = 0
        · rw [if_pos he, if_pos (by omega)]
        · rw [if_neg he, if_neg (by omega)]

example : IntB.pow (short (-1)) (long 18446744073709551616) = .int (short 1) := by decide
example : IntB.pow (short (-1)) (long 18446744073709551617) = .int (short (-1)) := by decide

theorem pow_negative_exponent (a b : LB) (hneg : b.den < 0) :
    IntB.pow a b = .err "cannot raise integer to a negative power" := by
  unfold IntB.pow; rw [if_pos ((isNegative_iff b).mpr hneg)]

theorem pow_zero_zero (a b : LB) (ha : a.wf) (hb : b.wf) (h : a.den = 0 ∧ b.den = 0) :
    IntB.pow a b = .err "cannot raise zero to a zero power" := by
  unfold IntB.pow
  have h1 : LB.isNegative b = false := by
    rw [← Bool.not_eq_true, isNegative_iff]; omega
  have h2 : (LB.isZero b && LB.isZero a) = true := by
    rw [Bool.and_eq_true, isZero_iff b hb, isZero_iff a ha]; omega
  rw [h1, h2]; rfl

/-! ### equal integers are indistinguishable: canonical form, hash, order -/

/-- canonical form: a well-formed representation is determined by the integer it denotes -/
theorem wf_den_inj (a b : LB) (ha : a.wf) (hb : b.wf) (h : a.den = b.den) : a = b :=
  Ops.wf_den_inj a b ha hb h

/-- `to_u64` succeeds exactly on `[0, 2^64)` -/
theorem toU64_spec (a : LB) (ha : a.wf) :
    LB.toU64 a = if 0 ≤ a.den ∧ a.den < 18446744073709551616 then some a.den else none :=
  Ops.toU64_spec a ha

/-- `first_u64_digit`: the low 64 bits (of the two's complement for a small value, of the magnitude for a big one) -/
theorem firstU64Digit_spec (a : LB) (ha : a.wf) :
    (LB.firstU64Digit a).wf ∧ 0 ≤ (LB.firstU64Digit a).den ∧ (LB.firstU64Digit a).den < 18446744073709551616 ∧
    (LB.firstU64Digit a).den =
      (match a with | .short s => s % 18446744073709551616 | .long b => (b.natAbs : Int) % 18446744073709551616) :=
  Ops.firstU64Digit_spec a ha

/-- equal integers hash equally, and the hash is an integer in `[0, 2^64)` -/
theorem hash_congr (a b : LB) (ha : a.wf) (hb : b.wf) (h : a.den = b.den) :
    IntB.hash a = IntB.hash b ∧ ∃ r, IntB.hash a = .int r ∧ r.wf ∧ 0 ≤ r.den ∧ r.den < 18446744073709551616 := by
  have := wf_den_inj a b ha hb h
  subst this
  refine ⟨rfl, ?_⟩
  unfold IntB.hash
  rw [toU64_spec a ha]
  by_cases h : 0 ≤ a.den ∧ a.den < 18446744073709551616
  · rw [if_pos h]; exact ⟨a, rfl, ha, h.1, h.2⟩
  · rw [if_neg h]
    have := firstU64Digit_spec a ha
    exact ⟨_, rfl, this.1, this.2.1, this.2.2.1⟩

/-- `cmp(a, b)` is -1 / 0 / 1: the sign of the difference -/
theorem cmp_builtin (a b : LB) (ha : a.wf) (hb : b.wf) :
    IntB.cmp a b = .int (short (a.den - b.den).sign) := by
  unfold IntB.cmp; rw [cmp_spec a b ha hb]
  rcases Int.lt_trichotomy a.den b.den with h | h | h
  · rw [Int.compare_eq_lt.mpr h, Int.sign_eq_neg_one_iff_neg.mpr (by omega)]
  · rw [Int.compare_eq_eq.mpr h, h, Int.sub_self]; rfl
  · rw [Int.compare_eq_gt.mpr h, Int.sign_eq_one_iff_pos.mpr (by omega)]

set_option linter.unusedSimpArgs false in
/-- `<`, `<=`, `>`, `>=`, `==`, `!=` of the language agree with the integer order -/
theorem order_builtins (a b : LB) (ha : a.wf) (hb : b.wf) :
    IntB.lt a b = .bool (decide (a.den < b.den)) ∧ IntB.le a b = .bool (decide (a.den ≤ b.den)) ∧
    IntB.gt a b = .bool (decide (a.den > b.den)) ∧ IntB.ge a b = .bool (decide (a.den ≥ b.den)) ∧
    IntB.eq a b = .bool (decide (a.den = b.den)) ∧ IntB.ne a b = .bool (decide (a.den ≠ b.den)) := by
  unfold IntB.lt IntB.le IntB.gt IntB.ge IntB.eq IntB.ne
  rw [cmp_spec a b ha hb]
  have he := eq_iff a b ha hb
  have e1 : (Ordering.lt != Ordering.gt) = true := by decide
  have e2 : (Ordering.lt != Ordering.lt) = false := by decide
  have e3 : (Ordering.eq != Ordering.gt) = true := by decide
  have e4 : (Ordering.eq != Ordering.lt) = true := by decide
  have e5 : (Ordering.gt != Ordering.gt) = false := by decide
  have e6 : (Ordering.gt != Ordering.lt) = true := by decide
  rcases Int.lt_trichotomy a.den b.den with h | h | h
  · rw [Int.compare_eq_lt.mpr h]
    have : LB.beq a b = false := by rw [← Bool.not_eq_true, he]; omega
    simp [this, e1, e2]; omega
  · rw [Int.compare_eq_eq.mpr h]
    have : LB.beq a b = true := he.mpr h
    simp [this, e3, e4]; omega
  · rw [Int.compare_eq_gt.mpr h]
    have : LB.beq a b = false := by rw [← Bool.not_eq_true, he]; omega
    simp [this, e5, e6]; omega
/-- equal integers are indistinguishable however they were computed: two canonical representations of the same integer
are equal as values, compare equal, hash equally, print equally (in every radix and under every format spec) -/
theorem equal_indistinguishable (a b : LB) (ha : a.wf) (hb : b.wf) (h : a.den = b.den) :
    a = b ∧ LB.beq a b = true ∧ LB.cmp a b = .eq ∧ IntB.hash a = IntB.hash b ∧ LB.toStr a = LB.toStr b ∧
    (∀ sp, IntB.format a sp = IntB.format b sp) ∧ (∀ r, LB.magnitudeToStr a r = LB.magnitudeToStr b r) := by
  have e := wf_den_inj a b ha hb h
  subst e
  refine ⟨rfl, (eq_iff a a ha ha).mpr rfl, ?_, rfl, rfl, fun _ => rfl, fun _ => rfl⟩
  rw [cmp_spec a a ha ha]; exact Int.compare_eq_eq.mpr rfl

/-! ### binomial coefficient and digits (loops of `int.rs`) -/

theorem cmp_gt_iff (a b : LB) (ha : a.wf) (hb : b.wf) : (LB.cmp b a == .gt) = true ↔ a.den < b.den := by
  rw [cmp_spec b a hb ha, beq_iff_eq, Int.compare_eq_gt]

/-- `binom(n, k)` for `0 ≤ k ≤ n` is the binomial coefficient, exact and canonical at every magnitude -/
theorem binom_spec (a b : LB) (ha : a.wf) (hb : b.wf) (n k : Nat) (han : a.den = n) (hbk : b.den = k)
    (hkn : k ≤ n) : ∃ r, IntB.binom a b = .int r ∧ r.wf ∧ r.den = (n.choose k : Nat) := by
  unfold IntB.binom IntB.rangeTo
  have h1 : (LB.cmp b a == .gt) = false := by
    rw [← Bool.not_eq_true, cmp_gt_iff a b ha hb]; omega
  have h2 : LB.isNegative b = false := by
    rw [← Bool.not_eq_true, isNegative_iff]; omega
  rw [h1, h2]
  simp only [Bool.false_eq_true, if_false]
  have hk : b.den.toNat = k := by omega
  rw [hk]
  obtain ⟨num, den, hf, hnw, hdw, hn, hd⟩ := Binom.fold_inv a ha n han k hkn
  rw [hf]; simp only []
  have hd0 : den.den ≠ 0 := by
    rw [hd]; exact_mod_cast (Nat.factorial_pos k).ne'
  obtain ⟨r, hr, hrw, hrd⟩ := div_correct num den hnw hdw hd0
  refine ⟨r, by rw [hr]; rfl, hrw, ?_⟩
  rw [hrd, hn, hd, Binom.tdiv_desc_fact]

theorem binom_k_above_n (a b : LB) (ha : a.wf) (hb : b.wf) (h : a.den < b.den) :
    IntB.binom a b = .err "argument 2 must be less than argument 1" := by
  unfold IntB.binom; rw [if_pos ((cmp_gt_iff a b ha hb).mpr h)]

theorem binom_k_negative (a b : LB) (ha : a.wf) (hb : b.wf) (h1 : b.den ≤ a.den) (h : b.den < 0) :
    IntB.binom a b = .err "argument 2 must be non-negative" := by
  unfold IntB.binom
  have h1 : (LB.cmp b a == .gt) = false := by
    rw [← Bool.not_eq_true, cmp_gt_iff a b ha hb]; omega
  rw [h1, if_pos ((isNegative_iff b).mpr h)]; simp

/-- `digits(n, b)` for `b ≥ 2`: the loop terminates (the model's fuel suffices), the digits are the little-endian
expansion of `n` in base `b` (Horner form) and carry the sign of `n` (so for `n ≥ 0` each lies in `[0, b)`) -/
theorem digits_spec (n b : LB) (hn : n.wf) (hb : b.wf) (hb2 : 2 ≤ b.den) :
    ∃ ds, IntB.digits n b = .ints ds ∧ (∀ d ∈ ds, d.wf) ∧
      (ds.map LB.den).foldr (fun d acc => d + b.den * acc) 0 = n.den ∧
      (∀ d ∈ ds, (0 ≤ n.den → 0 ≤ d.den ∧ d.den < b.den) ∧ (n.den ≤ 0 → -b.den < d.den ∧ d.den ≤ 0)) := by
  unfold IntB.digits
  have h1 : (LB.cmp b (short 2) == .lt) = false := by
    rw [← Bool.not_eq_true, cmp_spec b (short 2) hb (by decide), beq_iff_eq, Int.compare_eq_lt]
    simp only [den_short]; omega
  rw [h1]; simp only [Bool.false_eq_true, if_false]
  obtain ⟨ds, hl, hw, hh, hr⟩ := Digits.loop_spec b hb hb2 (n.den.natAbs + 1) n [] hn (by omega)
  rw [hl]
  exact ⟨ds, by simp, hw, hh, hr⟩

theorem digits_small_base (n b : LB) (hb : b.wf) (hb2 : b.den < 2) :
    IntB.digits n b = .err "base must be at least 2" := by
  unfold IntB.digits
  have h1 : (LB.cmp b (short 2) == .lt) = true := by
    rw [cmp_spec b (short 2) hb (by decide), beq_iff_eq, Int.compare_eq_lt]
    simp only [den_short]; omega
  rw [h1]; rfl

/-! ### conversion to and from text -/

theorem ofInt_den_self (a : LB) (ha : a.wf) : LB.ofInt a.den = a := by
  cases a <;> simp only [LB.ofInt, den_short, den_long] <;> simp only [LB.wf] at ha <;> simp [ha]

/-- text round trip in every radix `2 ≤ r ≤ 36`, at every magnitude (both the `i128` fast path and the
big-integer path of `from_str_radix`): parsing the text of `v` gives back `v`, canonical -/
theorem toStr_ofStr (v : Int) (r : Nat) (h2 : 2 ≤ r) (h36 : r ≤ 36) :
    LB.fromStrRadix (toStrRadix v r) r = some (LB.ofInt v) :=
  Text.roundtrip v r h2 h36

/-- `to_int(to_str(a)) = a` -/
theorem toInt_toStr (a : LB) (ha : a.wf) : IntB.toInt (LB.toStr a) (short 10) = .int a := by
  unfold IntB.toInt LB.toStr
  have h1 : (LB.cmp (short 10) (short 1) != .gt) = false := by decide
  have h2 : (LB.cmp (short 10) (short 36) == .gt) = false := by decide
  rw [h1, h2]
  simp only [Bool.false_eq_true, if_false, den_short]
  have : (10 : Int).toNat = 10 := rfl
  rw [this, Text.roundtrip a.den 10 (by decide) (by decide), ofInt_den_self a ha]

/-- `to_int(s, base)`: the two documented guards are error values -/
theorem toInt_base_guards (s : List Char) (base : LB) (hb : base.wf) :
    (base.den ≤ 1 → IntB.toInt s base = .err "base must be larger than 1") ∧
    (36 < base.den → IntB.toInt s base = .err "base must be lower than 36") := by
  unfold IntB.toInt
  rw [cmp_spec base (short 1) hb (by decide), cmp_spec base (short 36) hb (by decide)]
  simp only [den_short]
  constructor
  · intro h
    have : compare base.den 1 ≠ .gt := by rw [Ne, Int.compare_eq_gt]; omega
    simp [this]
  · intro h
    have h1 : compare base.den 1 = .gt := by rw [Int.compare_eq_gt]; omega
    have h2 : compare base.den 36 = .gt := by rw [Int.compare_eq_gt]; omega
    simp [h1, h2]

/-- the text of an integer determines it: different integers have different text (in every radix) -/
theorem toStr_injective (v w : Int) (r : Nat) (h2 : 2 ≤ r) (h36 : r ≤ 36)
    (h : toStrRadix v r = toStrRadix w r) : v = w := by
  have hv := Text.roundtrip v r h2 h36
  have hw := Text.roundtrip w r h2 h36
  rw [h, hw] at hv
  have := congrArg LB.den (Option.some.inj hv)
  rw [ofInt_den, ofInt_den] at this
  exact this.symm

/-- `magnitude_to_str` in the four format radices never panics, for either representation, and the int
`format` with a bare type (`""`, `"x"`, `"o"`, `"b"`) is sign + magnitude, which parses back -/
theorem format_plain (a : LB) (ha : a.wf) (t : Option Char) (r : Nat)
    (ht : (t, r) = (none, 10) ∨ (t, r) = (some 'x', 16) ∨ (t, r) = (some 'o', 8) ∨ (t, r) = (some 'b', 2)) :
    IntB.format a { ty := t } = .str (toStrRadix a.den r) ∧
    LB.fromStrRadix (toStrRadix a.den r) r = some a := by
  have hr : 2 ≤ r ∧ r ≤ 36 := by
    rcases ht with h | h | h | h <;> (cases h; decide)
  refine ⟨?_, by rw [Text.roundtrip a.den r hr.1 hr.2, ofInt_den_self a ha]⟩
  have hm : LB.magnitudeToStr a r = .ok (natToStr r a.den.natAbs) := by
    cases a with
    | short v => 
      simp only [LB.magnitudeToStr, den_short]
      rw [if_pos (by rcases ht with h | h | h | h <;> (cases h; decide))]
    | long v => simp only [LB.magnitudeToStr, den_long]; rw [if_pos hr]
  rcases ht with h | h | h | h <;> cases h <;>
    simp [IntB.format, hm, toStrRadix, LB.isNegative]

/-- the documented guarantee `format(x, "") == to_str(x)` -/
theorem format_empty_eq_toStr (a : LB) (ha : a.wf) : IntB.format a {} = IntB.toStr a := by
  have := (format_plain a ha none 10 (Or.inl rfl)).1
  rw [this]; rfl

/-! ### the library functions written in xray (`include.rs`), hand model `XrayModel/IntLib.lean` -/

/-- `gcd(a, b)` terminates and is the greatest common divisor (non-negative; `Int.gcd` is `Nat.gcd` of the magnitudes) -/
theorem gcd_spec (a b : Int) : Lib.gcd a b = some ((Int.gcd a b : Nat) : Int) :=
  LibP.gcd_spec a b

/-- `gcd(0, 0) == 0`, as documented -/
theorem gcd_zero_zero : Lib.gcd 0 0 = some 0 := by
  rw [LibP.gcd_spec]; rfl

/-- `lcm(a, b)` is the least common multiple (non-negative; 0 when either argument is 0) -/
theorem lcm_spec (a b : Int) : Lib.lcm a b = some ((Int.lcm a b : Nat) : Int) :=
  LibP.lcm_spec a b

/-- `factorial(n)` is `n!` (for every `n` the `range` builtin can count, i.e. below 2^63) -/
theorem factorial_spec (n : Nat) (hn : (n : Int) ≤ 9223372036854775807) :
    Lib.factorial n 1 = .ok ((n.factorial : Nat) : Int) :=
  LibP.factorial_spec n hn

theorem factorial_negative (n step : Int) (hn : n < 0) :
    Lib.factorial n step = .error "cannot get factorial of negative number" :=
  LibP.factorial_negative n step hn

/-- `floor_root(a, b)`: the bisection terminates and returns the `b`-th root rounded down -/
theorem floor_root_spec (a b : Int) (ha : 0 ≤ a) (ha' : a + 1 ≤ 9223372036854775807) (hb : 1 ≤ b) :
    ∃ r : Int, Lib.floorRoot a b = some (.ok r) ∧ 0 ≤ r ∧ r ^ b.toNat ≤ a ∧ a < (r + 1) ^ b.toNat :=
  LibP.floorRoot_spec a b ha ha' hb

/-- `ceil_root(a, b)`: the `b`-th root rounded up -/
theorem ceil_root_spec (a b : Int) (ha : 1 ≤ a) (ha' : a ≤ 9223372036854775807) (hb : 1 ≤ b) :
    ∃ r : Int, Lib.ceilRoot a b = some (.ok r) ∧ 1 ≤ r ∧ (r - 1) ^ b.toNat < a ∧ a ≤ r ^ b.toNat :=
  LibP.ceilRoot_spec a b ha ha' hb

/-- library `abs` and `sign` -/
theorem lib_abs_sign (a : Int) : Lib.abs a = (a.natAbs : Int) ∧ Lib.sign a = a.sign := by
  refine ⟨LibP.abs_eq a, ?_⟩
  unfold Lib.sign
  rcases Int.lt_trichotomy a 0 with h | h | h
  · rw [Int.sign_eq_neg_one_iff_neg.mpr h, if_neg (by omega), if_pos h]
  · subst h; rfl
  · rw [Int.sign_eq_one_iff_pos.mpr h, if_pos h]

example : Lib.floorRoot 1 2 = some (.ok 1) := by decide
example : Lib.ceilRoot 2 2 = some (.ok 2) := by decide

/-! ### bitwise operations -/

/-- `bit_and`, `bit_or`, `bit_xor`: the result is canonical in all four representation combinations and denotes the
Int-level operation, which is the two's-complement operation bit by bit (`Bits.tbit x i` is bit `i` of the infinite
two's-complement expansion of `x`; by `bits_determine` the bits determine the integer) -/
theorem bit_ops_spec (a b : LB) (ha : a.wf) (hb : b.wf) :
    ((LB.bitand a b).wf ∧ ∀ i, Bits.tbit (LB.bitand a b).den i = (Bits.tbit a.den i && Bits.tbit b.den i)) ∧
    ((LB.bitor a b).wf ∧ ∀ i, Bits.tbit (LB.bitor a b).den i = (Bits.tbit a.den i || Bits.tbit b.den i)) ∧
    ((LB.bitxor a b).wf ∧ ∀ i, Bits.tbit (LB.bitxor a b).den i = (Bits.tbit a.den i ^^ Bits.tbit b.den i)) := by
  obtain ⟨h1, e1⟩ := Bits.bitand_spec a b ha hb
  obtain ⟨h2, e2⟩ := Bits.bitor_spec a b ha hb
  obtain ⟨h3, e3⟩ := Bits.bitxor_spec a b ha hb
  exact ⟨⟨h1, fun i => by rw [e1, Bits.iland_tbit]⟩, ⟨h2, fun i => by rw [e2, Bits.ilor_tbit]⟩,
    ⟨h3, fun i => by rw [e3, Bits.ilxor_tbit]⟩⟩

theorem bits_determine (x y : Int) (h : ∀ i, Bits.tbit x i = Bits.tbit y i) : x = y :=
  Bits.tbit_ext x y h

/-- the bitwise operations are commutative (whatever the representations of the operands) -/
theorem bit_ops_comm (a b : LB) (ha : a.wf) (hb : b.wf) :
    LB.bitand a b = LB.bitand b a ∧ LB.bitor a b = LB.bitor b a ∧ LB.bitxor a b = LB.bitxor b a := by
  obtain ⟨h1, e1⟩ := Bits.bitand_spec a b ha hb
  obtain ⟨h1', e1'⟩ := Bits.bitand_spec b a hb ha
  obtain ⟨h2, e2⟩ := Bits.bitor_spec a b ha hb
  obtain ⟨h2', e2'⟩ := Bits.bitor_spec b a hb ha
  obtain ⟨h3, e3⟩ := Bits.bitxor_spec a b ha hb
  obtain ⟨h3', e3'⟩ := Bits.bitxor_spec b a hb ha
  exact ⟨wf_den_inj _ _ h1 h1' (by rw [e1, e1', Bits.iland_comm]),
    wf_den_inj _ _ h2 h2' (by rw [e2, e2', Bits.ilor_comm]),
    wf_den_inj _ _ h3 h3' (by rw [e3, e3', Bits.ilxor_comm])⟩

/-! ### multinomial coefficient (loop of `int.rs` `add_int_multinom`) -/

/-- `multinom(ks)` with non-negative entries (any number of them, any magnitude, any order, zeros included): a value `M`,
canonical, with `M * Π kᵢ! = (Σ kᵢ)!` (`Multinom.prodF` / `Multinom.sumN` are the product of the factorials / the sum of
the entries).  Covers the sort, the `take_while(is_positive)` cut, the in-place multiplications and the final division. -/
theorem multinom_spec (s : List LB) (hs : ∀ x ∈ s, x.wf ∧ 0 ≤ x.den) :
    ∃ r, IntB.multinom s = .int r ∧ r.wf ∧
      ∃ M : Nat, r.den = (M : Int) ∧ M * Multinom.prodF s = (Multinom.sumN s).factorial :=
  Multinom.multinom_spec s hs

/-- a negative entry (among at least two entries) is the documented error value -/
theorem multinom_negative (s : List LB) (hs : ∀ x ∈ s, x.wf) (hlen : 2 ≤ s.length) (hneg : ∃ x ∈ s, x.den < 0) :
    IntB.multinom s = .err "sequence cannot have negative values" :=
  Multinom.multinom_negative s hs hlen hneg

example : IntB.multinom [short 3, short 0, short 2, short 5] = .int (short 2520) := by decide

/-- non-vacuity: operands straddling 2^63 -/
example : Correct (LB.mul (long 9223372036854775808) (short (-1))) (-9223372036854775808) :=
  ⟨_, rfl, by decide, rfl⟩
example : Correct (LB.div (short (-9223372036854775808)) (short (-1))) 9223372036854775808 :=
  ⟨_, rfl, by decide, rfl⟩
example : IntB.mod (short (-7)) (short 3) = .int (short 2) := by decide

end XrayModel.C14
