/-
C14 — Integers are exact at every magnitude.
Property theorems only; helper lemmas live in XrayProofs.
`Correct r v` : the operation succeeded (no panic) with a canonical representation denoting `v`.
-/
import XrayProofs.LazyInt
namespace XrayModel.C14
open XrayModel LB

/-- addition is exact and canonical for all operands -/
theorem add_correct (a b : LB) (ha : a.wf) (hb : b.wf) : Correct (LB.add a b) (a.den + b.den) := by
  unfold LB.add
  cases a <;> cases b <;> lb_norm <;> (repeat' split) <;> lb_norm <;> omega

/-- subtraction is exact and canonical for all operands (in particular `Short - Long`) -/
theorem sub_correct (a b : LB) (ha : a.wf) (hb : b.wf) : Correct (LB.sub a b) (a.den - b.den) := by
  unfold LB.sub
  cases a <;> cases b <;> lb_norm <;> (repeat' split) <;> lb_norm <;> omega

/-- negation, including `-(-2^63)` which leaves the small representation -/
theorem neg_correct (a : LB) (ha : a.wf) : Correct (LB.neg a) (-a.den) := by
  unfold LB.neg
  cases a <;> lb_norm <;> (repeat' split) <;> lb_norm <;> omega

/-- in-place addition agrees with addition -/
theorem addAssign_correct (a b : LB) (ha : a.wf) (hb : b.wf) :
    Correct (LB.addAssign a b) (a.den + b.den) := by
  unfold LB.addAssign
  split
  · subst_vars; rw [correct_ok]; exact ⟨ha, by simp [LB.den]⟩
  · have := add_correct a b ha hb
    cases a <;> cases b <;> simp only [] <;> (try split) <;> first | exact this | (lb_norm; omega)

/-- equality of representations is equality of the integers they denote -/
theorem eq_iff (a b : LB) (ha : a.wf) (hb : b.wf) : LB.beq a b = true ↔ a.den = b.den := by
  unfold LB.beq
  cases a <;> cases b <;> lb_norm <;> simp only [decide_eq_true_eq, LB.short.injEq, LB.long.injEq, reduceCtorEq, false_iff] <;> omega

/-- the order on representations is the order on integers -/
theorem cmp_spec (a b : LB) (ha : a.wf) (hb : b.wf) : LB.cmp a b = compare a.den b.den := by
  unfold LB.cmp
  cases a <;> cases b <;> lb_norm <;> (try split) <;> (try rfl) <;>
    (symm; first | (rw [Int.compare_eq_lt]; omega) | (rw [Int.compare_eq_gt]; omega))

end XrayModel.C14
