/-
C12 — Compilation is total, effect-free and deterministic.
Property theorems over the hand-written lexical handlers (XrayModel/Lex.lean) and over the table of grammar
rules vs. `match` arms generated from src/xray.pest and src/parser.rs (Generated/Rules.lean, rewritten on
every run).  Helper lemmas: XrayProofs/Lex.lean.  The pest engine itself is not modelled; what is proved here is
that the places where the compiler can panic by construction (`unreachable!`, `panic!`, `unwrap` in the
handlers) are not reachable, the rest of the statement is carried by the tie (checklib/c12.py).
-/
import XrayProofs.Lex
import Generated.Rules
import Generated.HashIter
namespace XrayModel.C12
open XrayModel.Lex XrayModel.Generated.Rules

/-- every grammar rule that can arrive at a `match ….as_rule()` of the parser is named by one of its arms, or
the match has a wildcard arm that handles it (not `unreachable!`/`panic!`) -/
theorem arms_cover :
    ∀ s ∈ sites, s.wildcardHandles = true ∨ ∀ r ∈ s.required, r ∈ s.arms := by decide

/-- the table is not empty: the eight match sites of parser.rs over the grammar's rules -/
theorem arms_table_nonempty : sites.length = 8 ∧ 80 ≤ ruleCount := by decide

/-- determinism hazard table: std's HashMap/HashSet iterate in a per-instance random order, so every iteration over
one in the compile path (parser, compilation_scope, xtype, compile_err, root_compilation_scope; found by
translate/hashiter.py on every run) must be a reviewed one, whose result does not depend on the order (each entry of
`reviewed` says why); a new iteration site, or a reviewed one that vanished, breaks this theorem -/
theorem hash_iteration_sites_reviewed :
    (∀ s ∈ Generated.HashIter.found, s ∈ Generated.HashIter.reviewed.map Prod.fst) ∧
    (∀ r ∈ Generated.HashIter.reviewed.map Prod.fst, r ∈ Generated.HashIter.found) := by decide

/-- `apply_escapes` never panics, whatever the text between the quotes -/
theorem escapes_total (cs : List Char) : ¬ (applyEscapes cs).isPanic :=
  applyEscapesAux_no_panic _ cs

/-- a text without backslashes denotes itself -/
theorem escapes_plain (cs : List Char) (h : ∀ c ∈ cs, c ≠ '\\') : applyEscapes cs = .ok cs :=
  applyEscapesAux_plain _ cs h (Nat.le_succ _)

/-- every token text the grammar rule `NUMBER_ANY` can produce (hex, binary, decimal with fraction and
exponent, `_` separators anywhere the grammar allows them) is handled by the number-literal handler without
reaching its `panic!("… is not a number")` -/
theorem number_total (s : List Char) (h : isNumberAny s = true) : ¬ (numberLiteral s).isPanic :=
  numberLiteral_total s h

example : isNumberAny "0x_1F".toList = true ∧ isNumberAny "1_0._5e-0_3".toList = true := by decide

/-- an integer-shaped literal (digits with `_` separators) is an int — never a float, never a panic —
whose value is that of its digits, whatever its magnitude -/
theorem number_int_stays_int (d : Char) (rest : List Char) (hd : isDigit d = true)
    (hr : rest.all isNumDigit = true) :
    numberLiteral (d :: rest) = .ok (.int (radixVal 10 (stripUs (d :: rest)))) :=
  number_int d rest hd hr

/-- … where the value is positional: appending a digit multiplies by the radix and adds the digit -/
theorem number_value (radix : Nat) (ds : List Char) (c : Char) :
    radixVal radix (ds ++ [c]) = radixVal radix ds * radix + hexVal c := radixVal_snoc radix ds c

/-- distinct spellings never share a symbol (`item1a`, `item01`, `item1` are three identifiers) -/
theorem intern_injective (s1 s2 : List Char) (h : s1 ≠ s2) : intern s1 ≠ intern s2 :=
  fun e => h (intern_inj s1 s2 e)

/-- only the canonical spellings `item<n>`, `n ≤ 65536`, are tuple-item symbols; the index never exceeds the
bound (no parse overflow, no unbounded table growth) -/
theorem intern_total (s : List Char) (i : Nat) (h : intern s = .item i) : i ≤ maxItemIndex := by
  unfold intern at h
  cases hi : itemIndex s with
  | none => rw [hi] at h; cases h
  | some j =>
    rw [hi] at h
    cases h
    unfold itemIndex at hi
    split at hi
    · split at hi
      · cases hi; decide
      · split at hi
        · split at hi
          · simp only [] at hi
            split at hi
            · cases hi; assumption
            · cases hi
          · cases hi
        · cases hi
    · cases hi

example : intern "item1a".toList ≠ intern "item1b".toList := by decide
example : intern "item01".toList ≠ intern "item1".toList := by decide
example : intern "item99999999999999999999999".toList = .regular "item99999999999999999999999".toList := by decide
example : numberLiteral "340282366920938463463374607431768211456".toList
    = .ok (.int 340282366920938463463374607431768211456) := by decide
example : applyEscapes "a\\u{1F600}\\n".toList = .ok ['a', '😀', '\n'] := by decide

end XrayModel.C12
