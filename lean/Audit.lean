import Audit.Tools
