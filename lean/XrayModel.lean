import XrayModel.LazyInt
import XrayModel.IntBuiltins
