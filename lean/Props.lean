import Props.C14
