/- line-protocol engine `parse`: the expression syntax model (C02).

Request:  parse expr <source text, code points in decimal joined by `.`>
Response: the dump of the desugared static expression (same format as the hook `parse_expr_dump`),
          `syntax-error`, `unsupported <why>` or `oof`.
Request:  parse core <source text …>     Response: `ok` when the expression maps into the core model, else `no`
Request:  parse climb <minimal item list: atoms `pN`, operator rule names>
Response: the climber's tree `(RULE l r)` / `pN`, or `none`
Request:  parse derived <lt|gt|ge|le> <int: the result of cmp>     Response: true | false
-/
import XrayModel.Syntax
open XrayModel.Syntax
namespace XrayDriver.ParseE

def decodeSrc (a : String) : Option String :=
  if a.isEmpty then some ""
  else ((a.splitOn ".").mapM (fun (t : String) => t.toNat?.map Char.ofNat)).map String.ofList

def showPR (r : PR SExpr) : String := r.show

def showTree : Tree String → String
  | .leaf a => a
  | .node r l rt => "(" ++ r ++ " " ++ showTree l ++ " " ++ showTree rt ++ ")"

def toItem (s : String) : Item String :=
  if s.startsWith "p" then .prim s else .op s

end XrayDriver.ParseE

namespace XrayDriver
open ParseE in
def parseEngine (f : String) (args : List String) : String :=
  match f, args with
  | "expr", [a] => match decodeSrc a with
      | some s => showPR (parse s)
      | none => "bad-op"
  | "core", [a] => match decodeSrc a with
      | some s => match parse s with
          | .ok e _ => if (toCore e).isSome then "ok" else "no"
          | r => showPR r
      | none => "bad-op"
  | "derived", [name, c] => match c.toInt? with
      | some k => match derivedOfCmp name k with
          | some b => toString b
          | none => "bad-op"
      | none => "bad-op"
  | "climb", items => match climb climberInfo (items.map toItem) with
      | some t => showTree t
      | none => "none"
  | _, _ => "bad-op"

end XrayDriver
