/- line-protocol engine `scope`: the compile-time scope model (C03).

Request:  scope compile <fuel> <program as one S-expression (coregen format + (fwd name))>
Response: (root (cells …) (decls …))      -- same shape as the harness' dump of the real compiler, projected
          err <class> [<name>]
Request:  scope resolve <fuel> <i> <cells of scope 0> | <cells of its parent> | …     cells: V R C<d>.<k>
Response: <distance> <cell>  |  none
Request:  scope thread <parentLen> <cells>
Response: <specs> | <requests>
-/
import XrayModel.Scope
open XrayModel.Scope
namespace XrayDriver.ScopeE

inductive SExp where
  | atom (s : String)
  | list (xs : List SExp)
  deriving Inhabited

def tokenize (s : String) : List String :=
  let rec go (cs : List Char) (cur : List Char) (acc : List String) : List String :=
    match cs with
    | [] => (if cur.isEmpty then acc else String.ofList cur.reverse :: acc).reverse
    | c :: rest =>
      if c == '(' || c == ')' then
        let acc := if cur.isEmpty then acc else String.ofList cur.reverse :: acc
        go rest [] (String.singleton c :: acc)
      else if c == ' ' then
        let acc := if cur.isEmpty then acc else String.ofList cur.reverse :: acc
        go rest [] acc
      else go rest (c :: cur) acc
  go s.toList [] []

def parseSExp (toks : List String) : Option SExp :=
  let rec go (toks : List String) (stack : List (List SExp)) : Option SExp :=
    match toks with
    | [] => match stack with
        | [[x]] => some x
        | _ => none
    | "(" :: rest => go rest ([] :: stack)
    | ")" :: rest => match stack with
        | top :: below :: more => go rest ((SExp.list top.reverse :: below) :: more)
        | _ => none
    | t :: rest => match stack with
        | top :: more => go rest ((SExp.atom t :: top) :: more)
        | [] => none
  go toks [[]]

mutual
  partial def toExpr : SExp → Option SExpr
    | .list [.atom "i", _] => some .lit
    | .list [.atom "b", _] => some .lit
    | .list [.atom "s"] => some .lit
    | .list [.atom "s", _] => some .lit
    | .list [.atom "v", .atom x] => some (.ident x)
    | .list (.atom "c" :: .atom f :: args) => (args.mapM toExpr).map (SExpr.call (.ident f))
    | .list (.atom "ce" :: f :: args) => do
        let f' ← toExpr f
        let as ← args.mapM toExpr
        pure (.call f' as)
    | .list [.atom "lam", .list ps, .list ds, body] => do
        let ps' ← ps.mapM toParam
        let ds' ← ds.mapM toDecl
        let b ← toExpr body
        pure (.lam (.mk ps' ds' b))
    | .list (.atom "tup" :: es) => (es.mapM toExpr).map SExpr.tup
    | .list (.atom "arr" :: es) => (es.mapM toExpr).map SExpr.tup
    | .list [.atom "item", e, .atom n] => do
        let e' ← toExpr e
        let i ← n.toNat?
        pure (.member e' i)
    | _ => none
  partial def toParam : SExp → Option SParam
    | .list [.atom "p", .atom n] => some (.mk n none)
    | .list [.atom "pd", .atom n, d] => (toExpr d).map (fun d' => .mk n (some d'))
    | _ => none
  partial def toDecl : SExp → Option SDecl
    | .list [.atom "let", .atom x, e] => (toExpr e).map (SDecl.letD x)
    | .list [.atom "fn", .atom n, .list ps, .list ds, body] => do
        let ps' ← ps.mapM toParam
        let ds' ← ds.mapM toDecl
        let b ← toExpr body
        pure (.fnD n (.mk ps' ds' b))
    | .list [.atom "fwd", .atom n] => some (.fwdD n)
    | _ => none
end

def showCell : Cell → String
  | .var => "V"
  | .recur => "R"
  | .cap d k => s!"(C {d} {k})"

def spaced (xs : List String) : String := String.join (xs.map (fun x => " " ++ x))

mutual
  partial def showXE : XE → String
    | .lit => "lit"
    | .ident x => "(ident " ++ x ++ ")"
    | .lamF _ => "(lamF)"
    | .val i => s!"(val {i})"
    | .call f args => "(call " ++ showXE f ++ spaced (args.map showXE) ++ ")"
    | .bcall _ args => "(bcall" ++ spaced (args.map showXE) ++ ")"
    | .tup es => "(tup" ++ spaced (es.map showXE) ++ ")"
    | .member e i => "(member " ++ showXE e ++ s!" {i})"
  partial def showDecl : CDecl → String
    | .param c a => s!"(param {c} {a})"
    | .value c e => s!"(value {c} " ++ showXE e ++ ")"
    | .func c f => s!"(function {c} " ++ showFunc f ++ ")"
  partial def showFunc : CFunc → String
    | .mk n cells dflts decls out freqs =>
      s!"(ud {n} (cells" ++ spaced (cells.map showCell) ++ ") (defaults" ++ spaced (dflts.map showXE)
        ++ ") (decls" ++ spaced (decls.map showDecl) ++ ") (out " ++ showXE out ++ s!") (freqs {freqs.length}))"
end

def showErr : Err → String
  | .valueNotFound x => "err ValueNotFound " ++ x
  | .overloadedAsVariable x => "err OverloadedFunctionAsVariable " ++ x
  | .ambiguous x => "err AmbiguousOverload " ++ x
  | .illegalShadowing x => "err IllegalShadowing " ++ x
  | .missingForward x => "err MissingForwardImplementation " ++ x
  | .panic w => "panic " ++ w
  | .fuel => "oof"

def compileCmd (args : List String) : String :=
  match args with
  | fuel :: rest =>
    match fuel.toNat?, parseSExp (tokenize (String.intercalate " " rest)) with
    | some fuel', some (.list (.atom "prog" :: ds)) =>
      match ds.mapM toDecl with
      | none => "bad-op"
      | some decls =>
        match compileProgram fuel' decls with
        | .error e => showErr e
        | .ok root =>
          "(root (cells" ++ spaced (root.cells.map showCell) ++ ") (decls" ++ spaced (root.decls.map showDecl) ++ "))"
    | _, _ => "bad-op"
  | _ => "bad-op"

def parseCell (s : String) : Option Cell :=
  if s == "V" then some .var
  else if s == "R" then some .recur
  else if s.startsWith "C" then
    match (String.ofList (s.toList.drop 1)).splitOn "." with
    | [d, k] => do
        let d' ← d.toNat?
        let k' ← k.toNat?
        pure (.cap d' k')
    | _ => none
  else none

def splitBar (xs : List String) : List (List String) :=
  let rec go (xs : List String) (cur : List String) (acc : List (List String)) : List (List String) :=
    match xs with
    | [] => (cur.reverse :: acc).reverse
    | "|" :: rest => go rest [] (cur.reverse :: acc)
    | x :: rest => go rest (x :: cur) acc
  go xs [] []

def showCellC : Cell → String
  | .var => "V"
  | .recur => "R"
  | .cap d k => s!"C{d}.{k}"

def resolveCmd (args : List String) : String :=
  match args with
  | fuel :: i :: rest =>
    match fuel.toNat?, i.toNat?, (splitBar rest).mapM (fun l => l.mapM parseCell) with
    | some f, some i', some chain =>
      match resolve f chain i' with
      | none => "none"
      | some (d, k) => s!"{d} {k}"
    | _, _, _ => "bad-op"
  | _ => "bad-op"

def threadCmd (args : List String) : String :=
  match args with
  | n :: rest =>
    match n.toNat?, rest.mapM parseCell with
    | some n', some cells =>
      let r := threadCells cells n'
      String.intercalate " " (r.1.map showCellC) ++ " | " ++ String.intercalate " " (r.2.map showCellC)
    | _, _ => "bad-op"
  | _ => "bad-op"

end XrayDriver.ScopeE

namespace XrayDriver

def scopeEngine (f : String) (args : List String) : String :=
  match f with
  | "compile" => ScopeE.compileCmd args
  | "resolve" => ScopeE.resolveCmd args
  | "thread" => ScopeE.threadCmd args
  | _ => "bad-op"

end XrayDriver
