/- line-protocol engine `scope`: the compile-time scope model (C03).

Request:  scope compile <fuel> <program as one S-expression (coregen format + (fwd name))>
Response: (root (cells …) (decls …))      -- same shape as the harness' dump of the real compiler, projected
          err <class> [<name>]
Request:  scope run <depth|-> <calls|-> <rec|-> <tco 0|1> <fuel> <program>   -- compile, then run on the cell machine
Response: as `core run`:  <outcome> ; out=|… ; <name>=<dump> ; … ; calls=<n>     (or `compile-err <class>`)
Request:  scope resolve <fuel> <i> <cells of scope 0> | <cells of its parent> | …     cells: V R C<d>.<k>
Response: <distance> <cell>  |  none
Request:  scope thread <parentLen> <cells>
Response: <specs> | <requests>
-/
import XrayModel.Scope
import XrayModel.CellRun
open XrayModel.Scope
namespace XrayDriver.ScopeE

inductive SExp where
  | atom (s : String)
  | list (xs : List SExp)
  deriving Inhabited

def tokenize (s : String) : List String :=
  let rec go (cs : List Char) (cur : List Char) (acc : List String) : List String :=
    match cs with
    | [] => (if cur.isEmpty then acc else String.ofList cur.reverse :: acc).reverse
    | c :: rest =>
      if c == '(' || c == ')' then
        let acc := if cur.isEmpty then acc else String.ofList cur.reverse :: acc
        go rest [] (String.singleton c :: acc)
      else if c == ' ' then
        let acc := if cur.isEmpty then acc else String.ofList cur.reverse :: acc
        go rest [] acc
      else go rest (c :: cur) acc
  go s.toList [] []

def parseSExp (toks : List String) : Option SExp :=
  let rec go (toks : List String) (stack : List (List SExp)) : Option SExp :=
    match toks with
    | [] => match stack with
        | [[x]] => some x
        | _ => none
    | "(" :: rest => go rest ([] :: stack)
    | ")" :: rest => match stack with
        | top :: below :: more => go rest ((SExp.list top.reverse :: below) :: more)
        | _ => none
    | t :: rest => match stack with
        | top :: more => go rest ((SExp.atom t :: top) :: more)
        | [] => none
  go toks [[]]

mutual
  partial def toExpr : SExp → Option SExpr
    | .list [.atom "i", .atom n] => n.toInt?.map (fun n => SExpr.lit (.int n))
    | .list [.atom "b", .atom "true"] => some (.lit (.bool true))
    | .list [.atom "b", .atom "false"] => some (.lit (.bool false))
    | .list [.atom "s"] => some (.lit (.str ""))
    | .list [.atom "s", .atom w] => some (.lit (.str (w.replace "_" " ")))
    | .list [.atom "v", .atom x] => some (.ident x)
    | .list (.atom "c" :: .atom f :: args) => (args.mapM toExpr).map (SExpr.call (.ident f))
    | .list (.atom "ce" :: f :: args) => do
        let f' ← toExpr f
        let as ← args.mapM toExpr
        pure (.call f' as)
    | .list [.atom "lam", .list ps, .list ds, body] => do
        let ps' ← ps.mapM toParam
        let ds' ← ds.mapM toDecl
        let b ← toExpr body
        pure (.lam (.mk ps' ds' b))
    | .list (.atom "tup" :: es) => (es.mapM toExpr).map SExpr.tup
    | .list (.atom "arr" :: es) => (es.mapM toExpr).map SExpr.arr
    | .list [.atom "item", e, .atom n] => do
        let e' ← toExpr e
        let i ← n.toNat?
        pure (.member e' i)
    | _ => none
  partial def toParam : SExp → Option SParam
    | .list [.atom "p", .atom n] => some (.mk n none)
    | .list [.atom "pd", .atom n, d] => (toExpr d).map (fun d' => .mk n (some d'))
    | _ => none
  partial def toDecl : SExp → Option SDecl
    | .list [.atom "let", .atom x, e] => (toExpr e).map (SDecl.letD x)
    | .list [.atom "fn", .atom n, .list ps, .list ds, body] => do
        let ps' ← ps.mapM toParam
        let ds' ← ds.mapM toDecl
        let b ← toExpr body
        pure (.fnD n (.mk ps' ds' b))
    | .list [.atom "fwd", .atom n] => some (.fwdD n)
    | _ => none
end

def showCell : Cell → String
  | .var => "V"
  | .recur => "R"
  | .cap d k => s!"(C {d} {k})"

def spaced (xs : List String) : String := String.join (xs.map (fun x => " " ++ x))

mutual
  partial def showXE : XE → String
    | .lit _ => "lit"
    | .ident x => "(ident " ++ x ++ ")"
    | .lamF _ => "(lamF)"
    | .val i => s!"(val {i})"
    | .call f args => "(call " ++ showXE f ++ spaced (args.map showXE) ++ ")"
    | .bcall _ args => "(bcall" ++ spaced (args.map showXE) ++ ")"
    | .tup es => "(tup" ++ spaced (es.map showXE) ++ ")"
    | .arr es => "(tup" ++ spaced (es.map showXE) ++ ")"
    | .member e i => "(member " ++ showXE e ++ s!" {i})"
  partial def showDecl : CDecl → String
    | .param c a => s!"(param {c} {a})"
    | .value c e => s!"(value {c} " ++ showXE e ++ ")"
    | .func c f => s!"(function {c} " ++ showFunc f ++ ")"
  partial def showFunc : CFunc → String
    | .mk n cells dflts decls out freqs =>
      s!"(ud {n} (cells" ++ spaced (cells.map showCell) ++ ") (defaults" ++ spaced (dflts.map showXE)
        ++ ") (decls" ++ spaced (decls.map showDecl) ++ ") (out " ++ showXE out ++ s!") (freqs {freqs.length}))"
end

def showErr : Err → String
  | .valueNotFound x => "err ValueNotFound " ++ x
  | .overloadedAsVariable x => "err OverloadedFunctionAsVariable " ++ x
  | .ambiguous x => "err AmbiguousOverload " ++ x
  | .illegalShadowing x => "err IllegalShadowing " ++ x
  | .missingForward x => "err MissingForwardImplementation " ++ x
  | .panic w => "panic " ++ w
  | .fuel => "oof"

def compileCmd (args : List String) : String :=
  match args with
  | fuel :: rest =>
    match fuel.toNat?, parseSExp (tokenize (String.intercalate " " rest)) with
    | some fuel', some (.list (.atom "prog" :: ds)) =>
      match ds.mapM toDecl with
      | none => "bad-op"
      | some decls =>
        match compileProgram fuel' decls with
        | .error e => showErr e
        | .ok root =>
          "(root (cells" ++ spaced (root.cells.map showCell) ++ ") (decls" ++ spaced (root.decls.map showDecl) ++ "))"
    | _, _ => "bad-op"
  | _ => "bad-op"

open XrayModel.CellRun in
partial def dumpCVal : CVal → String
  | .int n => s!"(int {n})"
  | .bool b => s!"(bool {b})"
  | .str s => "(str \"" ++ s ++ "\")"
  | .tup vs => "(struct" ++ String.join (vs.map (fun v => " " ++ dumpCVal v)) ++ ")"
  | .arr vs => "(seq" ++ String.join (vs.map (fun v => " " ++ dumpCVal v)) ++ ")"
  | .fn _ => "(fn)"
  | .err m => "(error \"" ++ m ++ "\")"

def showViol : XrayModel.Core.Viol → String
  | .depth => "MaximumStackDepth"
  | .calls => "MaximumUDCall"
  | .recursion => "MaximumRecursion"

def optNat (s : String) : Option (Option Nat) :=
  if s == "-" then some none else s.toNat?.map some

def dedupNames : List (String × Nat) → List String → List String
  | [], acc => acc
  | (x, _) :: rest, acc => if acc.contains x then dedupNames rest acc else dedupNames rest (acc ++ [x])

open XrayModel.CellRun in
def runCmd (args : List String) : String :=
  match args with
  | d :: c :: r :: tco :: fuel :: rest =>
    match optNat d, optNat c, optNat r, fuel.toNat?, parseSExp (tokenize (String.intercalate " " rest)) with
    | some d', some c', some r', some fuel', some (.list (.atom "prog" :: ds)) =>
      match ds.mapM toDecl with
      | none => "bad-op"
      | some decls =>
        let cfg : XrayModel.Core.Cfg := { depthLimit := d', callLimit := c', recLimit := r', tco := tco != "0" }
        match compileAndRun 200000 fuel' cfg decls with
        | .error e => "compile-" ++ showErr e
        | .ok (root, (res, st)) =>
          let outs := "out=" ++ String.join (st.out.map (fun l => "|" ++ l))
          match res with
          | .ok fr =>
            let names := dedupNames root.vars []
            let binds := names.reverse.map (fun n => n ++ "=" ++ (match getValue root fr n with | some v => dumpCVal v | none => "!nonvalue"))
            String.intercalate " ; " (["ok", outs] ++ binds) ++ s!" ; calls={st.calls}"
          | .error (.viol k) => "viol:" ++ showViol k ++ " ; " ++ outs
          | .error (.stuck w) => "stuck:" ++ w ++ " ; " ++ outs
          | .error .oof => "oof ; " ++ outs
          | .error (.val _) => "stuck:value-as-error ; " ++ outs
          | .error (.tail _) => "stuck:tail-escaped ; " ++ outs
    | _, _, _, _, _ => "bad-op"
  | _ => "bad-op"

def parseCell (s : String) : Option Cell :=
  if s == "V" then some .var
  else if s == "R" then some .recur
  else if s.startsWith "C" then
    match (String.ofList (s.toList.drop 1)).splitOn "." with
    | [d, k] => do
        let d' ← d.toNat?
        let k' ← k.toNat?
        pure (.cap d' k')
    | _ => none
  else none

def splitBar (xs : List String) : List (List String) :=
  let rec go (xs : List String) (cur : List String) (acc : List (List String)) : List (List String) :=
    match xs with
    | [] => (cur.reverse :: acc).reverse
    | "|" :: rest => go rest [] (cur.reverse :: acc)
    | x :: rest => go rest (x :: cur) acc
  go xs [] []

def showCellC : Cell → String
  | .var => "V"
  | .recur => "R"
  | .cap d k => s!"C{d}.{k}"

def resolveCmd (args : List String) : String :=
  match args with
  | fuel :: i :: rest =>
    match fuel.toNat?, i.toNat?, (splitBar rest).mapM (fun l => l.mapM parseCell) with
    | some f, some i', some chain =>
      match resolve f chain i' with
      | none => "none"
      | some (d, k) => s!"{d} {k}"
    | _, _, _ => "bad-op"
  | _ => "bad-op"

def threadCmd (args : List String) : String :=
  match args with
  | n :: rest =>
    match n.toNat?, rest.mapM parseCell with
    | some n', some cells =>
      let r := threadCells cells n'
      String.intercalate " " (r.1.map showCellC) ++ " | " ++ String.intercalate " " (r.2.map showCellC)
    | _, _ => "bad-op"
  | _ => "bad-op"

end XrayDriver.ScopeE

namespace XrayDriver

def scopeEngine (f : String) (args : List String) : String :=
  match f with
  | "compile" => ScopeE.compileCmd args
  | "run" => ScopeE.runCmd args
  | "resolve" => ScopeE.resolveCmd args
  | "thread" => ScopeE.threadCmd args
  | _ => "bad-op"

end XrayDriver
