/- line-protocol engine `scope` (stub: answers bad-op until the engine is built) -/
namespace XrayDriver

def scopeEngine (f : String) (args : List String) : String :=
  match f, args with
  | _, _ => "bad-op"

end XrayDriver
