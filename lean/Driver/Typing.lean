/- line-protocol engine `typing` (stub: answers bad-op until the engine is built) -/
namespace XrayDriver

def typingEngine (f : String) (args : List String) : String :=
  match f, args with
  | _, _ => "bad-op"

end XrayDriver
