/- line-protocol engine `typing`: the checker of the core fragment (C01).

Request:  typing check <program as one S-expression with type annotations>
            types: int bool str unk (tupT t..) (arrT t) (fnT (req..) (opt..) ret)
            exprs: (i n) (b true|false) (s w) (v x) (c f a..) (ce f a..) (lam (params) (decls) body)
                   (tup e..) (arr e..) (item e n)
            param: (p name ty) | (pd name ty default)
            decl:  (let x e) | (leta x ty e) | (fn name (params) ret (decls) body)
Response: ok ; <name>=<type> ; …      (every top-level binding, in declaration order)
          reject
          typing run <depth|-> <calls|-> <rec|-> <tco> <fuel> <program>: check, erase, run; answers
          reject | <outcome of the core engine on the erased program>
-/
import XrayModel.CoreTyping
import Driver.Core
open XrayModel.Core XrayModel.CoreTyping
namespace XrayDriver.TypingE
open XrayDriver.CoreE (SExp tokenize parseSExp)

mutual
  partial def toTy : SExp → Option Ty
    | .atom "int" => some .int
    | .atom "bool" => some .bool
    | .atom "str" => some .str
    | .atom "unk" => some .unk
    | .list (.atom "tupT" :: ts) => (ts.mapM toTy).map Ty.tup
    | .list [.atom "arrT", t] => (toTy t).map Ty.arr
    | .list [.atom "fnT", .list req, .list opt, ret] => do
        let r ← req.mapM toTy
        let o ← opt.mapM toTy
        let t ← toTy ret
        pure (.fn r o t)
    | _ => none
end

mutual
  partial def toExpr : SExp → Option TExpr
    | .list [.atom "i", .atom n] => n.toInt?.map TExpr.int
    | .list [.atom "b", .atom "true"] => some (.bool true)
    | .list [.atom "b", .atom "false"] => some (.bool false)
    | .list [.atom "s"] => some (.str "")
    | .list [.atom "s", .atom w] => some (.str (w.replace "_" " "))
    | .list [.atom "v", .atom x] => some (.var x)
    | .list (.atom "c" :: .atom f :: args) => (args.mapM toExpr).map (TExpr.call f)
    | .list (.atom "ce" :: f :: args) => do
        let f' ← toExpr f
        let as ← args.mapM toExpr
        pure (.callE f' as)
    | .list [.atom "lam", .list ps, .list ds, body] => do
        let ps' ← ps.mapM toParam
        let ds' ← ds.mapM toDecl
        let b ← toExpr body
        pure (.lam (.mk none ps' none ds' b))
    | .list (.atom "tup" :: es) => (es.mapM toExpr).map TExpr.tup
    | .list (.atom "arr" :: es) => (es.mapM toExpr).map TExpr.arr
    | .list [.atom "item", e, .atom n] => do
        let e' ← toExpr e
        let i ← n.toNat?
        pure (.item e' i)
    | _ => none
  partial def toParam : SExp → Option TParam
    | .list [.atom "p", .atom n, t] => (toTy t).map (fun t' => .mk n t' none)
    | .list [.atom "pd", .atom n, t, d] => do
        let t' ← toTy t
        let d' ← toExpr d
        pure (.mk n t' (some d'))
    | _ => none
  partial def toDecl : SExp → Option TDecl
    | .list [.atom "let", .atom x, e] => (toExpr e).map (TDecl.letD x none)
    | .list [.atom "leta", .atom x, t, e] => do
        let t' ← toTy t
        let e' ← toExpr e
        pure (.letD x (some t') e')
    | .list [.atom "fn", .atom n, .list ps, ret, .list ds, body] => do
        let ps' ← ps.mapM toParam
        let r ← toTy ret
        let ds' ← ds.mapM toDecl
        let b ← toExpr body
        pure (.fnD (.mk (some n) ps' (some r) ds' b))
    | _ => none
end

partial def showTy : Ty → String
  | .int => "int"
  | .bool => "bool"
  | .str => "str"
  | .unk => "?"
  | .tup ts => "(" ++ String.intercalate ", " (ts.map showTy) ++ ")"
  | .arr t => "Sequence<" ++ showTy t ++ ">"
  | .fn req opt ret =>
      "(" ++ String.intercalate ", " (req.map showTy ++ opt.map (fun t => showTy t ++ "?")) ++ ")->" ++ showTy ret

def parseProg (rest : List String) : Option (List TDecl) :=
  match parseSExp (tokenize (String.intercalate " " rest)) with
  | some (.list (.atom "prog" :: ds)) => ds.mapM toDecl
  | _ => none

def typingCheck (rest : List String) : String :=
  match parseProg rest with
  | none => "bad-op"
  | some ds =>
    match checkProgram ds with
    | none => "reject"
    | some Γ => String.intercalate " ; " ("ok" :: Γ.reverse.map (fun (n, t) => n ++ "=" ++ showTy t))

def typingRun (args : List String) : String :=
  match args with
  | d :: c :: r :: tco :: fuel :: rest =>
    match XrayDriver.CoreE.optNat d, XrayDriver.CoreE.optNat c, XrayDriver.CoreE.optNat r, fuel.toNat?, parseProg rest with
    | some d', some c', some r', some fuel', some ds =>
      match checkProgram ds with
      | none => "reject"
      | some _ =>
        let cfg : Cfg := { depthLimit := d', callLimit := c', recLimit := r', tco := tco != "0" }
        let (res, _) := runProgram fuel' cfg (eraseDs ds)
        match res with
        | .ok _ => "ok"
        | .error (.viol k) => "viol:" ++ XrayDriver.CoreE.showViol k
        | .error (.stuck w) => "stuck:" ++ w
        | .error .oof => "oof"
        | .error (.val _) => "stuck:value-as-error"
        | .error (.tail _) => "stuck:tail-escaped"
    | _, _, _, _, _ => "bad-op"
  | _ => "bad-op"

end XrayDriver.TypingE

namespace XrayDriver

def typingEngine (f : String) (args : List String) : String :=
  match f with
  | "check" => TypingE.typingCheck args
  | "run" => TypingE.typingRun args
  | _ => "bad-op"

end XrayDriver
