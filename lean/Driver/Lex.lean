/- line-protocol engine `lex`: the compiler's lexical handlers (C12, shared with C18).
Texts travel as comma-separated code points (`_` = empty). -/
import XrayModel.Lex
open XrayModel XrayModel.Lex
namespace XrayDriver
namespace LexE

def parseCps (s : String) : Option (List Char) :=
  if s == "_" then some [] else
  (s.splitOn ",").mapM (fun t => t.toNat?.bind (fun n => if n.isValidChar then some (Char.ofNat n) else none))

def showCps (l : List Char) : String :=
  if l.isEmpty then "_" else String.intercalate "," (l.map (fun c => toString c.toNat))

def showSym : Sym → String
  | .item i => s!"item {i}"
  | .regular s => "regular " ++ showCps s

end LexE
open LexE

def lexEngine (f : String) (args : List String) : String :=
  match f, args with
  | "escapes", [s] =>
    (match parseCps s with
     | some cs => (match applyEscapes cs with
        | .ok r => showCps r
        | .error c => "error " ++ c
        | .panic _ => "panic")
     | none => "bad-op")
  | "brace", [s] =>
    (match parseCps s with
     | some cs => showCps (applyBraceEscape cs)
     | none => "bad-op")
  | "number", [s] =>
    (match parseCps s with
     | some cs => (if isNumberAny cs then "tok " else "notok ") ++
        (match numberLiteral cs with
         | .ok (.int v) => s!"int {v}"
         | .ok .float => "float"
         | .error c => "error " ++ c
         | .panic _ => "panic")
     | none => "bad-op")
  | "literal", [s] =>
    (match parseCps s with
     | some cs => (match parseLiteral cs with
        | some (.ok v, []) => "value " ++ showCps v
        | some (.error c, []) => "error " ++ c
        | some (.panic _, _) => "panic"
        | _ => "noparse")
     | none => "bad-op")
  | "intern", [s] =>
    (match parseCps s with
     | some cs => showSym (intern cs) ++ " " ++ showCps (resolve (intern cs))
     | none => "bad-op")
  | _, _ => "bad-op"

end XrayDriver
