/- line-protocol engine `ord`: sorting / heap / selection with injectable comparator failures,
   the derivations of eq/cmp/hash/to_str and the format-specifier machinery (C19) -/
import XrayModel.Sort
import XrayModel.Derive
import XrayModel.Format
open XrayModel
namespace XrayDriver
namespace Ord

def parseInts (s : String) : Option (List Int) :=
  if s == "-" then some [] else (s.splitOn ",").mapM String.toInt?

def showInts (l : List Int) : String :=
  if l.isEmpty then "-" else String.intercalate "," (l.map toString)

/-- comparator of the unit-level tie: compare `x / d` (floor; `d ≥ 1`), fail at comparison `k` -/
def ltKey (d : Int) (k : Int) : Sort.Cmp String Int := fun i a b =>
  if (i : Int) == k then .error "E" else .ok (decide (a / d < b / d))

def showLRes : Sort.LRes String Int → String
  | .ok l n => s!"ok {showInts l} {n}"
  | .fail e b n => s!"fail {e} {showInts b} {n}"
  | .panic => "panic"

/-! values: `i<dec>;` `T` `F` `s<cp>.<cp>…;` `(`items`)` tuple, `[`items`]` sequence,
`{`items`}` stack (top first), `?`item some, `N` none -/
open Derive in
mutual
partial def parseV : List Char → Option (V × List Char)
  | 'i' :: rest =>
    let ds := rest.takeWhile (· != ';')
    match (String.ofList ds).toInt? with
    | some v => some (.int v, (rest.dropWhile (· != ';')).drop 1)
    | none => none
  | 'f' :: rest =>
    let ds := rest.takeWhile (· != ';')
    match (String.ofList ds).toNat? with
    | some v => some (.float (Float.ofBits (UInt64.ofNat v)), (rest.dropWhile (· != ';')).drop 1)
    | none => none
  | 'T' :: rest => some (.bool true, rest)
  | 'F' :: rest => some (.bool false, rest)
  | 'N' :: rest => some (.opt none, rest)
  | '?' :: rest => match parseV rest with
    | some (v, r) => some (.opt (some v), r)
    | none => none
  | 's' :: rest =>
    let body := rest.takeWhile (· != ';')
    let after := (rest.dropWhile (· != ';')).drop 1
    if body.isEmpty then some (.str "", after)
    else match ((String.ofList body).splitOn ".").mapM String.toNat? with
      | some cps => some (.str (String.ofList (cps.map Char.ofNat)), after)
      | none => none
  | '(' :: rest => match parseVs ')' rest with
    | some (l, r) => some (.tuple l, r)
    | none => none
  | '[' :: rest => match parseVs ']' rest with
    | some (l, r) => some (.seq l, r)
    | none => none
  | '{' :: rest => match parseVs '}' rest with
    | some (l, r) => some (.stack l, r)
    | none => none
  | _ => none
partial def parseVs (close : Char) : List Char → Option (List Derive.V × List Char)
  | [] => none
  | c :: rest =>
    if c == close then some ([], rest)
    else match parseV (c :: rest) with
      | some (v, r) => match parseVs close r with
        | some (l, r') => some (v :: l, r')
        | none => none
      | none => none
end

def showCps (s : String) : String := String.intercalate "." (s.toList.map (fun c => toString c.toNat))

open Derive in
partial def showV : V → String
  | .int i => s!"i{i};"
  | .bool b => if b then "T" else "F"
  | .str s => "s" ++ showCps s ++ ";"
  | .float f => s!"f{f.toBits.toNat};"
  | .tuple l => "(" ++ String.join (l.map showV) ++ ")"
  | .seq l => "[" ++ String.join (l.map showV) ++ "]"
  | .stack l => "{" ++ String.join (l.map showV) ++ "}"
  | .opt (some v) => "?" ++ showV v
  | .opt none => "N"

def showRB : Derive.R Bool → String
  | .ok b => s!"bool {b}"
  | .error e => "err " ++ e
def showRI : Derive.R Int → String
  | .ok i => s!"int {i}"
  | .error e => "err " ++ e

open Derive in
def deriveOp (op : String) (a b : V) : String :=
  match op with
  | "eq" => showRB (V.eq a b)
  | "ne" => showRB (Derive.ne V.eq a b)
  | "cmp" => showRI (V.cmp a b)
  | "lt" => showRB (Derive.lt V.cmp a b)
  | "le" => showRB (Derive.le V.cmp a b)
  | "gt" => showRB (Derive.gt V.cmp a b)
  | "ge" => showRB (Derive.ge V.cmp a b)
  | "min" => match Derive.min (Derive.lt V.cmp) a b with | .ok v => "val " ++ showV v | .error e => "err " ++ e
  | "max" => match Derive.max (Derive.lt V.cmp) a b with | .ok v => "val " ++ showV v | .error e => "err " ++ e
  | "hash" => showRI (V.hash sipHasher a)
  | "to_str" => match V.toStr a with | .ok s => "str " ++ showCps s | .error e => "err " ++ e
  | _ => "bad-op"

def cpsToChars (s : String) : Option (List Char) :=
  if s == "-" then some [] else ((s.splitOn ".").mapM String.toNat?).map (·.map Char.ofNat)

def showOC : Option Char → String
  | some c => toString c.toNat
  | none => "-"

def showSpec : Option Format.Spec → String
  | none => "none"
  | some sp =>
    let (fill, align, zero, width) := match sp.fill with
      | none => ("-", "-", "-", "-")
      | some f => (showOC f.filler, showOC f.alignment, (if f.zeroPad then "1" else "0"), toString f.width)
    let prec := match sp.precision with | some p => toString p | none => "-"
    s!"fill={fill} align={align} zero={zero} width={width} prec={prec} sign={showOC sp.sign} group={showOC sp.grouping} type={showOC sp.mode} alt={if sp.alt then 1 else 0}"

def showFmt : Format.FmtRes → String
  | .ok s => "str " ++ String.intercalate "." (s.map (fun c => toString c.toNat))
  | .err _ => "err"
  | .panic => "panic"

/-- the run of `verif_hooks::ord::heap_run`: push all, pop `n`, then drain; same report line -/
def heapRun (d : Int) (k : Int) (dec : Bool) (n : Nat) (xs : List Int) : String :=
  let le : Sort.Cmp String Int := fun i a b =>
    if (i : Int) == k then .error "E" else .ok (if dec then decide (a / d ≤ b / d) else decide (a / d ≥ b / d))
  let drain (data : List Int) (cnt : Nat) : String :=
    match Sort.Heap.popN le (data.length + 1) data [] cnt with
    | .ok (ps, _) _ => showInts ps
    | _ => "drain-failed"
  match Sort.Heap.pushAll le [] xs 0 with
  | .panic => "panic"
  | .fail _ buf cnt => s!"fail popped - len {buf.length} drained {drain buf cnt} n {cnt}"
  | .ok data cnt =>
    -- pops one at a time so that the pops made before a failure are kept
    let rec go (fuel : Nat) (data : List Int) (acc : List Int) (cnt : Nat) : String :=
      match fuel with
      | 0 => s!"ok popped {showInts acc.reverse} len {data.length} drained {drain data cnt} n {cnt}"
      | fuel + 1 =>
        match Sort.Heap.pop le data cnt with
        | .panic => "panic"
        | .fail _ buf c' => s!"fail popped {showInts acc.reverse} len {buf.length} drained {drain buf c'} n {c'}"
        | .ok (none, d') c' => s!"ok popped {showInts acc.reverse} len {d'.length} drained {drain d' c'} n {c'}"
        | .ok (some x, d') c' => go fuel d' (x :: acc) c'
    go n data [] cnt

end Ord

def ordEngine (f : String) (args : List String) : String :=
  match f, args with
  | "sort", [d, k, xs] =>
    match d.toInt?, k.toInt?, Ord.parseInts xs with
    | some d, some k, some xs => if d ≥ 1 then Ord.showLRes (Sort.trySort (Ord.ltKey d k) xs) else "bad-op"
    | _, _, _ => "bad-op"
  | "heap", [d, k, dec, n, xs] =>
    match d.toInt?, k.toInt?, n.toNat?, Ord.parseInts xs with
    | some d, some k, some n, some xs => if d ≥ 1 then Ord.heapRun d k (dec == "1") n xs else "bad-op"
    | _, _, _, _ => "bad-op"
  | "nlargest", [d, dec, n, xs] =>
    -- `Heap.nLargest` itself (push all, pop n) with the comparator by key x / d
    match d.toInt?, n.toNat?, Ord.parseInts xs with
    | some d, some n, some xs =>
      if d ≥ 1 then
        let le : Sort.Cmp String Int := fun _ a b =>
          .ok (if dec == "1" then decide (a / d ≤ b / d) else decide (a / d ≥ b / d))
        Ord.showLRes (Sort.Heap.nLargest le n xs)
      else "bad-op"
    | _, _, _ => "bad-op"
  | "pairfail", [fn, k, fa, fb, xs] =>
    -- comparators that answer an error on the PAIR {fa, fb} (either order), plain integer order otherwise,
    -- through `XSequence::sorted` (pre-pass + try_sort), quickselect and the heap
    match k.toNat?, fa.toInt?, fb.toInt?, Ord.parseInts xs with
    | some k, some fa, some fb, some xs =>
      let hit (a b : Int) : Bool := (a == fa && b == fb) || (a == fb && b == fa)
      let cmp3 (neg : Bool) : Sort.Cmp3 String Int := fun _ a b =>
        if hit a b then .error "pair" else .ok (if neg then Derive.sign (b - a) else Derive.sign (a - b))
      let showSel : Option (Sort.Res String Int (Int × List Int)) → String
        | none => "oob"
        | some (.ok (x, _) _) => s!"ok {x}"
        | some (.fail _ _ _) => "fail"
        | some .panic => "panic"
      let showSorted (xs : List Int) : Sort.Res String Int (Option (List Int)) → String
        | .ok none _ => s!"ok {Ord.showInts xs}"
        | .ok (some l) _ => s!"ok {Ord.showInts l}"
        | .fail _ _ _ => "fail"
        | .panic => "panic"
      let showL : Sort.LRes String Int → String
        | .ok l _ => s!"ok {Ord.showInts l}"
        | .fail _ _ _ => "fail"
        | .panic => "panic"
      match fn with
      | "sort" => showSorted xs (Sort.seqSorted (cmp3 false) xs)
      | "sort_reverse" => showSorted xs (Sort.seqSorted (cmp3 true) xs)
      | "nth_smallest" => showSel (Sort.Select.nthSmallest (cmp3 false) xs k)
      | "nth_largest" => showSel (Sort.Select.nthLargest (cmp3 false) xs k)
      | "median" => showSel (Sort.Select.median (cmp3 false) xs)
      | "n_largest" => showL (Sort.Heap.nLargest (fun i a b => (cmp3 false i a b).map (fun c => decide (c ≤ 0))) k xs)
      | "n_smallest" => showL (Sort.Heap.nLargest (fun i a b => (cmp3 false i a b).map (fun c => decide (c ≥ 0))) k xs)
      | _ => "bad-op"
    | _, _, _, _ => "bad-op"
  | "select", [d, target, fa, fb, xs] =>
    -- quickselect by key x / d; the comparator errors on the pair (fa, fb)
    match d.toInt?, target.toNat?, fa.toInt?, fb.toInt?, Ord.parseInts xs with
    | some d, some t, some fa, some fb, some xs =>
      if d ≥ 1 then
        let cmp : Sort.Cmp3 String Int := fun _ a b =>
          if a == fa && (fb == -1 || b == fb) then .error "E" else .ok (Derive.sign (a / d - b / d))
        match Sort.Select.nthSmallest cmp xs t with
        | none => "oob"
        | some (.ok (x, _) _) => s!"ok {x}"
        | some (.fail _ _ _) => "fail"
        | some .panic => "panic"
      else "bad-op"
    | _, _, _, _, _ => "bad-op"
  | "derive", [op, a, b] =>
    match Ord.parseV a.toList, Ord.parseV b.toList with
    | some (va, []), some (vb, []) => Ord.deriveOp op va vb
    | _, _ => "bad-op"
  | "spec", [s] => match Ord.cpsToChars s with
    | some cs => Ord.showSpec (Format.parseSpec cs)
    | none => "bad-op"
  | "fillers", [s, len] => match Ord.cpsToChars s, len.toNat? with
    | some cs, some n => match Format.parseSpec cs with
      | some sp => match sp.fill with
        | some f => let p := Format.fillers f n
                    String.ofList p.1 ++ "|" ++ String.ofList p.2.1 ++ "|" ++ String.ofList p.2.2
        | none => "none"
      | none => "none"
    | _, _ => "bad-op"
  | "fmtint", [i, s] => match i.toInt?, Ord.cpsToChars s with
    | some i, some cs => Ord.showFmt (Format.formatInt i cs)
    | _, _ => "bad-op"
  | "fmtstr", [x, s] => match Ord.cpsToChars x, Ord.cpsToChars s with
    | some x, some cs => Ord.showFmt (Format.formatStr x cs)
    | _, _ => "bad-op"
  | _, _ => "bad-op"

end XrayDriver
