/- line-protocol engine `ord`: sorting / heap / selection with injectable comparator failures,
   the derivations of eq/cmp/hash/to_str and the format-specifier machinery (C19) -/
import XrayModel.Sort
open XrayModel
namespace XrayDriver
namespace Ord

def parseInts (s : String) : Option (List Int) :=
  if s == "-" then some [] else (s.splitOn ",").mapM String.toInt?

def showInts (l : List Int) : String :=
  if l.isEmpty then "-" else String.intercalate "," (l.map toString)

/-- comparator of the unit-level tie: compare `x / d` (floor; `d ≥ 1`), fail at comparison `k` -/
def ltKey (d : Int) (k : Int) : Sort.Cmp String Int := fun i a b =>
  if (i : Int) == k then .error "E" else .ok (decide (a / d < b / d))

def showLRes : Sort.LRes String Int → String
  | .ok l n => s!"ok {showInts l} {n}"
  | .fail e b n => s!"fail {e} {showInts b} {n}"
  | .panic => "panic"

end Ord

def ordEngine (f : String) (args : List String) : String :=
  match f, args with
  | "sort", [d, k, xs] =>
    match d.toInt?, k.toInt?, Ord.parseInts xs with
    | some d, some k, some xs => if d ≥ 1 then Ord.showLRes (Sort.trySort (Ord.ltKey d k) xs) else "bad-op"
    | _, _, _ => "bad-op"
  | _, _ => "bad-op"

end XrayDriver
