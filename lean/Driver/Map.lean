/- line-protocol engine `map` (C17): operation histories over mappings and sets with a configurable
   user hash / equality.

   `map mrun <k0> <hk> <m> <badc> <badkind> <eqerrc> <op> <op> …`   mapping history
   `map srun <k0> <hk> <m> <badc> <badkind> <eqerrc> <op> <op> …`   set history

   hash(k) = if k % k0 == badc then (-1 | 2^64 | error) else (k % hk) % m
   eq(a,b) = if a % k0 == eqerrc || b % k0 == eqerrc then error else a % k0 == b % k0
   Version 0 is the empty collection; every version-producing op appends one version (possibly an error).
   The answer is the dump of every version (after the whole history has run) and of every query op. -/
import XrayModel.HashMap
open XrayModel.HM
namespace XrayDriver.MapEng

structure Cfg where
  k0 : Int
  hk : Int
  m : Int
  badc : Int
  badkind : Int
  eqerrc : Int

def Cfg.hash (c : Cfg) (k : Int) : Res Int :=
  if c.badc ≥ 0 ∧ k % c.k0 = c.badc then
    (if c.badkind = 1 then .ok (-1)
     else if c.badkind = 2 then .ok 18446744073709551616
     else .error (.err "boom"))
  else .ok ((k % c.hk) % c.m)

def Cfg.eq (c : Cfg) (a b : Int) : Res Bool :=
  if c.eqerrc ≥ 0 ∧ (a % c.k0 = c.eqerrc ∨ b % c.k0 = c.eqerrc) then .error (.err "eqboom")
  else .ok (a % c.k0 == b % c.k0)

def keyUniverse : List Int := [0, 1, 2, 3, 4, 5, 6, 7]

def showErr : Err → String
  | .err "hash is out of bounds" => "!oob"
  | .err "hash out of bounds" => "!oob"
  | .err "key not found" => "!nf"
  | .err "item not found" => "!nf"
  | .err _ => "!user"
  | .panic _ => "!panic"

def showRes {α : Type} (f : α → String) : Res α → String
  | .ok a => f a
  | .error e => showErr e

def showOpt : Option Int → String
  | none => "n"
  | some v => toString v

def showBool (b : Bool) : String := if b then "t" else "f"

def commas (l : List String) : String := String.intercalate "," l

def showBuckets {V : Type} (sv : Int × V → String) (t : Table Int V) : String :=
  String.intercalate ";" (t.buckets.map (fun hb => toString hb.1 ++ "[" ++ String.intercalate "+" (hb.2.map sv) ++ "]"))

/-- callbacks used by every `ufk` op -/
def onEmpty (k : Int) : Res Int := if k = 7 then .error (.err "oe") else .ok (k * 10 + 1)
def onOcc (k v : Int) : Res Int := if v % 10 = 3 then .error (.err "oc") else .ok ((v + k + 1) % 100)
/-- function used by every `mv` op -/
def mvFn (v : Int) : Res Int := if v = 13 then .error (.err "mf") else .ok ((v * 3 + 1) % 100)

def parseInts (s : String) : Option (List Int) :=
  if s = "" then some [] else (s.splitOn ",").mapM String.toInt?

def parsePairs (s : String) : Option (List (Int × Int)) :=
  if s = "" then some [] else
    (s.splitOn ",").mapM (fun p => match p.splitOn "=" with
      | [a, b] => do let x ← a.toInt?; let y ← b.toInt?; pure (x, y)
      | _ => none)

abbrev MT := Table Int Int
abbrev ST := Table Int Unit

structure St (T : Type) where
  vers : Array (Res T)
  results : Array String

def getVer {T : Type} (st : St T) (s : String) : Option (Res T) :=
  match s.toNat? with
  | none => none
  | some i => st.vers[i]?

def bind1 {T α : Type} (a : Res T) (f : T → Res α) : Res α :=
  match a with
  | .error e => .error e
  | .ok t => f t

def bind2 {T α : Type} (a b : Res T) (f : T → T → Res α) : Res α :=
  match a with
  | .error e => .error e
  | .ok x => match b with
    | .error e => .error e
    | .ok y => f x y

def pushV {T : Type} (st : St T) (v : Res T) : St T := { st with vers := st.vers.push v }
def pushR {T : Type} (st : St T) (r : String) : St T := { st with results := st.results.push r }

/-- one mapping op -/
def mstep (c : Cfg) (st : St MT) (op : String) : Option (St MT) :=
  let H := c.hash
  let E := c.eq
  match op.splitOn ":" with
  | ["set", s, k, v] => do
    let t ← getVer st s; let k ← k.toInt?; let v ← v.toInt?
    pure (pushV st (bind1 t fun t => set H E t k v))
  | ["sd", s, k, v] => do
    let t ← getVer st s; let k ← k.toInt?
    let v : Res Int ← if v = "E" then some (.error (.err "verr")) else v.toInt?.map .ok
    pure (pushV st (bind1 t fun t => setDefault H E t k (fun _ => v)))
  | ["pop", s, k] => do
    let t ← getVer st s; let k ← k.toInt?
    pure (pushV st (bind1 t fun t => pop H E t k))
  | ["dis", s, k] => do
    let t ← getVer st s; let k ← k.toInt?
    pure (pushV st (bind1 t fun t => discard H E t k))
  | ["upd", s, kvs] => do
    let t ← getVer st s; let kvs ← parsePairs kvs
    pure (pushV st (bind1 t fun t => update H E t (kvs.map .ok)))
  | ["updm", s, s2] => do
    let t ← getVer st s; let t2 ← getVer st s2
    pure (pushV st (bind2 t t2 fun t t2 => updateFromMapping H E t t2))
  | ["ufk", s, ks] => do
    let t ← getVer st s; let ks ← parseInts ks
    pure (pushV st (bind1 t fun t => updateFromKeys H E onEmpty onOcc t (ks.map .ok)))
  | ["cnt", s, ks] => do
    let t ← getVer st s; let ks ← parseInts ks
    pure (pushV st (bind1 t fun t => updateCounter H E t (ks.map .ok)))
  | ["clr", s] => do
    let t ← getVer st s
    pure (pushV st (bind1 t fun t => .ok (clear t)))
  | ["mv", s] => do
    let t ← getVer st s
    pure (pushV st (bind1 t fun t => mapValues H E mvFn t))
  | ["eq", s, s2] => do
    let t ← getVer st s; let t2 ← getVer st s2
    pure (pushR st (showRes showBool (bind2 t t2 fun a b => dynEq H E (fun x y => .ok (x == y)) a b)))
  | ["g2", s, k] => do
    let t ← getVer st s; let k ← k.toInt?
    pure (pushR st (showRes toString (bind1 t fun t => get2 H E t k)))
  | ["has", s, k] => do
    let t ← getVer st s; let k ← k.toInt?
    pure (pushR st (showRes showBool (bind1 t fun t => contains H E t k)))
  | _ => none

def dumpM (c : Cfg) (t : Res MT) : String :=
  match t with
  | .error e => showErr e
  | .ok t =>
    let H := c.hash
    let E := c.eq
    "ok E=" ++ commas ((toList t).map fun kv => s!"{kv.1}:{kv.2}")
      ++ " L=" ++ toString t.len
      ++ " K=" ++ commas (keyUniverse.map fun u => showRes showOpt (lookup H E t u))
      ++ " G=" ++ commas (keyUniverse.map fun u => showRes toString (get3 H E t u (fun _ => .ok (-1))))
      ++ " H=" ++ showRes toString (dynHash (fun v => .ok v) t)
      ++ " B=" ++ showBuckets (fun kv => s!"{kv.1}:{kv.2}") t

/-- one set op -/
def sstep (c : Cfg) (st : St ST) (op : String) : Option (St ST) :=
  let H := c.hash
  let E := c.eq
  let bin (s s2 : String) (f : ST → ST → Res ST) : Option (St ST) := do
    let a ← getVer st s; let b ← getVer st s2
    pure (pushV st (bind2 a b f))
  let rel (s s2 : String) (f : ST → ST → Res Bool) : Option (St ST) := do
    let a ← getVer st s; let b ← getVer st s2
    pure (pushR st (showRes showBool (bind2 a b f)))
  match op.splitOn ":" with
  | ["add", s, k] => do
    let t ← getVer st s; let k ← k.toInt?
    pure (pushV st (bind1 t fun t => sAdd H E t k))
  | ["rem", s, k] => do
    let t ← getVer st s; let k ← k.toInt?
    pure (pushV st (bind1 t fun t => sRemove H E t k))
  | ["dis", s, k] => do
    let t ← getVer st s; let k ← k.toInt?
    pure (pushV st (bind1 t fun t => sDiscard H E t k))
  | ["upd", s, ks] => do
    let t ← getVer st s; let ks ← parseInts ks
    pure (pushV st (bind1 t fun t => sUpdate H E t (ks.map .ok)))
  | ["clr", s] => do
    let t ← getVer st s
    pure (pushV st (bind1 t fun t => .ok (clear t)))
  | ["or", s, s2] => bin s s2 (bitOr H E)
  | ["and", s, s2] => bin s s2 (bitAnd H E)
  | ["sub", s, s2] => bin s s2 (sSub H E)
  | ["xor", s, s2] => bin s s2 (bitXor H E)
  | ["eq", s, s2] => rel s s2 (sEq H E)
  | ["le", s, s2] => rel s s2 (sLe H E)
  | ["lt", s, s2] => rel s s2 (sLt H E)
  | ["ge", s, s2] => rel s s2 (sGe H E)
  | ["gt", s, s2] => rel s s2 (sGt H E)
  | ["disj", s, s2] => rel s s2 (isDisjoint H E)
  | _ => none

def dumpS (c : Cfg) (t : Res ST) : String :=
  match t with
  | .error e => showErr e
  | .ok t =>
    "ok E=" ++ commas ((sToList t).map toString)
      ++ " L=" ++ toString t.len
      ++ " C=" ++ commas (keyUniverse.map fun u => showRes showBool (sContains c.hash c.eq t u))
      ++ " H=" ++ toString (sHash t)
      ++ " B=" ++ showBuckets (fun kv => toString kv.1) t

def runOps {T : Type} (step : St T → String → Option (St T)) : St T → List String → Option (St T)
  | st, [] => some st
  | st, op :: rest =>
    match step st op with
    | none => none
    | some st' => runOps step st' rest

def parseCfg : List String → Option (Cfg × List String)
  | k0 :: hk :: m :: badc :: badkind :: eqerrc :: ops => do
    let k0 ← k0.toInt?; let hk ← hk.toInt?; let m ← m.toInt?
    let badc ← badc.toInt?; let badkind ← badkind.toInt?; let eqerrc ← eqerrc.toInt?
    if k0 ≤ 0 ∨ hk ≤ 0 ∨ m ≤ 0 then none else
    pure ({ k0, hk, m, badc, badkind, eqerrc }, ops)
  | _ => none

def finish {T : Type} (dump : Res T → String) (st : St T) : String :=
  String.intercalate " | " (st.vers.toList.map dump) ++ " || " ++ String.intercalate " " st.results.toList

/-- `to_array()` of a stream: the first error item is the result -/
def collect {α : Type} (f : α → String) (l : List (Res α)) : String :=
  match l.find? (fun r => match r with | .error _ => true | .ok _ => false) with
  | some (.error e) => showErr e
  | _ => commas (l.filterMap fun r => match r with | .ok a => some (f a) | .error _ => none)

/-- `map crun <cfg> wc|ds <k,k,..>`: `with_count(h, e)` / `distinct(h, e)` over the stream of keys -/
def consumerRun (c : Cfg) (kind : String) (ks : List Int) : String :=
  let items : List (Res Int) := ks.map .ok
  match kind with
  | "wc" => collect (fun kc => s!"{kc.1}:{kc.2}") (withCount c.hash c.eq empty items)
  | "ds" => collect toString (distinct c.hash c.eq items)
  | _ => "bad-op"

end XrayDriver.MapEng

namespace XrayDriver
open MapEng

def mapEngine (f : String) (args : List String) : String :=
  match f, parseCfg args with
  | "mrun", some (c, ops) =>
    match runOps (mstep c) { vers := #[.ok empty], results := #[] } ops with
    | none => "bad-op"
    | some st => finish (dumpM c) st
  | "srun", some (c, ops) =>
    match runOps (sstep c) { vers := #[.ok empty], results := #[] } ops with
    | none => "bad-op"
    | some st => finish (dumpS c) st
  | "crun", some (c, [kind, ks]) =>
    match parseInts ks with
    | none => "bad-op"
    | some ks => consumerRun c kind ks
  | _, _ => "bad-op"

end XrayDriver
