/- `core runx …`: the same line protocol as `core run` (Driver/Core.lean) for the extended evaluator
`XrayModel/CoreX.lean`.  Additional S-expression forms: (variant <tag> e) (mval e <tag>) (mopt e <tag>);
additional dumps: (union <tag> v) (some v) (none). -/
import XrayModel.CoreX
open XrayModel.CoreX
namespace XrayDriver.CoreXE

inductive SExp where
  | atom (s : String)
  | list (xs : List SExp)
  deriving Inhabited

/-- tokenizer: parentheses and whitespace-separated atoms -/
def tokenize (s : String) : List String :=
  let rec go (cs : List Char) (cur : List Char) (acc : List String) : List String :=
    match cs with
    | [] => (if cur.isEmpty then acc else String.ofList cur.reverse :: acc).reverse
    | c :: rest =>
      if c == '(' || c == ')' then
        let acc := if cur.isEmpty then acc else String.ofList cur.reverse :: acc
        go rest [] (String.singleton c :: acc)
      else if c == ' ' then
        let acc := if cur.isEmpty then acc else String.ofList cur.reverse :: acc
        go rest [] acc
      else go rest (c :: cur) acc
  go s.toList [] []

/-- parse one S-expression from a token list using an explicit stack (no recursion on the tree) -/
def parseSExp (toks : List String) : Option SExp :=
  let rec go (toks : List String) (stack : List (List SExp)) : Option SExp :=
    match toks with
    | [] => match stack with
        | [[x]] => some x
        | _ => none
    | "(" :: rest => go rest ([] :: stack)
    | ")" :: rest => match stack with
        | top :: below :: more => go rest ((SExp.list top.reverse :: below) :: more)
        | _ => none
    | t :: rest => match stack with
        | top :: more => go rest ((SExp.atom t :: top) :: more)
        | [] => none
  go toks [[]]

mutual
  partial def toExpr : SExp → Option Expr
    | .list [.atom "i", .atom n] => n.toInt?.map Expr.int
    | .list [.atom "b", .atom "true"] => some (.bool true)
    | .list [.atom "b", .atom "false"] => some (.bool false)
    | .list [.atom "s"] => some (.str "")
    | .list [.atom "s", .atom w] => some (.str (w.replace "_" " "))
    | .list [.atom "v", .atom x] => some (.var x)
    | .list (.atom "c" :: .atom f :: args) => (args.mapM toExpr).map (Expr.call f)
    | .list (.atom "ce" :: f :: args) => do
        let f' ← toExpr f
        let as ← args.mapM toExpr
        pure (.callE f' as)
    | .list [.atom "lam", .list ps, .list ds, body] => do
        let ps' ← ps.mapM toParam
        let ds' ← ds.mapM toDecl
        let b ← toExpr body
        pure (.lam (.mk none ps' ds' b))
    | .list (.atom "tup" :: es) => (es.mapM toExpr).map Expr.tup
    | .list (.atom "arr" :: es) => (es.mapM toExpr).map Expr.arr
    | .list [.atom "item", e, .atom n] => do
        let e' ← toExpr e
        let i ← n.toNat?
        pure (.item e' i)
    | .list [.atom "variant", .atom n, e] => do
        let e' ← toExpr e
        let i ← n.toNat?
        pure (.variant i e')
    | .list [.atom "mval", e, .atom n] => do
        let e' ← toExpr e
        let i ← n.toNat?
        pure (.memberValue e' i)
    | .list [.atom "mopt", e, .atom n] => do
        let e' ← toExpr e
        let i ← n.toNat?
        pure (.memberOpt e' i)
    | _ => none
  partial def toParam : SExp → Option Param
    | .list [.atom "p", .atom n] => some (.mk n none)
    | .list [.atom "pd", .atom n, d] => (toExpr d).map (fun d' => .mk n (some d'))
    | _ => none
  partial def toDecl : SExp → Option Decl
    | .list [.atom "let", .atom x, e] => (toExpr e).map (Decl.letD x)
    | .list [.atom "fn", .atom n, .list ps, .list ds, body] => do
        let ps' ← ps.mapM toParam
        let ds' ← ds.mapM toDecl
        let b ← toExpr body
        pure (.fnD (.mk (some n) ps' ds' b))
    | _ => none
end

partial def dumpVal : Val → String
  | .int n => s!"(int {n})"
  | .bool b => s!"(bool {b})"
  | .str s => "(str \"" ++ s ++ "\")"
  | .tup vs => "(struct" ++ String.join (vs.map (fun v => " " ++ dumpVal v)) ++ ")"
  | .arr vs => "(seq" ++ String.join (vs.map (fun v => " " ++ dumpVal v)) ++ ")"
  | .clos .. => "(fn)"
  | .err m => "(error \"" ++ m ++ "\")"
  | .variant t v => s!"(union {t} " ++ dumpVal v ++ ")"
  | .some v => "(some " ++ dumpVal v ++ ")"
  | .none => "(none)"

def showViol : Viol → String
  | .depth => "MaximumStackDepth"
  | .calls => "MaximumUDCall"
  | .recursion => "MaximumRecursion"

def optNat (s : String) : Option (Option Nat) :=
  if s == "-" then some none else s.toNat?.map some

def coreRunX (args : List String) : String :=
  match args with
  | d :: c :: r :: tco :: fuel :: rest =>
    match optNat d, optNat c, optNat r, fuel.toNat?, parseSExp (tokenize (String.intercalate " " rest)) with
    | some d', some c', some r', some fuel', some (.list (.atom "prog" :: ds)) =>
      match ds.mapM toDecl with
      | none => "bad-op"
      | some decls =>
        let cfg : Cfg := { depthLimit := d', callLimit := c', recLimit := r', tco := tco != "0" }
        let (res, st) := runProgram fuel' cfg decls
        let outs := "out=" ++ String.join (st.out.map (fun l => "|" ++ l))
        match res with
        | .ok fr =>
            let binds := fr.env.reverse.map (fun (n, v) => n ++ "=" ++ dumpVal v)
            String.intercalate " ; " (["ok", outs] ++ binds) ++ s!" ; calls={st.calls}"
        | .error (.viol k) => "viol:" ++ showViol k ++ " ; " ++ outs
        | .error (.stuck w) => "stuck:" ++ w ++ " ; " ++ outs
        | .error .oof => "oof ; " ++ outs
        | .error (.val _) => "stuck:value-as-error ; " ++ outs
        | .error (.tail _) => "stuck:tail-escaped ; " ++ outs
    | _, _, _, _, _ => "bad-op"
  | _ => "bad-op"

end XrayDriver.CoreXE
