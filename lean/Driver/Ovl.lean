/- line-protocol engine `ovl`: overload resolution (C05).
  ovl resolve <nargs> <arg types…> <cands…>     each candidate: `s`|`d`|`S` (static, dynamic, static with
  short_circuit_overloads) then its id, then its spec as a func type `x:G:N:R …` (prefix notation of Driver.Ty)
answers `ok <id>` | `ambiguous` | `nooverload`. -/
import XrayModel.Overload
import Driver.Ty
open XrayModel
namespace XrayDriver
namespace OvlEng

def parseCands : Nat → List String → Option (List Cand)
  | 0, _ => none
  | _, [] => some []
  | fuel + 1, k :: id :: rest =>
    match TyEng.parseTyFuel (rest.length + 1) rest with
    | some (.func g ps n r, rest') =>
      match parseCands fuel rest' with
      | some cs =>
        some ({ id := id.toNat!, kind := if k == "d" then .dynamic else .static,
                spec := { gens := g, ps := ps, nreq := n, ret := r, shortCircuit := k == "S" } } :: cs)
      | none => none
    | _ => none
  | _, _ => none

def parseArgs : Nat → List String → Option (List Ty × List String)
  | 0, rest => some ([], rest)
  | n + 1, rest =>
    match TyEng.parseTyFuel (rest.length + 1) rest with
    | some (t, rest') =>
      match parseArgs n rest' with
      | some (ts, r) => some (t :: ts, r)
      | none => none
    | none => none

/-- `n` candidates: `<k> <id> <func type>` with k = s | d | S (short circuit) | p (static, pending forward) -/
def parseNCands : Nat → List String → Option (List Cand × List String)
  | 0, rest => some ([], rest)
  | n + 1, k :: id :: rest =>
    match TyEng.parseTyFuel (rest.length + 1) rest with
    | some (.func g ps q r, rest') =>
      match parseNCands n rest' with
      | some (cs, rest'') =>
        some ({ id := id.toNat!, kind := if k == "d" then .dynamic else .static, pending := k == "p",
                spec := { gens := g, ps := ps, nreq := q, ret := r, shortCircuit := k == "S" } } :: cs, rest'')
      | none => none
    | _ => none
  | _, _ => none

/-- `n` scope levels, innermost first: `<height> <recourse: - | func type> <ncands> <cands…>` -/
def parseLevels : Nat → List String → Option (List ScopeLevel)
  | 0, [] => some []
  | 0, _ => none
  | _ + 1, [] => none
  | n + 1, hgt :: toks =>
    let rec_ : Option (Option Ty × List String) :=
      match toks with
      | "-" :: rest => some (none, rest)
      | _ =>
        match TyEng.parseTyFuel (toks.length + 1) toks with
        | some (t, rest) => some (some t, rest)
        | none => none
    match rec_ with
    | some (rt, cnt :: rest) =>
      match parseNCands cnt.toNat! rest with
      | some (cs, rest') =>
        match parseLevels n rest' with
        | some ls => some ({ funcs := cs.map (fun c => { c with height := hgt.toNat! }), recourse := rt, height := hgt.toNat! } :: ls)
        | none => none
      | none => none
    | _ => none

end OvlEng

def ovlEngine (f : String) (args : List String) : String :=
  match f, args with
  | "resolve", n :: rest =>
    match OvlEng.parseArgs n.toNat! rest with
    | some (as, rest') =>
      match OvlEng.parseCands (rest'.length + 1) rest' with
      | some cs =>
        match resolve cs as with
        | .ok i => s!"ok {i}"
        | .ambiguous _ _ => "ambiguous"
        | .noOverload => "nooverload"
      | none => "bad-op"
    | none => "bad-op"
  | "resolve_at", n :: rest =>
    match OvlEng.parseArgs n.toNat! rest with
    | some (as, nl :: rest') =>
      match OvlEng.parseLevels nl.toNat! rest' with
      | some ls =>
        match resolveAt ls as with
        | .ok i => s!"ok {i}"
        | .ambiguous _ _ => "ambiguous"
        | .noOverload => "nooverload"
      | none => "bad-op"
    | _ => "bad-op"
  | _, _ => "bad-op"

end XrayDriver
