/- line-protocol engine `fl` (stub: answers bad-op until the engine is built) -/
namespace XrayDriver

def flEngine (f : String) (args : List String) : String :=
  match f, args with
  | _, _ => "bad-op"

end XrayDriver
