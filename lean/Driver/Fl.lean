/- line-protocol engine `fl` (C13): the float-site model instantiated with Lean's `Float` (IEEE binary64).

  fl sites                      -> `idx|file|line|fn|ok;…`   (the generated table; ok = not unguarded)
  fl op <name> <hex16>…         -> `(float <hex16>)` | `err` | `stuck`
     lit a | json a | neg a | add a b | sub a b | mul a b | div a b | negneg a | pairneg a b
-/
import XrayModel.FloatSites
import Generated.FloatSites
open XrayModel.FloatSites
namespace XrayDriver

def flDom : FloatDom := { F := Float, J := Float, isFin := Float.isFinite, neg := Float.neg, ofJson := id }

def flHexVal (c : Char) : Option Nat :=
  if '0' ≤ c ∧ c ≤ '9' then some (c.toNat - '0'.toNat)
  else if 'a' ≤ c ∧ c ≤ 'f' then some (c.toNat - 'a'.toNat + 10)
  else none

def flParse (s : String) : Option Float :=
  if s.length != 16 then none else
  (s.toList.foldlM (fun (acc : Nat) c => (flHexVal c).map (fun d => acc * 16 + d)) 0).map
    (fun n => Float.ofBits (UInt64.ofNat n))

def flHex (x : Float) : String :=
  let n := x.toBits.toNat
  let digs := (List.range 16).map (fun i => (n / 16 ^ (15 - i)) % 16)
  String.ofList (digs.map (fun d => if d < 10 then Char.ofNat (d + 48) else Char.ofNat (d + 87)))

def flShow : V Float → String
  | .flt x => s!"(float {flHex x})"
  | .err => "err"
  | .other => "other"
  | .pair a b => s!"(tuple {flShow a} {flShow b})"
  | .stuck => "stuck"

def flAdd (a b : Float) : Float := a + b
def flSub (a b : Float) : Float := a - b
def flMul (a b : Float) : Float := a * b
def flDiv (a b : Float) : Float := a / b

def flSite (p : FSite → Bool) : Nat := Generated.FloatSites.sites.findIdx p

def flEngine (f : String) (args : List String) : String :=
  let T := Generated.FloatSites.sites
  let checked := flSite (fun s => s.file == "xvalue.rs" && s.fn == "float")
  let lit := flSite (fun s => s.file == "runtime_scope.rs")
  let negS := flSite (fun s => s.fn == "add_float_neg")
  let jsonS := flSite (fun s => s.file == "builtin/json.rs")
  let ev (e : FExpr flDom) : String := flShow (eval flDom T e)
  match f, args with
  | "sites", [] =>
    String.intercalate ";" (T.zipIdx.map (fun (s, i) => s!"{i}|{s.file}|{s.line}|{s.fn}|{siteOk s}"))
  | "op", name :: hs =>
    match hs.mapM flParse with
    | none => "bad-op"
    | some xs =>
      match name, xs with
      | "lit", [a] => ev (.ext lit a)
      | "json", [a] => ev (.json jsonS a)
      | "neg", [a] => ev (.un negS .neg (.ext lit a))
      | "negneg", [a] => ev (.un negS .neg (.un negS .neg (.ext lit a)))
      | "add", [a, b] => ev (.bin checked (.fn2 flAdd) (.ext lit a) (.ext lit b))
      | "sub", [a, b] => ev (.bin checked (.fn2 flSub) (.ext lit a) (.ext lit b))
      | "mul", [a, b] => ev (.bin checked (.fn2 flMul) (.ext lit a) (.ext lit b))
      | "div", [a, b] => ev (.bin checked (.fn2 flDiv) (.ext lit a) (.ext lit b))
      | "pairneg", [a, b] => ev (.pair (.un negS .neg (.ext lit a)) (.bin checked (.fn2 flMul) (.ext lit a) (.ext lit b)))
      | _, _ => "bad-op"
  | _, _ => "bad-op"

end XrayDriver
