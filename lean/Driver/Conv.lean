/- line-protocol engine `conv` (C20): the generated standard-library definitions (`std <fn> <ints…> | <fixed-point
floats…>`) and the hand-written conversion models. -/
import Generated.StdInt
namespace XrayDriver
open XrayGen

/-- scale of the driver's exact fixed point: a float argument `t` is sent as the integer `t * 2^20` -/
def convScale : Int := 1048576

def splitBar (xs : List String) : List String × List String :=
  match xs.span (fun s => s != "|") with
  | (a, _ :: b) => (a, b)
  | (a, []) => (a, [])

/-- `rows lo n`: for the `n` Julian days from `lo`: `year month day julian_day(date) weekday(date)`, `;`-separated -/
def dateRows (lo : Int) : Nat → List String
  | 0 => []
  | n + 1 =>
    let d := date lo
    s!"{d.year} {d.month} {d.day} {julian_day d} {weekday d}" :: dateRows (lo + 1) n

def convEngine (f : String) (args : List String) : String :=
  match f, args with
  | "std", name :: rest =>
    let (is, fs) := splitBar rest
    match is.mapM String.toInt?, fs.mapM String.toInt? with
    | some ints, some floats =>
      match stdCall (fixOps convScale) toString name ints floats with
      | some r => r
      | none => "bad-op"
    | _, _ => "bad-op"
  | "rows", [lo, n] =>
    match lo.toInt?, n.toNat? with
    | some lo, some n => String.intercalate ";" (dateRows lo n)
    | _, _ => "bad-op"
  | "names", [] => String.intercalate " " stdNames
  | _, _ => "bad-op"

end XrayDriver
