/- line-protocol engine `conv` (C20): the generated standard-library definitions (`std <fn> <ints…> | <fixed-point
floats…>`) and the hand-written conversion models. -/
import Generated.StdInt
import XrayModel.Conv
namespace XrayDriver
open XrayGen XrayModel.Conv

/-- scale of the driver's exact fixed point: a float argument `t` is sent as the integer `t * 2^20` -/
def convScale : Int := 1048576

def splitBar (xs : List String) : List String × List String :=
  match xs.span (fun s => s != "|") with
  | (a, _ :: b) => (a, b)
  | (a, []) => (a, [])

/-- strings travel as comma-separated code points, `-` is the empty string -/
def parseCps (s : String) : Option (List Nat) :=
  if s == "-" then some [] else (s.splitOn ",").mapM String.toNat?

def showCps (l : List Nat) : String :=
  if l.isEmpty then "-" else String.intercalate "," (l.map toString)

/-- JSON documents travel in prefix form: `n:<cps>` `b:0|1` `s:<cps>` `z` `a:<k> item…` `o:<k> (key item)…` -/
def parseJ : Nat → List String → Option (J × List String)
  | 0, _ => none
  | fuel + 1, tok :: rest =>
    if tok == "z" then some (.null, rest)
    else match tok.splitOn ":" with
      | ["n", v] => (parseCps v).map fun t => (J.num t, rest)
      | ["b", v] => some (J.bool (v == "1"), rest)
      | ["s", v] => (parseCps v).map fun t => (J.str t, rest)
      | ["a", k] =>
        match k.toNat? with
        | none => none
        | some k =>
          let rec items (fuel : Nat) : Nat → List String → List J → Option (List J × List String)
            | 0, r, acc => some (acc.reverse, r)
            | n + 1, r, acc =>
              match parseJ fuel r with
              | some (j, r2) => items fuel n r2 (j :: acc)
              | none => none
          (items fuel k rest []).map fun (xs, r) => (J.arr xs, r)
      | ["o", k] =>
        match k.toNat? with
        | none => none
        | some k =>
          let rec fields (fuel : Nat) : Nat → List String → List (List Nat × J) → Option (List (List Nat × J) × List String)
            | 0, r, acc => some (acc.reverse, r)
            | _ + 1, [], _ => none
            | n + 1, key :: r, acc =>
              match parseCps key, parseJ fuel r with
              | some kk, some (j, r2) => fields fuel n r2 ((kk, j) :: acc)
              | _, _ => none
          (fields fuel k rest []).map fun (xs, r) => (J.obj xs, r)
      | _ => none
  | _, [] => none

mutual
  /-- a document in the prefix form `parseJ` reads -/
  def showJ : J → List String
    | .num t => ["n:" ++ showCps t]
    | .bool b => [if b then "b:1" else "b:0"]
    | .str t => ["s:" ++ showCps t]
    | .null => ["z"]
    | .arr xs => s!"a:{xs.length}" :: showJs xs
    | .obj fs => s!"o:{fs.length}" :: showFs fs
  def showJs : List J → List String
    | [] => []
    | x :: xs => showJ x ++ showJs xs
  def showFs : List (List Nat × J) → List String
    | [] => []
    | (k, v) :: rest => showCps k :: (showJ v ++ showFs rest)
end

/-- `rows lo n`: for the `n` Julian days from `lo`: `year month day julian_day(date) weekday(date)`, `;`-separated -/
def dateRows (lo : Int) : Nat → List String
  | 0 => []
  | n + 1 =>
    let d := date lo
    s!"{d.year} {d.month} {d.day} {julian_day d} {weekday d}" :: dateRows (lo + 1) n

def convEngine (f : String) (args : List String) : String :=
  match f, args with
  | "std", name :: rest =>
    let (is, fs) := splitBar rest
    match is.mapM String.toInt?, fs.mapM String.toInt? with
    | some ints, some floats =>
      match stdCall (fixOps convScale) toString name ints floats with
      | some r => r
      | none => "bad-op"
    | _, _ => "bad-op"
  | "rows", [lo, n] =>
    match lo.toInt?, n.toNat? with
    | some lo, some n => String.intercalate ";" (dateRows lo n)
    | _, _ => "bad-op"
  | "chr", [i] =>
    match i.toInt? with
    | some i => (match chr i with | .ok s => "ok " ++ showCps s | .error _ => "err")
    | none => "bad-op"
  | "code_point", [s] =>
    match parseCps s with
    | some s => (match codePoint s with | .ok v => s!"ok {v}" | .error _ => "err")
    | none => "bad-op"
  | "escape", [s] =>
    match parseCps s with
    | some s => showCps (escapeStr s)
    | none => "bad-op"
  | "unescape", [s] =>
    match parseCps s with
    | some s => (match unescapeStr s with | some r => "ok " ++ showCps r | none => "none")
    | none => "bad-op"
  | "ser", toks =>
    match parseJ (toks.length + 1) toks with
    | some (j, []) => showCps (ser j)
    | _ => "bad-op"
  | "parse", [t] =>
    match parseCps t with
    | some t => (match parseJson t with | some j => "ok " ++ String.intercalate " " (showJ j) | none => "none")
    | none => "bad-op"
  | "reser", [t] =>
    match parseCps t with
    | some t => (match parseJson t with | some j => "ok " ++ showCps (ser j) | none => "none")
    | none => "bad-op"
  | "names", [] => String.intercalate " " stdNames
  | _, _ => "bad-op"

end XrayDriver
