/- line-protocol engine `gen`: generator pipelines (C16, C10)

request:  `gen <consumer> <L> <fuel> <tok> <tok> …`   (postfix: sources push, adaptors pop)
  consumer: toarray | len | last | get:<i> | steps:<n> (elements of the first n small steps, no budget)
  L: search limit or `-`
answer:   `ok <value>` | `err` | `viol` | `fuel` | `bad-op`
-/
import XrayModel.Gen
import XrayModel.GenLimits
import XrayModel.GenProduct
open XrayModel.Gen
namespace XrayDriver.GenEng

mutual
def vbeq : V → V → Bool
  | .int a, .int b => a == b
  | .tup a, .tup b => vsbeq a b
  | .seq a, .seq b => vsbeq a b
  | _, _ => false
def vsbeq : List V → List V → Bool
  | [], [] => true
  | a :: as, b :: bs => vbeq a b && vsbeq as bs
  | _, _ => false
end

mutual
def showV : V → String
  | .int i => toString i
  | .tup vs => "(t" ++ showVs vs ++ ")"
  | .seq vs => "[s" ++ showVs vs ++ "]"
def showVs : List V → String
  | [] => ""
  | v :: vs => " " ++ showV v ++ showVs vs
end

def showItem : Item → String
  | .val v => showV v
  | .err => "err"
  | .viol => "viol"

def ints (parts : List String) : Option (List Int) := parts.mapM String.toInt?

/-- xray `div_floor` on mathematical integers -/
def divFloor (a b : Int) : Int := Int.fdiv a b
def modFloor (a b : Int) : Int := Int.fmod a b

def onInt (f : Int → Item) : F
  | .val (.int i) => f i
  | .viol => .viol
  | _ => .err

mutual
def vsum : V → Int
  | .int i => i
  | .tup vs => vssum vs
  | .seq vs => vssum vs
def vssum : List V → Int
  | [] => 0
  | v :: vs => vsum v + vssum vs
end

/-- unary functions: `aff:a:b` x*a+b, `divf:c:d` div_floor(c, x-d), `sum` (of a tuple / sequence of ints),
`len` (of a sequence), `item:i` -/
def parseF (L : Option Nat) (s : String) : Option F :=
  match s.splitOn ":" with
  | ["aff", a, b] => do
    let a ← a.toInt?; let b ← b.toInt?
    pure (onInt fun x => .val (.int (x * a + b)))
  | ["divf", c, d] => do
    let c ← c.toInt?; let d ← d.toInt?
    pure (onInt fun x => if x - d == 0 then .err else .val (.int (divFloor c (x - d))))
  -- `sum(Sequence<int>)` is library code (`include.rs:567`): `reduce` = `aggregate(0, add).last()`, a consumer
  -- of its own: n + 1 elements against a fresh budget of search permits
  | ["sum"] => some fun
    | .val (.seq vs) =>
      (match L with
       | some l => if vs.length + 1 > l then .viol else .val (.int (vssum vs))
       | none => .val (.int (vssum vs)))
    | .val v => .val (.int (vsum v))
    | x => x
  | ["len"] => some fun | .val (.seq vs) => .val (.int vs.length) | .viol => .viol | _ => .err
  | ["item", i] => do
    let i ← i.toNat?
    pure fun | .val (.tup vs) => (match vs[i]? with | some v => .val v | none => .err) | .viol => .viol | _ => .err
  | _ => none

def prOfBool (b : Bool) : PR := if b then .t else .f

/-- predicates on an int-valued view of the element (its sum): `mod:m:r`, `lt:c`, `ge:c`, `true`, `false`,
`errat:c` (an error value when the element is c, otherwise true) -/
def parseP (s : String) : Option P :=
  let onV (f : Int → PR) : P := fun | .val v => f (vsum v) | .err => .err | .viol => .viol
  match s.splitOn ":" with
  | ["mod", m, r] => do
    let m ← m.toInt?; let r ← r.toInt?
    pure (onV fun x => if m == 0 then .err else prOfBool (modFloor x m == r))
  | ["lt", c] => do let c ← c.toInt?; pure (onV fun x => prOfBool (x < c))
  | ["ge", c] => do let c ← c.toInt?; pure (onV fun x => prOfBool (x ≥ c))
  | ["true"] => some (onV fun _ => .t)
  | ["false"] => some (onV fun _ => .f)
  | ["errat", c] => do let c ← c.toInt?; pure (onV fun x => if x == c then .err else .t)
  | _ => none

/-- binary functions for aggregate: `add`, `lin:a` (s*a + x) -/
def parseF2 (s : String) : Option F2 :=
  let on2 (f : Int → Int → Item) : F2 := fun
    | .val (.int a), .val (.int b) => f a b
    | .viol, _ => .viol
    | _, .viol => .viol
    | _, _ => .err
  match s.splitOn ":" with
  | ["add"] => some (on2 fun a b => .val (.int (a + b)))
  | ["lin", a] => do let a ← a.toInt?; pure (on2 fun s x => .val (.int (s * a + x)))
  | _ => none

/-- equalities for group: `eq`, `eqmod:m` (on the int view) -/
def parseEq (s : String) : Option P2 :=
  let on2 (f : V → V → PR) : P2 := fun
    | .val a, .val b => f a b
    | .viol, _ => .viol
    | _, .viol => .viol
    | _, _ => .err
  match s.splitOn ":" with
  | ["eq"] => some (on2 fun a b => prOfBool (vbeq a b))
  | ["eqmod", m] => do
    let m ← m.toInt?
    pure (on2 fun a b => if m == 0 then .err else prOfBool (modFloor (vsum a) m == modFloor (vsum b) m))
  | _ => none

def popN (n : Nat) (st : List G) : Option (List G × List G) :=
  if st.length < n then none else some ((st.take n).reverse, st.drop n)

/-- `repeat(g, n)` (`include.rs:1339`): `[g].to_generator().repeat().take(n).flatten()`, and `flatten` is
`reduce([].to_generator(), add)`: a left fold of `add` over n copies -/
def repeatN (g : G) : Nat → G
  | 0 => .fromArr []
  | n + 1 => (repeatN g n).mkChain g

/-- the stack of generator values, and whether building them already ended in a violation -/
def applyTok (L : Option Nat) (stv : List G × Bool) (tok : String) : Option (List G × Bool) :=
  let st := stv.1
  let keep (r : Option (List G)) : Option (List G × Bool) := r.map fun x => (x, stv.2)
  match tok.splitOn ":", st with
  -- `repeat(g, n)` runs `flatten` = `reduce(.., add)` over n copies while the value is built: n + 1 permits
  | ["repeatn", n], g :: st => do
    let n ← n.toNat?
    let over := match L with | some l => decide (n + 1 > l) | none => false
    pure (g.repeatN n :: st, stv.2 || over)
  | _, _ => keep <|
  match tok.splitOn ":", st with
  | ["arr", xs], st => do
    let vs ← if xs == "" then some [] else ints (xs.splitOn ",")
    pure (.fromArr (vs.map V.int) :: st)
  | ["count"], st => some (.fromCount none :: st)
  | ["countaff", a, b], st => do
    let f ← parseF L s!"aff:{a}:{b}"
    pure (.fromCount (some f) :: st)
  | "succ" :: init :: f, st => do
    let i ← init.toInt?
    let f ← parseF L (":".intercalate f)
    pure (.succUntil (.val (.int i)) (fun x => some (f x)) :: st)
  | "succuntil" :: init :: c :: f, st => do
    let i ← init.toInt?
    let c ← c.toInt?
    let f ← parseF L (":".intercalate f)
    -- `successors_until(i, (x) -> if(x < c, some(f(x)), none()))`
    pure (.succUntil (.val (.int i))
      (fun x => match x with
        | .val (.int v) => if v < c then some (f x) else none
        | _ => some .err) :: st)
  | "map" :: f, g :: st => do let f ← parseF L (":".intercalate f); pure (.map g f :: st)
  | "filter" :: p, g :: st => do let p ← parseP (":".intercalate p); pure (.filter g p :: st)
  | "takewhile" :: p, g :: st => do let p ← parseP (":".intercalate p); pure (.takeWhile g p :: st)
  | "skipuntil" :: p, g :: st => do let p ← parseP (":".intercalate p); pure (.skipUntil g p :: st)
  | ["take", n], g :: st => do let n ← n.toNat?; pure (g.take n :: st)
  | ["skip", n], g :: st => do let n ← n.toNat?; pure (g.skip n :: st)
  | ["add"], b :: a :: st => some (a.mkChain b :: st)
  | ["repeat"], g :: st => some (.repeat_ g :: st)
  | "aggregate" :: init :: f, g :: st => do
    let i ← init.toInt?
    let f ← parseF2 (":".intercalate f)
    pure (.aggregate g (.val (.int i)) f :: st)
  | "aggregate1" :: f, g :: st => do
    let f ← parseF2 (":".intercalate f)
    pure (g.aggregate1 f :: st)
  | ["component", i], g :: st => do let i ← i.toNat?; pure (g.component i :: st)
  | ["withcount"], g :: st => some (.withCount g vbeq :: st)
  -- `distinct` (`include.rs:198`): with_count, keep the first occurrences, project
  | ["distinct"], g :: st => some (g.distinct vbeq :: st)
  -- `chunks` (`include.rs:165-184`) is library code: map(some) . add([none]) . aggregate(Agg(stack, disp)) . filter . map;
  -- `some(v)` is `tup [v]`, `none()` is `tup []`, `Agg(s, disp)` is `tup [seq s, int d]` (d: 0 none, 1 some(false), 2 some(true))
  | ["chunks", n], g :: st => do let n ← n.toNat?; pure (g.chunks n :: st)
  | "group" :: e, g :: st => do let e ← parseEq (":".intercalate e); pure (.group g e :: st)
  | ["windows", n], g :: st => do let n ← n.toNat?; pure (.windows g n :: st)
  | ["zip", n], st => do
    let n ← n.toNat?
    let (parts, st) ← popN n st
    pure (.zip parts :: st)
  -- `enumerate` (`include.rs:202`): `count(start, offset).zip(a)`
  | ["enumerate", a, b], g :: st => do
    let a ← a.toInt?; let b ← b.toInt?
    pure (g.enumerate a b :: st)
  | _, _ => none

def buildG (L : Option Nat) (toks : List String) : Option (G × Bool) :=
  match toks.foldlM (applyTok L) ([], false) with
  | some ([g], v) => some (g, v)
  | _ => none

def showRes {α : Type} (sh : α → String) : Res α → String
  | .ok a => "ok " ++ sh a
  | .err => "err"
  | .viol => "viol"
  | .outOfFuel => "fuel"

def parseLimit (s : String) : Option (Option Nat) :=
  if s == "-" then some none else s.toNat?.map some

end XrayDriver.GenEng
namespace XrayDriver
open XrayDriver.GenEng

/-- `gen begincall <argErr 0|1> <udLimit|-> <calls> <deadline|-> <now>` and
`gen tailiter <recLimit|-> <depth> <deadline|-> <now>`: the time gate (C10) -/
def gateEngine (f : String) (args : List String) : Option String :=
  open XrayModel.GenLimits in
  match f, args with
  | "begincall", [e, u, c, d, n] => do
    let u ← GenEng.parseLimit u; let c ← c.toNat?; let d ← GenEng.parseLimit d; let n ← n.toNat?
    pure (match (beginCall (e == "1") u c d n).1 with
      | .errorArgument => "error-argument" | .violUDCall => "viol MaximumUDCall"
      | .violTimeout => "viol Timeout" | .bodyRuns => "body-runs")
  | "tailiter", [r, k, d, n] => do
    let r ← GenEng.parseLimit r; let k ← k.toNat?; let d ← GenEng.parseLimit d; let n ← n.toNat?
    pure (match (tailIteration r k d n).1 with
      | .violRecursion => "viol MaximumRecursion" | .violTimeout => "viol Timeout" | .bodyRuns => "body-runs")
  | _, _ => none

/-- `gen ptoarray <L> <fuel> <tok> … product:<k>`: `to_array` of the product of the last k generators built -/
def productEngine (args : List String) : Option String :=
  match args with
  | l :: fuel :: toks => do
    let L ← GenEng.parseLimit l
    let fuel ← fuel.toNat?
    let last ← toks.getLast?
    let k ← (match last.splitOn ":" with | ["product", k] => k.toNat? | _ => none)
    let (st, viol) ← toks.dropLast.foldlM (GenEng.applyTok L) ([], false)
    let (parts, rest) ← GenEng.popN k st
    if !rest.isEmpty then none
    else if viol then pure "viol"
    else pure (GenEng.showRes (fun vs => "[s" ++ GenEng.showVs vs ++ "]")
      (pdrain L fuel fuel (pstart L parts) (Permits.ofLimit L) []))
  | _ => none

def genEngine (f : String) (args : List String) : String :=
  if f == "ptoarray" then (productEngine args).getD "bad-op" else
  if f == "begincall" || f == "tailiter" then (gateEngine f args).getD "bad-op" else
  match args with
  | l :: fuel :: toks =>
    match parseLimit l, fuel.toNat? with
    | some L, some fuel =>
     match buildG L toks with
     | none => "bad-op"
     | some (_, true) => "viol"
     | some (g, false) =>
      match f.splitOn ":" with
      | ["toarray"] => showRes (fun vs => "[s" ++ showVs vs ++ "]") (toArray L fuel g)
      | ["len"] => showRes (fun (n : Nat) => toString n) (len L fuel g)
      | ["last"] => showRes showV (last L fuel g)
      | ["get", i] =>
        match i.toInt? with
        | some i => showRes showV (get L fuel g i)
        | none => "bad-op"
      | "first" :: p =>
        match parseP (":".intercalate p) with
        | some p => showRes (fun (o : Option V) => match o with | some v => "some " ++ showV v | none => "none") (first L fuel g p)
        | none => "bad-op"
      | "any" :: p =>
        match parseP (":".intercalate p) with
        | some p => showRes (fun (b : Bool) => toString b) (any L fuel g p)
        | none => "bad-op"
      | "all" :: p =>
        match parseP (":".intercalate p) with
        | some p => showRes (fun (b : Bool) => toString b) (all L fuel g p)
        | none => "bad-op"
      | "count" :: p =>
        match parseP (":".intercalate p) with
        | some p => showRes (fun (n : Nat) => toString n) (countIf L fuel g p)
        | none => "bad-op"
      | "reduce" :: init :: f2 =>
        match init.toInt?, parseF2 (":".intercalate f2) with
        | some i, some f2 => showRes showV (reduce L fuel g (.val (.int i)) f2)
        | _, _ => "bad-op"
      | "reduce1" :: f2 =>
        match parseF2 (":".intercalate f2) with
        | some f2 => showRes showV (reduce1 L fuel g f2)
        | none => "bad-op"
      | "nth" :: k :: p =>
        match k.toInt?, parseP (":".intercalate p) with
        | some k, some p =>
          showRes (fun (o : Option V) => match o with | some v => "some " ++ showV v | none => "none") (nth L fuel g k p)
        | _, _ => "bad-op"
      | ["steps", n] =>
        match n.toNat? with
        | some n => "ok" ++ String.join ((outs L n (g.start L)).map fun x => " " ++ showItem x)
        | none => "bad-op"
      | _ => "bad-op"
    | _, _ => "bad-op"
  | _ => "bad-op"

end XrayDriver
