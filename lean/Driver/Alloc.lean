/- line-protocol engine `alloc` (C09): the accounting model run on an event trace.

  alloc shape                                   -> `recognised=<b> rollsBack=<b> uses=<n>/<monotone> mutations=<n>`
  alloc trace <L|-> <xvalue>,<bigint>,<fenced>,<usize>,<rc>,<vec> <ev>…
       ev: a<id>:<bytes>  Runtime::allocate of <bytes>          -> `ok <recorded>` | `viol`
           e<id>:<bytes>  managed error value, message <bytes>    -> `ok` | `viol`
           s<id>:<bytes>  managed ASCII string value              -> `ok` | `viol`
           d<id>          drop                                    -> `ok` | `noop`
           p<n>           can_allocate(n)                         -> `ok` | `viol`
       answer: `<outcome>,<size after>;…|<size before cleanup>|<underflows>`
  alloc size <consts> <kind> <n>…   -> `<XValue::size> <payload>` of a value shape, or `<dyn_size> <entries * rc>` of a native
       container shape (consts = xvalue,bigint,fenced,usize,rc,vec)
  The shape of `allocate` (does it roll back?) is the one generated from the sources.
-/
import XrayModel.Alloc
import Generated.SizeLimitUses
open XrayModel.Alloc
namespace XrayDriver

def allocParseEv (c : Consts) (t : String) : Option (Char × Ev) :=
  match t.toList with
  | [] => none
  | k :: rest =>
    let body := String.ofList rest
    match k with
    | 'd' => body.toNat?.map (fun i => ('d', Ev.drop i))
    | 'p' => body.toNat?.map (fun n => ('p', Ev.preflight n))
    | _ =>
      match body.splitOn ":" with
      | [i, b] =>
        match i.toNat?, b.toNat? with
        | some i, some b =>
          if k == 'a' then some ('a', Ev.alloc i b)
          else if k == 'e' then some ('e', Ev.alloc i b)
          else if k == 's' then some ('s', Ev.alloc i (Val.size c (.string b 0)))
          else none
        | _, _ => none
      | _ => none

def allocStepShow (sh : AllocShape) (r : Run) (k : Char) (e : Ev) : Run × String :=
  let r' := step sh r e
  let out :=
    match e with
    | .alloc _ _ =>
      if r'.viols > r.viols then "viol"
      else if k == 'a' then
        match r'.live.head? with
        | some (_, rec) => s!"ok {rec}"
        | none => "?"
      else "ok"
    | .drop id => if (r.live.lookup id).isSome then "ok" else "noop"
    | .preflight _ =>
      if r'.viols > r.viols then "viol" else "ok"
  (r', s!"{out},{r'.st.size}")

def allocEngine (f : String) (args : List String) : String :=
  let sh := Generated.SizeLimitUses.allocShape
  match f, args with
  | "shape", [] =>
    let us := Generated.SizeLimitUses.uses
    s!"recognised={sh.recognised} rollsBack={sh.rollsBack} uses={us.length}/{(us.filter LimitUse.monotone).length} mutations={Generated.SizeLimitUses.mutations.length}"
  | "trace", lim :: cs :: evs =>
    let limit? : Option (Option Nat) := if lim == "-" then some none else lim.toNat?.map some
    match limit?, (cs.splitOn ",").mapM String.toNat? with
    | some limit, some [xv, bi, fs, us, rc, vc] =>
      let c : Consts := { xvalue := xv, bigint := bi, fencedString := fs, usize := us, rc := rc, vec := vc }
      match evs.mapM (allocParseEv c) with
      | none => "bad-op"
      | some pes =>
        let (r, outs) := pes.foldl (fun (acc : Run × List String) (ke : Char × Ev) =>
          let (r', o) := allocStepShow sh acc.1 ke.1 ke.2
          (r', o :: acc.2)) (fresh limit, [])
        String.intercalate ";" outs.reverse ++ s!"|{r.st.size}|{r.underflows}"
    | _, _ => "bad-op"
  | "size", cs :: kind :: ns =>
    match (cs.splitOn ",").mapM String.toNat?, ns.mapM String.toNat? with
    | some [xv, bi, fs, us, rc, vc], some ns =>
      let c : Consts := { xvalue := xv, bigint := bi, fencedString := fs, usize := us, rc := rc, vec := vc }
      let v? : Option Val :=
        match kind, ns with
        | "intShort", [] => some .intShort
        | "intLong", [d] => some (.intLong d)
        | "float", [] => some .float
        | "bool", [] => some .bool
        | "string", [b, k] => some (.string b k)
        | "struct", [n] => some (.structInstance n)
        | "fn", [n] => some (.userFunction n)
        | _, _ => none
      let n? : Option Native :=
        match kind, ns with
        | "seqArray", [n] => some (.seqArray n)
        | "seqZip", [n] => some (.seqZip n)
        | "seqChain", [n] => some (.seqChain n)
        | "seqOther", [] => some .seqOther
        | "stack", [o, e] => some (.stack o (e != 0))
        | "mapping", [b, l] => some (.mapping b l)
        | "set", [b, l] => some (.set b l)
        | "genZip", [n] => some (.genZip n)
        | "genChain", [n] => some (.genChain n)
        | "genOther", [] => some .genOther
        | "optional", [] => some .optional
        | _, _ => none
      match v?, n? with
      | some v, _ => s!"{v.size c} {v.payload c}"
      | none, some n => s!"{n.dynSize c} {n.entries * c.rc}"
      | none, none => "bad-op"
    | _, _ => "bad-op"
  | _, _ => "bad-op"

end XrayDriver
