/- line-protocol engine `seq` (C15): `seq prog <node> ; <node> ; …`
   A program is a list of nodes in SSA form; a node is `<op> <args…>`, sequence arguments are the indices of
   earlier nodes, integer arguments are decimal literals.  The answer is the canonical dump of every node,
   joined by ` | ` (`(seq …)`, `(lazyseq <variant> …)`, `(int S n)`, `(bool b)`, `ERR:<msg>`, `PANIC:<msg>`). -/
import XrayModel.Seq
open XrayModel.Seq
namespace XrayDriver

def seqShowInt (v : Int) : String :=
  if inI64 v then s!"(int S {v})" else s!"(int L {v})"

mutual
def seqShowVal : Val → String
  | .int v => seqShowInt v
  | .tup vs => "(struct" ++ seqShowVals vs ++ ")"
def seqShowVals : List Val → String
  | [] => ""
  | v :: vs => " " ++ seqShowVal v ++ seqShowVals vs
end

def seqShowRep : Rep → String
  | .empty => "(seq)"
  | .array xs => "(seq" ++ seqShowVals xs ++ ")"
  | .range a b c => s!"(lazyseq range {a} {b} {c})"
  | .map .. => "(lazyseq map)"
  | .mapGet .. => "(lazyseq map)"
  | .zip .. => "(lazyseq zip)"
  | .chain .. => "(lazyseq chain)"
  | .slice .. => "(lazyseq slice)"
  | .count => "(lazyseq count)"

def seqShowV : V → String
  | .seq r => seqShowRep r
  | .val v => seqShowVal v
  | .bool b => s!"(bool {b})"
  | .opt none => "(none)"
  | .opt (some v) => "(some " ++ seqShowVal v ++ ")"
  | .stack vs => "(stack" ++ seqShowVals vs.reverse ++ ")"
  | .opaque => "?"
  | .err m => "ERR:" ++ m
  | .panic m => "PANIC:" ++ m

/-- the arguments of a native are evaluated left to right with `xraise!`: the first error value is returned -/
def seq1 (env : Array V) (i : String) (k : Rep → V) : V :=
  match i.toNat? with
  | none => .panic "bad-ref"
  | some i => match env[i]? with
    | some (.seq r) => k r
    | some (.err m) => .err m
    | some (.panic m) => .panic m
    | _ => .panic "bad-ref"

def seqInts (xs : List String) : Option (List Int) := xs.mapM String.toInt?

/-- `zip(a0, a1, …)`: every argument is evaluated (the first error value wins), then the emptiness shortcut -/
def seqZip (env : Array V) : List String → List Rep → V
  | [], acc => zipB acc.reverse
  | i :: is, acc => seq1 env i fun r => seqZip env is (r :: acc)

def seqNode (env : Array V) (op : String) (args : List String) : V :=
  match op, args with
  | "arr", xs => (match seqInts xs with
      | some vs => .seq (Rep.mkArray (vs.map Val.int))
      | none => .panic "bad-op")
  | "range", xs => (match seqInts xs with
      | some vs => rangeB vs
      | none => .panic "bad-op")
  | "count", [] => .seq .count
  | "opaque", _ => .opaque
  | "count2", [s, o] => (match seqInts [s, o] with
      | some [s, o] => .seq (count2 s o)
      | _ => .panic "bad-op")
  | "add", [i, j] => seq1 env i fun a => seq1 env j fun b => addB a b
  | "toarr", [i] => seq1 env i toArrayB
  | "len", [i] => seq1 env i lenB
  | "isinf", [i] => seq1 env i isInfiniteB
  | "rev", [i] => seq1 env i reverseB
  | "rep", [i] => seq1 env i repeatB
  | "tostack", [i] => seq1 env i toStackB
  | "eq", [i, j, fuel] => seq1 env i fun a => seq1 env j fun b => eqB a b fuel.toNat!
  | "zip", is => seqZip env is []
  | f, i :: xs =>
    (match seqInts xs with
     | none => .panic "bad-op"
     | some ns => seq1 env i fun r =>
       match f, ns with
       | "take", [n] => takeB r n
       | "skip", [n] => skipB r n
       | "get", [n] => getB r n
       | "push", [x] => pushB r (.int x)
       | "rpush", [x] => rpushB r (.int x)
       | "insert", [n, x] => insertB r n (.int x)
       | "set", [n, x] => setB r n (.int x)
       | "pop", [n] => popB r n
       | "swap", [n, m] => swapB r n m
       | "map", [a, b] => mapB r (.affine a b)
       | "enum", [s, o] => enumerateB r s o
       | "unzip", [k] => unzipB r k.toNat
       | "repn", [n] => repeatNB r n
       | "nth", [n, c, fuel] => nthLtB r n c fuel.toNat
       | "tw", [c, fuel] => takeWhileLtB r c fuel.toNat
       | "su", [c, fuel] => skipUntilLtB r c fuel.toNat
       | _, _ => .panic "bad-op")
  | _, _ => .panic "bad-op"

def seqSplitNodes : List String → List String → List (List String) → List (List String)
  | [], cur, acc => (if cur.isEmpty then acc else cur.reverse :: acc).reverse
  | ";" :: ts, cur, acc => seqSplitNodes ts [] (cur.reverse :: acc)
  | t :: ts, cur, acc => seqSplitNodes ts (t :: cur) acc

def seqRun : List (List String) → Array V → Bool → List String → List String
  | [], _, _, out => out.reverse
  | n :: ns, env, dead, out =>
    if dead then seqRun ns (env.push (.panic "dead")) true ("PANIC:dead" :: out) else
    match n with
    | [] => seqRun ns (env.push (.panic "bad-op")) dead ("bad-op" :: out)
    | op :: args =>
      let v := seqNode env op args
      let isPanic := match v with | .panic _ => true | _ => false
      seqRun ns (env.push v) isPanic (seqShowV v :: out)

def seqEngine (f : String) (args : List String) : String :=
  match f with
  | "prog" =>
    let outs := seqRun (seqSplitNodes args [] []) #[] false []
    if outs.any (· == "bad-op") || outs.any (· == "PANIC:bad-op") || outs.any (· == "PANIC:bad-ref") then "bad-op"
    else String.intercalate " | " outs
  | _ => "bad-op"

end XrayDriver
