/- line-protocol engine `str`: FencedString operations and the string builtins' index handling (C18).
Strings travel as comma-separated code points (`_` = empty); a FencedString answer is `<code points>|<table>`. -/
import XrayModel.FString
import XrayModel.Lex
open XrayModel XrayModel.FStr
namespace XrayDriver
namespace StrE

def parseCps (s : String) : Option (List Char) :=
  if s == "_" then some [] else
  (s.splitOn ",").mapM (fun t => t.toNat?.bind (fun n => if n.isValidChar then some (Char.ofNat n) else none))

def showNats (l : List Nat) : String :=
  if l.isEmpty then "_" else String.intercalate "," (l.map toString)

def showCps (l : List Char) : String := showNats (l.map Char.toNat)

def showRes {α} (f : α → String) : Res α → String
  | .ok v => f v
  | .err m => "err " ++ m
  | .panic _ => "panic"

/-- what can be seen of a FencedString from outside: text, `len`, table length, and `substr(i, i+1)` for
every `i < len` (`!` = panic) -/
def showFS (s : FS) : String :=
  let probe := (List.range s.len).map (fun i =>
    match s.substr i (some (i + 1)) with
    | .ok t => showCps t
    | _ => "!")
  showCps s.buf ++ "|" ++ toString s.len ++ "|" ++ toString s.starts.length ++ "|" ++
    (if probe.isEmpty then "_" else String.intercalate ";" probe)

def parseOptNat (s : String) : Option (Option Nat) :=
  if s == "none" then some none else s.toNat?.map some

def parseOptInt (s : String) : Option (Option Int) :=
  if s == "none" then some none else s.toInt?.map some

def showOptNat : Option Nat → String
  | none => "none"
  | some n => s!"some {n}"

end StrE
open StrE

def strEngine (f : String) (args : List String) : String :=
  let fs (s : String) : Option FS := (parseCps s).map FS.fromString
  match f, args with
  | "from", [s] => match fs s with | some x => showFS x | none => "bad-op"
  | "bytes", [s] => match parseCps s with | some x => showNats (encode x) | none => "bad-op"
  | "len", [s] => match fs s with | some x => toString x.len | none => "bad-op"
  | "substring", [s, a, b] =>
    match fs s, a.toNat?, parseOptNat b with
    | some x, some a, some b => showRes showFS (x.substring a b)
    | _, _, _ => "bad-op"
  | "substr", [s, a, b] =>
    match fs s, a.toNat?, parseOptNat b with
    | some x, some a, some b => showRes showCps (x.substr a b)
    | _, _, _ => "bad-op"
  | "push", [s, t] =>
    match fs s, fs t with
    | some x, some y => showFS (x.push y)
    | _, _ => "bad-op"
  | "push_ascii", [s, t] =>
    match fs s, parseCps t with
    | some x, some y => showFS (x.pushAscii y)
    | _, _ => "bad-op"
  -- composites that reach the non-canonical representation (an ASCII slice of a non-ASCII string keeps a table)
  | "sub_push", [s, a, b, t] =>
    match fs s, a.toNat?, parseOptNat b, fs t with
    | some x, some a, some b, some y => showRes showFS ((x.substring a b).map (fun r => r.push y))
    | _, _, _, _ => "bad-op"
  | "push_sub", [t, s, a, b] =>
    match fs s, a.toNat?, parseOptNat b, fs t with
    | some x, some a, some b, some y => showRes showFS ((x.substring a b).map (fun r => y.push r))
    | _, _, _, _ => "bad-op"
  | "sub_sub", [s, a, b, c, d] =>
    match fs s, a.toNat?, parseOptNat b, c.toNat?, parseOptNat d with
    | some x, some a, some b, some c, some d => showRes showFS ((x.substring a b).bind (fun r => r.substring c d))
    | _, _, _, _, _ => "bad-op"
  | "sub_len", [s, a, b] =>
    match fs s, a.toNat?, parseOptNat b with
    | some x, some a, some b => showRes toString ((x.substring a b).map FS.len)
    | _, _, _ => "bad-op"
  -- case mapping: the mapped text and the all-cased flag come from the Rust standard library (parameters)
  | "casemap", [s, flag, mapped] =>
    match fs s, parseCps mapped with
    | some x, some m =>
      (match x.caseMap (flag == "1") m with
       | none => "same"
       | some r => showFS r)
    | _, _ => "bad-op"
  -- builtins
  | "b.get", [s, i] =>
    match fs s, i.toInt? with
    | some x, some i => showRes showFS (get x i)
    | _, _ => "bad-op"
  | "b.find", [s, n, st] =>
    match fs s, fs n, parseOptInt st with
    | some x, some y, some st => showRes showOptNat (find x y st)
    | _, _, _ => "bad-op"
  | "b.rfind", [s, n, e] =>
    match fs s, fs n, parseOptInt e with
    | some x, some y, some e => showRes showOptNat (rfind x y e)
    | _, _, _ => "bad-op"
  | "b.substring", [s, a, b] =>
    match fs s, a.toInt?, b.toInt? with
    | some x, some a, some b => showRes showFS (FStr.substring x a b)
    | _, _, _ => "bad-op"
  | _, _ => "bad-op"

end XrayDriver
