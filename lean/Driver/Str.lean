/- line-protocol engine `str` (stub: answers bad-op until the engine is built) -/
namespace XrayDriver

def strEngine (f : String) (args : List String) : String :=
  match f, args with
  | _, _ => "bad-op"

end XrayDriver
