/- line-protocol engine `perm` (stub: answers bad-op until the engine is built) -/
namespace XrayDriver

def permEngine (f : String) (args : List String) : String :=
  match f, args with
  | _, _ => "bad-op"

end XrayDriver
