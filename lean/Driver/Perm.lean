/- line-protocol engine `perm` (C11): runs the effect-trace model over the generated site table.

  perm table                       -> `idx|file|name|guarded;…`  (the generated effect-site table)
  perm perms                       -> `CONST|id|default;…`
  perm run <cfg> <fuel> <expr…>    -> `<res> w=<n> c=<n> r=<n> x=<n> s=<n>`
     cfg  : one char per generated permission constant, in table order: `1` allow, `0` forbid, `-` not configured
     expr : prefix tokens  L | B | N <site> <n> e1…en | S a b | W <n> e1…en body | T <calls> body
-/
import XrayModel.Perm
import Generated.Permissions
open XrayModel.Perm
namespace XrayDriver

/-- parse one expression from a token list (fuel = number of tokens) -/
def permParseExpr : Nat → List String → Option (Expr × List String)
  | 0, _ => none
  | fuel + 1, toks =>
    let rec many (k : Nat) (ts : List String) (acc : List Expr) : Option (List Expr × List String) :=
      match k with
      | 0 => some (acc.reverse, ts)
      | k + 1 =>
        match permParseExpr fuel ts with
        | some (e, ts') => many k ts' (e :: acc)
        | none => none
    match toks with
    | "L" :: r => some (.lit, r)
    | "B" :: r => some (.bad, r)
    | "N" :: s :: n :: r =>
      match s.toNat?, n.toNat? with
      | some s, some n =>
        match many n r [] with
        | some (as, r') => some (.nat s as, r')
        | none => none
      | _, _ => none
    | "S" :: r =>
      match permParseExpr fuel r with
      | some (a, r1) =>
        match permParseExpr fuel r1 with
        | some (b, r2) => some (.seq a b, r2)
        | none => none
      | none => none
    | "W" :: n :: r =>
      match n.toNat? with
      | some n =>
        match many n r [] with
        | some (as, r1) =>
          match permParseExpr fuel r1 with
          | some (b, r2) => some (.wrap as b, r2)
          | none => none
        | none => none
      | none => none
    | "T" :: n :: r =>
      match n.toNat? with
      | some n =>
        match permParseExpr fuel r with
        | some (b, r1) => some (.thunk b n, r1)
        | none => none
      | none => none
    | _ => none

def permCfgOf (cfg : String) : Option PermissionSet :=
  let cs := cfg.toList
  let ps := Generated.Permissions.permissions
  if cs.length != ps.length then none else
  (cs.zip ps).foldlM (fun (acc : PermissionSet) (cp : Char × String × Permission) =>
    match cp.1 with
    | '1' => some (acc.allow cp.2.2)
    | '0' => some (acc.forbid cp.2.2)
    | '-' => some acc
    | _ => none) []

def permShowRes : Res → String
  | .val => "val"
  | .err => "err"
  | .viol id => "viol:" ++ id
  | .stuck => "stuck"

def permEngine (f : String) (args : List String) : String :=
  match f, args with
  | "table", [] =>
    let rows := Generated.Permissions.sites.zipIdx.map (fun (s, i) =>
      s!"{i}|{s.file}|{s.name}|{siteGuarded s}")
    String.intercalate ";" rows
  | "perms", [] =>
    String.intercalate ";" (Generated.Permissions.permissions.map (fun (c, p) => s!"{c}|{p.id}|{p.default}"))
  | "run", cfg :: fuel :: toks =>
    match permCfgOf cfg, fuel.toNat?, permParseExpr (toks.length + 1) toks with
    | some P, some fuel, some (e, []) =>
      let (r, l) := eval Generated.Permissions.sites P fuel e []
      s!"{permShowRes r} w={countKind .writer l} c={countKind .clock l} r={countKind .rng l} x={countKind .regex l} s={countKind .sleep l}"
    | _, _, _ => "bad-op"
  | _, _ => "bad-op"

end XrayDriver
