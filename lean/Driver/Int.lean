/- line-protocol engine `int`: LazyBigint operations and the integer builtins (C14) -/
import XrayModel.LazyInt
import XrayModel.IntBuiltins
open XrayModel
namespace XrayDriver

def showLB : LB → String
  | .short v => s!"S {v}"
  | .long v => s!"L {v}"

def showR : LB.R → String
  | .ok v => showLB v
  | .error e => e

def showXR : XR → String
  | .int v => showLB v
  | .bool b => toString b
  | .ints vs => "[" ++ String.intercalate "," (vs.map showLB) ++ "]"
  | .err m => "err " ++ m
  | .panic w => w

def showOrd : Ordering → String
  | .lt => "Less" | .eq => "Equal" | .gt => "Greater"

def showOpt : Option Int → String
  | some v => s!"Some({v})" | none => "None"

def intEngine (f : String) (args : List String) : String :=
  match args.mapM String.toInt? with
  | none => "bad-op"
  | some vs =>
    let lb := vs.map LB.ofInt
    match f, lb with
    | "id", [a] => showLB a
    | "add", [a, b] => showR (LB.add a b)
    | "add_ref", [a, b] => showR (LB.add a b)
    | "add_assign", [a, b] => showR (LB.addAssign a b)
    | "sub", [a, b] => showR (LB.sub a b)
    | "mul", [a, b] => showR (LB.mul a b)
    | "mul_assign", [a, b] => showR (LB.mulAssign a b)
    | "neg", [a] => showR (LB.neg a)
    | "rem", [a, b] => showR (LB.rem a b)
    | "rem_ref", [a, b] => showR (LB.rem a b)
    | "div", [a, b] => showR (LB.div a b)
    | "div_floor", [a, b] => showR (LB.divFloor a b)
    | "div_ceil", [a, b] => showR (LB.divCeil a b)
    | "pow", [a, b] => showR (LB.pow a b)
    | "abs", [a] => showR (LB.abs a)
    | "signum", [a] => showLB (LB.signum a)
    | "is_zero", [a] => toString (LB.isZero a)
    | "is_one", [a] => toString (LB.isOne a)
    | "is_positive", [a] => toString (LB.isPositive a)
    | "is_negative", [a] => toString (LB.isNegative a)
    | "eq", [a, b] => toString (LB.beq a b)
    | "cmp", [a, b] => showOrd (LB.cmp a b)
    | "to_u64", [a] => showOpt (LB.toU64 a)
    | "to_i64", [a] => showOpt (LB.toI64 a)
    | "first_u64_digit", [a] => showLB (LB.firstU64Digit a)
    | "bits", [a] => toString (LB.bits a)
    -- builtins (language level)
    | "b.add", [a, b] => showXR (IntB.add a b)
    | "b.sub", [a, b] => showXR (IntB.sub a b)
    | "b.mul", [a, b] => showXR (IntB.mul a b)
    | "b.neg", [a] => showXR (IntB.neg a)
    | "b.mod", [a, b] => showXR (IntB.mod a b)
    | "b.div_floor", [a, b] => showXR (IntB.divFloor a b)
    | "b.div_ceil", [a, b] => showXR (IntB.divCeil a b)
    | "b.pow", [a, b] => showXR (IntB.pow a b)
    | "b.lt", [a, b] => showXR (IntB.lt a b)
    | "b.gt", [a, b] => showXR (IntB.gt a b)
    | "b.le", [a, b] => showXR (IntB.le a b)
    | "b.ge", [a, b] => showXR (IntB.ge a b)
    | "b.eq", [a, b] => showXR (IntB.eq a b)
    | "b.ne", [a, b] => showXR (IntB.ne a b)
    | "b.cmp", [a, b] => showXR (IntB.cmp a b)
    | "b.hash", [a] => showXR (IntB.hash a)
    | "b.binom", [a, b] => showXR (IntB.binom a b)
    | "b.digits", [a, b] => showXR (IntB.digits a b)
    | _, _ => "bad-op"


end XrayDriver
