/- line-protocol engine `int`: LazyBigint operations and the integer builtins (C14) -/
import XrayModel.LazyInt
import XrayModel.IntBuiltins
import XrayModel.IntText
import XrayModel.IntLib
open XrayModel
namespace XrayDriver

def showLB : LB → String
  | .short v => s!"S {v}"
  | .long v => s!"L {v}"

def showR : LB.R → String
  | .ok v => showLB v
  | .error e => e

def showXR : XR → String
  | .int v => showLB v
  | .bool b => toString b
  | .ints vs => "[" ++ String.intercalate "," (vs.map showLB) ++ "]"
  | .err m => "err " ++ m
  | .panic w => w

def showOrd : Ordering → String
  | .lt => "Less" | .eq => "Equal" | .gt => "Greater"

def showOpt : Option Int → String
  | some v => s!"Some({v})" | none => "None"

/-- strings travel as `s:` followed by decimal code points joined by `.` (`s:` = empty) -/
def decodeStr (a : String) : Option (List Char) :=
  if a.startsWith "s:" then
    let body := (a.drop 2).toString
    if body.isEmpty then some []
    else (body.splitOn ".").mapM (fun t => t.toNat?.map Char.ofNat)
  else none

def encodeStr (cs : List Char) : String :=
  "str:" ++ String.intercalate "." (cs.map (fun c => toString c.toNat))

def showXS : XS → String
  | .str s => encodeStr s
  | .int v => showLB v
  | .err m => "err " ++ m
  | .panic w => w

def optChar (a : String) : Option (Option Char) :=
  if a == "-" then some none else a.toNat?.map (fun n => some (Char.ofNat n))

def parseSpec (args : List String) : Option IntB.FmtSpec :=
  match args with
  | [fill, align, sign, alt, zero, width, grouping, precision, ty] => do
    let fill ← optChar fill
    let align ← (match align with
      | "-" => some none | "<" => some (some IntB.Align.left) | ">" => some (some IntB.Align.right)
      | "^" => some (some IntB.Align.center) | "=" => some (some IntB.Align.rightWithSign) | _ => none)
    let sign ← (match sign with
      | "n" => some none | "+" => some (some IntB.SignMode.positive) | "-" => some (some IntB.SignMode.negative)
      | "s" => some (some IntB.SignMode.whitespace) | _ => none)
    let width ← (if width == "-" then some none else width.toNat?.map some)
    let grouping ← optChar grouping
    let ty ← optChar ty
    some { fill := fill, align := align, sign := sign, alt := alt == "1", zeroPad := zero == "1",
           width := width, grouping := grouping, precision := precision == "1", ty := ty }
  | _ => none

/-- the text operations (string arguments) -/
def intTextEngine (f : String) (args : List String) : Option String :=
  match f, args with
  | "to_string", [a] => a.toInt?.map (fun v => encodeStr (LB.toStr (LB.ofInt v)))
  | "magnitude_to_str", [a, r] => do
    let v ← a.toInt?
    let r ← r.toNat?
    some (match LB.magnitudeToStr (LB.ofInt v) r with | .ok s => encodeStr s | .error e => e)
  | "from_str_radix", [s, r] => do
    let s ← decodeStr s
    let r ← r.toNat?
    some (match LB.fromStrRadix s r with | some v => showLB v | none => "none")
  | "b.to_str", [a] => a.toInt?.map (fun v => showXS (IntB.toStr (LB.ofInt v)))
  | "b.to_int", [s, b] => do
    let s ← decodeStr s
    let b ← b.toInt?
    some (showXS (IntB.toInt s (LB.ofInt b)))
  | "b.format", a :: spec => do
    let v ← a.toInt?
    let sp ← parseSpec spec
    some (showXS (IntB.format (LB.ofInt v) sp))
  | _, _ => none

def showOptInt : Option Int → String
  | some v => showLB (LB.ofInt v)
  | none => "panic:fuel"

def showOptRes : Option Lib.Res → String
  | some (.ok v) => showLB (LB.ofInt v)
  | some (.error e) => "err " ++ e
  | none => "panic:fuel"

/-- the hand model of the xray-written library functions (`XrayModel/IntLib.lean`) -/
def intLibEngine (f : String) (vs : List Int) : Option String :=
  match f, vs with
  | "pow_nc", [la, lb, a, b] =>   -- operands forced into the `long` representation where asked (non-canonical)
    some (showR (LB.pow (if la = 1 then LB.long a else LB.ofInt a) (if lb = 1 then LB.long b else LB.ofInt b)))
  | "lib.abs", [a] => some (showLB (LB.ofInt (Lib.abs a)))
  | "lib.sign", [a] => some (showLB (LB.ofInt (Lib.sign a)))
  | "lib.gcd", [a, b] => some (showOptInt (Lib.gcd a b))
  | "lib.lcm", [a, b] => some (showOptInt (Lib.lcm a b))
  | "lib.factorial", [n, st] => some (showOptRes (some (Lib.factorial n st)))
  | "lib.floor_root", [a, b] => some (showOptRes (Lib.floorRoot a b))
  | "lib.ceil_root", [a, b] => some (showOptRes (Lib.ceilRoot a b))
  | _, _ => none

def intEngine (f : String) (args : List String) : String :=
  match intTextEngine f args with
  | some r => r
  | none =>
  match args.mapM String.toInt? with
  | none => "bad-op"
  | some vs =>
    match intLibEngine f vs with
    | some r => r
    | none =>
    let lb := vs.map LB.ofInt
    match f, lb with
    | "id", [a] => showLB a
    | "add", [a, b] => showR (LB.add a b)
    | "add_ref", [a, b] => showR (LB.add a b)
    | "add_assign", [a, b] => showR (LB.addAssign a b)
    | "sub", [a, b] => showR (LB.sub a b)
    | "mul", [a, b] => showR (LB.mul a b)
    | "mul_assign", [a, b] => showR (LB.mulAssign a b)
    | "neg", [a] => showR (LB.neg a)
    | "rem", [a, b] => showR (LB.rem a b)
    | "rem_ref", [a, b] => showR (LB.rem a b)
    | "div", [a, b] => showR (LB.div a b)
    | "div_floor", [a, b] => showR (LB.divFloor a b)
    | "div_ceil", [a, b] => showR (LB.divCeil a b)
    | "pow", [a, b] => showR (LB.pow a b)
    | "bitand", [a, b] => showLB (LB.bitand a b)
    | "bitor", [a, b] => showLB (LB.bitor a b)
    | "bitxor", [a, b] => showLB (LB.bitxor a b)
    | "abs", [a] => showR (LB.abs a)
    | "signum", [a] => showLB (LB.signum a)
    | "is_zero", [a] => toString (LB.isZero a)
    | "is_one", [a] => toString (LB.isOne a)
    | "is_positive", [a] => toString (LB.isPositive a)
    | "is_negative", [a] => toString (LB.isNegative a)
    | "eq", [a, b] => toString (LB.beq a b)
    | "cmp", [a, b] => showOrd (LB.cmp a b)
    | "to_u64", [a] => showOpt (LB.toU64 a)
    | "to_i64", [a] => showOpt (LB.toI64 a)
    | "first_u64_digit", [a] => showLB (LB.firstU64Digit a)
    | "bits", [a] => toString (LB.bits a)
    -- builtins (language level)
    | "b.add", [a, b] => showXR (IntB.add a b)
    | "b.sub", [a, b] => showXR (IntB.sub a b)
    | "b.mul", [a, b] => showXR (IntB.mul a b)
    | "b.neg", [a] => showXR (IntB.neg a)
    | "b.bit_and", [a, b] => showXR (IntB.bitAnd a b)
    | "b.bit_or", [a, b] => showXR (IntB.bitOr a b)
    | "b.bit_xor", [a, b] => showXR (IntB.bitXor a b)
    | "b.mod", [a, b] => showXR (IntB.mod a b)
    | "b.div_floor", [a, b] => showXR (IntB.divFloor a b)
    | "b.div_ceil", [a, b] => showXR (IntB.divCeil a b)
    | "b.pow", [a, b] => showXR (IntB.pow a b)
    | "b.lt", [a, b] => showXR (IntB.lt a b)
    | "b.gt", [a, b] => showXR (IntB.gt a b)
    | "b.le", [a, b] => showXR (IntB.le a b)
    | "b.ge", [a, b] => showXR (IntB.ge a b)
    | "b.eq", [a, b] => showXR (IntB.eq a b)
    | "b.ne", [a, b] => showXR (IntB.ne a b)
    | "b.cmp", [a, b] => showXR (IntB.cmp a b)
    | "b.hash", [a] => showXR (IntB.hash a)
    | "b.binom", [a, b] => showXR (IntB.binom a b)
    | "b.digits", [a, b] => showXR (IntB.digits a b)
    | "b.multinom", ks => showXR (IntB.multinom ks)
    | _, _ => "bad-op"


end XrayDriver
