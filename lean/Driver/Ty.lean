/- line-protocol engine `ty`: types, bindings, assignability (C04).
Types travel in a prefix notation that needs no brackets (one token per node, arities explicit):
  b i f s u            bool int float str unknown
  g:NAME               generic
  t:N  <N types>       tuple
  n:NAME:N <N types>   native
  c:K:NAME:N <N types> compound, K = S | U
  k:N <N types> <ret>  callable
  x:G:N:R <N types> <ret>   func; G = `-` (not generic) or generic names joined by `,`; R = required count
-/
import XrayModel.Types
open XrayModel
namespace XrayDriver
namespace TyEng

def parseTyFuel : Nat → List String → Option (Ty × List String)
  | 0, _ => none
  | fuel + 1, tok :: rest =>
    let parseN (n : Nat) (rest : List String) : Option (List Ty × List String) :=
      (List.range n).foldlM (fun (acc : List Ty × List String) _ =>
        match parseTyFuel fuel acc.2 with
        | some (t, r) => some (acc.1 ++ [t], r)
        | none => none) ([], rest)
    match tok.splitOn ":" with
    | ["b"] => some (.bool, rest)
    | ["i"] => some (.int, rest)
    | ["f"] => some (.float, rest)
    | ["s"] => some (.str, rest)
    | ["u"] => some (.unknown, rest)
    | ["g", n] => some (.generic n, rest)
    | ["t", n] => do
      let (ts, r) ← parseN n.toNat! rest
      pure (.tuple ts, r)
    | ["n", name, n] => do
      let (ts, r) ← parseN n.toNat! rest
      pure (.native name ts, r)
    | ["c", k, name, n] => do
      let (ts, r) ← parseN n.toNat! rest
      pure (.compound (if k == "U" then .union else .struct) name ts, r)
    | ["k", n] => do
      let (ts, r) ← parseN n.toNat! rest
      let (ret, r) ← parseTyFuel fuel r
      pure (.callable ts ret, r)
    | ["x", g, n, q] => do
      let (ts, r) ← parseN n.toNat! rest
      let (ret, r) ← parseTyFuel fuel r
      pure (.func (if g == "-" then none else some (g.splitOn ",")) ts q.toNat! ret, r)
    | _ => none
  | _, [] => none

def parseTys (toks : List String) : Option (List Ty) :=
  let rec go (fuel : Nat) (toks : List String) (acc : List Ty) : Option (List Ty) :=
    match fuel, toks with
    | _, [] => some acc.reverse
    | 0, _ => none
    | fuel + 1, toks =>
      match parseTyFuel (toks.length + 1) toks with
      | some (t, rest) => go fuel rest (t :: acc)
      | none => none
  go (toks.length + 1) toks []

mutual
partial def showTy : Ty → String
  | .bool => "b" | .int => "i" | .float => "f" | .str => "s" | .unknown => "u"
  | .generic n => "g:" ++ n
  | .tuple ts => String.intercalate " " (("t:" ++ toString ts.length) :: ts.map showTy)
  | .native name ts => String.intercalate " " (("n:" ++ name ++ ":" ++ toString ts.length) :: ts.map showTy)
  | .compound k name ts =>
    String.intercalate " " (("c:" ++ (match k with | .struct => "S" | .union => "U") ++ ":" ++ name ++ ":" ++ toString ts.length) :: ts.map showTy)
  | .callable ps r => String.intercalate " " (("k:" ++ toString ps.length) :: (ps.map showTy ++ [showTy r]))
  | .func g ps n r =>
    String.intercalate " " (("x:" ++ (match g with | none => "-" | some gs => String.intercalate "," gs) ++ ":" ++ toString ps.length ++ ":" ++ toString n) :: (ps.map showTy ++ [showTy r]))
end

def insertSorted (e : String × String) : List (String × String) → List (String × String)
  | [] => [e]
  | x :: xs => if e.1 < x.1 then e :: x :: xs else x :: insertSorted e xs

def showBnd (b : Bnd) : String :=
  let es := (b.map fun (k, v) => (k, showTy v)).foldr insertSorted []
  "{" ++ String.intercalate " | " (es.map fun (k, v) => k ++ "=" ++ v) ++ "}"

def showOptBnd : Option Bnd → String
  | none => "none"
  | some b => "some " ++ showBnd b

def posOf : String → Option Pos
  | "let" => some .letDecl | "ret" => some .fnReturn | "default" => some .paramDefault
  | "arg" => some .argument | "field" => some .field | "variant" => some .variant
  | _ => none

end TyEng
open TyEng

def tyEngine (f : String) (args : List String) : String :=
  match f, args with
  | "bind", toks =>
    match parseTys toks with
    | some [r, s] => showOptBnd (bindIn r s)
    | _ => "bad-op"
  | "common", toks =>
    match parseTys toks with
    | some [a, b] => (match commonType a b with | none => "none" | some c => "some " ++ showTy c)
    | _ => "bad-op"
  | "commonall", toks =>
    match parseTys toks with
    | some ts => (match commonTypeAll ts with | none => "none" | some c => "some " ++ showTy c)
    | _ => "bad-op"
  | "eq", toks =>
    match parseTys toks with
    | some [a, b] => toString (Ty.beq a b)
    | _ => "bad-op"
  | "isunk", toks =>
    match parseTys toks with
    | some [a] => toString (isUnknown a)
    | _ => "bad-op"
  | "accept", p :: toks =>
    match posOf p, parseTys toks with
    | some pos, some [r, s] => toString (accepts pos r s)
    | _, _ => "bad-op"
  | "call", toks =>
    match parseTys toks with
    | some (callee :: as) =>
      (match typeOfCall callee as with
       | .ok t => "ok " ++ showTy t
       | .error .invalidArgumentType => "err InvalidArgumentType"
       | .error .callableBindingFailed => "err CallableBindingFailed"
       | .error .notAFunction => "err NotAFunction")
    | _ => "bad-op"
  | "resolve", toks =>
    -- first type is resolved with the binding given by the following (g:NAME, type) pairs
    match parseTys toks with
    | some (t :: kvs) =>
      let rec pairs : List Ty → Bnd
        | .generic k :: v :: rest => (k, v) :: pairs rest
        | _ => []
      showTy (resolveBind (pairs kvs) t)
    | _ => "bad-op"
  | "specbind", toks =>
    -- first type must be a func: its spec is bound against the remaining types
    match parseTys toks with
    | some (.func g ps n r :: as) => showOptBnd (specBind { gens := g, ps := ps, nreq := n, ret := r } as)
    | _ => "bad-op"
  | "construct", toks =>
    -- first type is a tuple holding the field types, the rest are the argument types
    match parseTys toks with
    | some (.tuple fields :: as) => showOptBnd (compoundBind fields as)
    | _ => "bad-op"
  | _, _ => "bad-op"

end XrayDriver
