/- line-protocol engine `ty` (stub: answers bad-op until the engine is built) -/
namespace XrayDriver

def tyEngine (f : String) (args : List String) : String :=
  match f, args with
  | _, _ => "bad-op"

end XrayDriver
