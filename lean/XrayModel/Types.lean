/-
Model of xray's static types and of the assignability machinery of `src/xtype.rs`
(`XType`, `Bind::mix`, `PartialEq for XType`, `common_type`, `bind_in_assignment`, `resolve_bind`,
`is_unknown`, `XFuncSpec::bind`, `XCompoundSpec::bind`) and of the places of `compilation_scope.rs` /
`parser.rs` that decide whether a supplied expression type is accepted where a type is required.

Representation choices (all invariants of the Rust data, see design/C04.md):
* a compound type `Compound(kind, spec, bind)` is `compound kind name args` where `args` is
  `spec.generics_with_bind(bind)` (one entry per generic name of the spec, in declaration order);
  the spec is identified by its name.
* a function spec `XFuncSpec{generic_params, params, ret}` is `func gens ps nreq ret`: the parser
  rejects required parameters after optional ones, so the `required` flags are `nreq` times `true`
  followed by `false`s; `nreq = arg_len_range().0`, `ps.length = arg_len_range().1`.
* `Bind` (a `HashMap<Identifier, Arc<XType>>`) is an association list with unique keys (`Bnd`).
  `XTail`/`Auto` never reach the functions modelled here (they are resolved / rejected before).

Every function mirrors the Rust arm for arm, in the same order of tests; `zip`s that silently truncate
truncate here as well.
-/
namespace XrayModel

inductive Kind where
  | struct | union
  deriving DecidableEq, Repr, Inhabited

inductive Ty where
  | bool | int | float | str | unknown
  | generic (n : String)
  | tuple (ts : List Ty)
  | native (name : String) (args : List Ty)
  | compound (kind : Kind) (name : String) (args : List Ty)
  | callable (ps : List Ty) (r : Ty)
  /-- `gens = none` for a non-generic function; `nreq` leading parameters are required -/
  | func (gens : Option (List String)) (ps : List Ty) (nreq : Nat) (r : Ty)
  deriving Repr, Inhabited

abbrev Bnd := List (String × Ty)

namespace Bnd
def get (b : Bnd) (k : String) : Option Ty :=
  match b with
  | [] => none
  | (k', v) :: rest => if k' = k then some v else get rest k

/-- `HashMap::insert` (keeps the position of an existing key) -/
def insert (b : Bnd) (k : String) (v : Ty) : Bnd :=
  match b with
  | [] => [(k, v)]
  | (k', v') :: rest => if k' = k then (k, v) :: rest else (k', v') :: insert rest k v
end Bnd

/-! ### `impl PartialEq for XType` (xtype.rs:612-648) -/
mutual
def Ty.beq : Ty → Ty → Bool
  | .bool, .bool => true
  | .int, .int => true
  | .float, .float => true
  | .str, .str => true
  | .compound k0 a as, .compound k1 b bs => k0 == k1 && a == b && Ty.beqList as bs
  | .callable ps r, .callable ps' r' => Ty.beqList ps ps' && Ty.beq r r'
  -- XFunc/XFunc: generic_params, the parameter list (types and required flags) and the return type
  | .func g ps n r, .func g' ps' n' r' => g == g' && Ty.beqList ps ps' && n == n' && Ty.beq r r'
  -- XCallable/XFunc (and the mirrored arm): not generic, all parameters required, same types
  | .callable ps r, .func g ps' n r' => g.isNone && n == ps'.length && Ty.beqList ps ps' && Ty.beq r r'
  -- Rust: `(XFunc, XCallable) => other == self`; written with the roles swapped so that the recursion is
  -- structural in the first argument (`beq` is symmetric: `XrayProofs.Types.beq_symm`)
  | .func g ps' n r', .callable ps r => g.isNone && n == ps'.length && Ty.beqList ps' ps && Ty.beq r' r
  | .unknown, .unknown => true
  | .generic a, .generic b => a == b
  | .native a as, .native b bs => a == b && Ty.beqList as bs
  | .tuple as, .tuple bs => Ty.beqList as bs
  | _, _ => false
/-- `Vec<Arc<XType>> == Vec<Arc<XType>>`: same length and element-wise equal -/
def Ty.beqList : List Ty → List Ty → Bool
  | [], [] => true
  | a :: as, b :: bs => Ty.beq a b && Ty.beqList as bs
  | _, _ => false
end

/-! ### `XType::common_type` (xtype.rs:298-350) -/
mutual
def commonType : Ty → Ty → Option Ty
  | a, b =>
    if Ty.beq a b then some a else
    match a, b with
    | .compound k0 n as, .compound k1 m bs =>
      if n != m || k0 != k1 then none else
      match commonZip as bs with
      | none => none
      | some cs => some (.compound k0 n cs)
    | .tuple as, .tuple bs =>
      if as.length != bs.length then none else
      match commonZip as bs with
      | none => none
      | some cs => some (.tuple cs)
    | a, .unknown => some a
    | .unknown, b => some b
    | .native n as, .native m bs =>
      if n != m then none else
      match commonZip as bs with
      | none => none
      | some cs => some (.native n cs)
    | _, _ => none
/-- element-wise common type over `zip` (stops at the shorter list) -/
def commonZip : List Ty → List Ty → Option (List Ty)
  | a :: as, b :: bs =>
    match commonType a b with
    | none => none
    | some c =>
      match commonZip as bs with
      | none => none
      | some cs => some (c :: cs)
  | _, _ => some []
end

/-- the free function `common_type` over an iterator of types (xtype.rs:657): `unknown` for no element,
otherwise the left fold of `common_type` -/
def commonTypeFold (acc : Ty) : List Ty → Option Ty
  | [] => some acc
  | t :: ts =>
    match commonType acc t with
    | none => none
    | some c => commonTypeFold c ts

def commonTypeAll : List Ty → Option Ty
  | [] => some .unknown
  | t :: ts => commonTypeFold t ts

/-! ### `Bind::mix` (xtype.rs:62-73) -/
def mix (self : Bnd) : Bnd → Option Bnd
  | [] => some self
  | (k, v) :: rest =>
    match self.get k with
    | some existing =>
      match commonType existing v with
      | none => none
      | some c => mix (self.insert k c) rest
    | none => mix (self.insert k v) rest

/-! ### `XType::bind_in_assignment` (xtype.rs:352-466) -/
mutual
def bindIn : Ty → Ty → Option Bnd
  | .bool, .bool => some []
  | .int, .int => some []
  | .float, .float => some []
  | .str, .str => some []
  | .compound k0 n as, .compound k1 m bs =>
    if n != m || k0 != k1 then none else bindZipRev as bs
  | .callable ps r, .callable ps' r' =>
    if ps.length != ps'.length then none else
    match bindZip ps ps' [] with
    | none => none
    | some acc =>
      match bindIn r r' with
      | none => none
      | some b => mix acc b
  | .func _ ps n r, .func _ ps' n' r' =>
    if n < n' || ps.length > ps'.length then none else
    match bindZip ps ps' [] with
    | none => none
    | some acc =>
      match bindIn r r' with
      | none => none
      | some b => mix acc b
  | .callable ps r, .func _ ps' n' r' =>
    if ps.length < n' || ps.length > ps'.length then none else
    match bindZip ps ps' [] with
    | none => none
    | some acc =>
      match bindIn r r' with
      | none => none
      | some b => mix acc b
  | .native n as, .native m bs =>
    if n != m then none else bindZip as bs []
  | .tuple as, .tuple bs =>
    if as.length != bs.length then none else bindZip as bs []
  | .generic a, .generic b => if a == b then some [] else some [(a, .generic b)]
  | _, .unknown => some []
  | .generic a, s => some [(a, s)]
  | .unknown, _ => some []
  | _, _ => none
/-- the loop `for (a, b) in xs.zip(ys) { bind = bind.mix(&a.bind_in_assignment(b)?)? }` -/
def bindZip : List Ty → List Ty → Bnd → Option Bnd
  | a :: as, b :: bs, acc =>
    match bindIn a b with
    | none => none
    | some sub =>
      match mix acc sub with
      | none => none
      | some acc' => bindZip as bs acc'
  | _, _, acc => some acc
/-- the same loop over `zip(..).rev()` (compound arm): the last pair is mixed first.  Returns the binding
accumulated over the pairs, starting from the empty one. -/
def bindZipRev : List Ty → List Ty → Option Bnd
  | a :: as, b :: bs =>
    match bindZipRev as bs with
    | none => none
    | some acc =>
      match bindIn a b with
      | none => none
      | some sub => mix acc sub
  | _, _ => some []
end

/-! ### `XType::resolve_bind` with `tail = None` (xtype.rs:467-524) -/
mutual
def resolveBind (bind : Bnd) : Ty → Ty
  | .native n as => .native n (resolveList bind as)
  | .generic a => match bind.get a with | some t => t | none => .generic a
  | .tuple ts => .tuple (resolveList bind ts)
  | .compound k n as => .compound k n (resolveList bind as)
  | .callable ps r => .callable (resolveList bind ps) (resolveBind bind r)
  | t => t
def resolveList (bind : Bnd) : List Ty → List Ty
  | [] => []
  | t :: ts => resolveBind bind t :: resolveList bind ts
end

/-! ### `XType::is_unknown` (xtype.rs:526-543) -/
mutual
def isUnknown : Ty → Bool
  | .unknown => true
  | .native _ ts => anyUnknown ts
  | .tuple ts => anyUnknown ts
  | .callable ps r => anyUnknown ps || isUnknown r
  | .func _ ps _ r => anyUnknown ps || isUnknown r
  | .compound _ _ as => anyUnknown as
  | _ => false
def anyUnknown : List Ty → Bool
  | [] => false
  | t :: ts => isUnknown t || anyUnknown ts
end

/-! ### function specs -/
structure FuncSpec where
  gens : Option (List String)
  ps : List Ty
  nreq : Nat
  ret : Ty
  shortCircuit : Bool := false
  deriving Repr, Inhabited

def FuncSpec.xtype (f : FuncSpec) : Ty := .func f.gens f.ps f.nreq f.ret
def FuncSpec.isGeneric (f : FuncSpec) : Bool := f.gens.isSome

/-- `XFuncSpec::bind` (xtype.rs:245-255): the arity window, then the parameters left to right -/
def specBind (f : FuncSpec) (args : List Ty) : Option Bnd :=
  if args.length < f.nreq || args.length > f.ps.length then none
  else bindZip f.ps args []

/-- `XFuncSpec::rtype` -/
def FuncSpec.rtype (f : FuncSpec) (b : Bnd) : Ty := resolveBind b f.ret

/-! ### compound specs: `XCompoundSpec::bind` (xtype.rs:122-137) for field types without `XTail` -/
def compoundBindLoop : List Ty → List Ty → Bnd → Option Bnd
  | a :: as, f :: fs, acc =>
    match bindIn f a with
    | none => none
    | some sub =>
      match mix acc sub with
      | none => none
      | some acc' => compoundBindLoop as fs acc'
  | _, _, acc => some acc

def compoundBind (fields : List Ty) (args : List Ty) : Option Bnd :=
  if args.length != fields.length then none else compoundBindLoop args fields []

/-- the type given to a constructed struct / variant: every generic name of the spec that the fields
did not bind is `unknown` -/
def compoundType (k : Kind) (name : String) (gens : List String) (b : Bnd) : Ty :=
  .compound k name (gens.map fun g => match b.get g with | some t => t | none => .unknown)

/-! ### typing of a call through a function-typed value (`type_of`, compilation_scope.rs:925-946) -/
inductive CallErr where
  | invalidArgumentType | callableBindingFailed | notAFunction
  deriving DecidableEq, Repr

/-- arguments against the parameters of an `XFunc` callee, left to right -/
def callBindLoop : List Ty → List Ty → Bnd → Except CallErr Bnd
  | p :: ps, a :: as, acc =>
    match bindIn p a with
    | none => .error .invalidArgumentType
    | some sub =>
      match mix acc sub with
      | none => .error .callableBindingFailed
      | some acc' => callBindLoop ps as acc'
  | _, _, acc => .ok acc

mutual
/-- `XType::mentions_generic` -/
def mentionsGeneric (g : String) : Ty → Bool
  | .generic a => a == g
  | .native _ ts => mentionsGenericList g ts
  | .tuple ts => mentionsGenericList g ts
  | .callable ps r => mentionsGenericList g ps || mentionsGeneric g r
  | .func _ ps _ r => mentionsGenericList g ps || mentionsGeneric g r
  | .compound _ _ ts => mentionsGenericList g ts
  | _ => false
def mentionsGenericList (g : String) : List Ty → Bool
  | [] => false
  | t :: ts => mentionsGeneric g t || mentionsGenericList g ts
end

/-- `XFuncSpec::rtype_for_call`: a generic parameter of the function that the arguments left unbound, and that no
argument type mentions (it only met the bottom type), is the bottom type in the return type -/
def fillUnbound (args : List Ty) (b : Bnd) : List String → Bnd
  | [] => b
  | g :: gs =>
    if (b.get g).isNone && !(mentionsGenericList g args) then fillUnbound args (b.insert g .unknown) gs
    else fillUnbound args b gs

def rtypeForCall (gens : Option (List String)) (ret : Ty) (b : Bnd) (args : List Ty) : Ty :=
  resolveBind (fillUnbound args b (gens.getD [])) ret

/-- arguments against the parameter types of an `XCallable` callee: each must be assignable without binding
anything (generic parameters in the type of a function-typed value are rigid) -/
def callableArgs : List Ty → List Ty → Bool
  | p :: ps, a :: as =>
    (match bindIn p a with
     | some b => b.isEmpty
     | none => false) && callableArgs ps as
  | _, _ => true

def typeOfCall (callee : Ty) (args : List Ty) : Except CallErr Ty :=
  match callee with
  | .callable ps r =>
    if args.length != ps.length then .error .callableBindingFailed
    else if callableArgs ps args then .ok r else .error .invalidArgumentType
  | .func gens ps nreq r =>
    if args.length < nreq || args.length > ps.length then .error .callableBindingFailed
    else
      match callBindLoop ps args [] with
      | .error e => .error e
      | .ok b => .ok (rtypeForCall gens r b args)
  | _ => .error .notAFunction

/-! ### the syntactic positions in which a type is required -/
inductive Pos where
  | letDecl      -- `let v: R = e;`                      parser.rs:176-199  (bind must be empty)
  | fnReturn     -- `fn f(..)->R { e }`                  parser.rs:234-252  (bind must be empty)
  | paramDefault -- `fn f(p: R ?= e)`                    (bind must be empty)
  | argument     -- `f(e)` for `fn f<..>(p: R)`          XFuncSpec::bind
  | field        -- `S(e)` for `struct S<..>(a: R)`      XCompoundSpec::bind
  | variant      -- `U::a(e)` for `union U<..>(a: R)`    compilation_scope.rs:799-840
  deriving DecidableEq, Repr

def Pos.requiresEmpty : Pos → Bool
  | .letDecl | .fnReturn | .paramDefault => true
  | _ => false

/-- does the compiler accept supplied type `s` where `r` is required, in position `pos` -/
def accepts (pos : Pos) (r s : Ty) : Bool :=
  match pos with
  | .letDecl | .fnReturn | .paramDefault =>
    match bindIn r s with
    | some b => b.isEmpty
    | none => false
  | .argument => (specBind { gens := none, ps := [r], nreq := 1, ret := .int } [s]).isSome
  | .field => (compoundBind [r] [s]).isSome
  | .variant => (bindIn r s).isSome

end XrayModel
