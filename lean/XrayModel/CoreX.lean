/-
Extended core-language evaluator (additive; `XrayModel/Core.lean` is unchanged and remains the model
behind the existing proofs).  It is `Core.lean` — same functions, same fuel discipline, same arms in
the same order — plus, mirroring `src/runtime_scope.rs` `eval` and `src/builtin/{optional,sequence}.rs`:

* union values `Val.variant tag v`; `Expr.variant tag e` (`XExpr::Variant`: an erroring payload is the
  result), `Expr.memberValue e tag` (`!:`, `XExpr::MemberValue`: the payload, or the error value
  "value is of incorrect variant"), `Expr.memberOpt e tag` (`?:`, `XExpr::MemberOptValue`: an optional);
* optional values `Val.some v` / `Val.none`; strict natives `some` (so `some(error)` is the error),
  `none`, `value` (error value "optional has no value" — or the given message — on `none`), `has_value`;
* the short-circuit natives of optional.rs: `map_or(opt, f, default)` (none: `default` evaluated with the
  tail slot; some v: `f` evaluated, then called on `[v]` without the tail slot), `or(opt, default)`
  (`add_optional_or_unwrap`; none: `default` with the tail slot; some v: `v`), `and(opt, y)` (some: `y` with
  the tail slot; none: the first argument).  `or`/`and` are overloaded with the bool natives: the arm is
  chosen by the first argument's value.  (`or(opt, opt)` — the non-unwrapping overload, which the compiler
  selects by the static type of the second argument — is not in this untyped model.)
* `get(arr, i)` / index sugar with `value_to_idx` of sequence.rs for the `Array` case (a negative index
  counts from the end: "index too low" if still negative; `>= len`: "index out of bounds"), `push`.
-/
namespace XrayModel.CoreX

mutual
  inductive Expr where
    | int (n : Int)
    | bool (b : Bool)
    | str (s : String)
    | var (x : String)
    /-- call by name: the function being defined (self), a function value in scope, or a builtin -/
    | call (f : String) (args : List Expr)
    /-- call of a computed callee -/
    | callE (f : Expr) (args : List Expr)
    | lam (fn : Func)
    | tup (es : List Expr)
    | item (e : Expr) (i : Nat)
    | arr (es : List Expr)
    /-- `U::tag(e)` -/
    | variant (tag : Nat) (e : Expr)
    /-- `e!:tag` -/
    | memberValue (e : Expr) (tag : Nat)
    /-- `e?:tag` -/
    | memberOpt (e : Expr) (tag : Nat)
  inductive Param where
    | mk (name : String) (dflt : Option Expr)
  inductive Decl where
    | letD (x : String) (e : Expr)
    | fnD (f : Func)
  inductive Func where
    | mk (name : Option String) (params : List Param) (decls : List Decl) (body : Expr)
end

def Param.name : Param → String | .mk n _ => n
def Param.dflt : Param → Option Expr | .mk _ d => d
def Func.name : Func → Option String | .mk n _ _ _ => n
def Func.params : Func → List Param | .mk _ p _ _ => p
def Func.decls : Func → List Decl | .mk _ _ d _ => d
def Func.body : Func → Expr | .mk _ _ _ b => b

inductive Val where
  | int (n : Int)
  | bool (b : Bool)
  | str (s : String)
  | tup (vs : List Val)
  | arr (vs : List Val)
  /-- closure: code, the default values computed when it was created, captured bindings -/
  | clos (f : Func) (dflts : List Val) (env : List (String × Val))
  /-- an error value of the language -/
  | err (msg : String)
  /-- a union instance -/
  | variant (tag : Nat) (v : Val)
  /-- optionals -/
  | some (v : Val)
  | none

def Val.isErr : Val → Bool
  | .err _ => true
  | _ => false

inductive Viol where
  | depth | calls | recursion
  deriving DecidableEq, Repr

inductive Res where
  | val (v : Val)            -- a value or an error value
  | viol (k : Viol)          -- a runtime violation: the host's outcome
  | tail (args : List Val)   -- a tail self-call handed back to the trampoline
  | stuck (why : String)     -- the interpreter itself would fail (panic / type confusion)
  | oof                      -- out of fuel

structure Cfg where
  depthLimit : Option Nat := none
  callLimit : Option Nat := none
  recLimit : Option Nat := none
  tco : Bool := true

structure St where
  out : List String := []   -- lines written by `display`, oldest first
  calls : Nat := 0          -- `stats.ud_calls` (only counted when a call limit is configured)

structure Frame where
  env : List (String × Val)
  self : Option (String × Val)   -- the function whose body this frame runs (recursion cell)
  height : Nat

def lookup (x : String) : List (String × Val) → Option Val
  | [] => none
  | (y, v) :: rest => if x = y then some v else lookup x rest

def Frame.get (fr : Frame) (x : String) : Option Val :=
  match lookup x fr.env with
  | some v => some v
  | none => match fr.self with
    | some (n, c) => if n = x then some c else none
    | none => none

def firstErr : List Val → Option Val
  | [] => none
  | v :: rest => if v.isErr then some v else firstErr rest

def showInt (n : Int) : String := toString n

/-- `to_str` of the core's printable values -/
def toStr : Val → Option String
  | .int n => some (showInt n)
  | .bool b => some (if b then "true" else "false")
  | .str s => some s
  | _ => none

/-- `XSequence::value_to_idx` + `get` for the `Array` case -/
def getIdx (vs : List Val) (i : Int) : Res :=
  let len : Int := vs.length
  if i < 0 then
    let j := i + len
    if j < 0 then .val (.err "index too low")
    else match vs[j.toNat]? with
      | some v => .val v
      | none => .val (.err "index out of bounds")
  else match vs[i.toNat]? with
    | some v => .val v
    | none => .val (.err "index out of bounds")

/-- strict natives of the core fragment on already evaluated, error-free arguments -/
def prim (f : String) (args : List Val) : Res :=
  match f, args with
  | "add", [.int a, .int b] => .val (.int (a + b))
  | "sub", [.int a, .int b] => .val (.int (a - b))
  | "mul", [.int a, .int b] => .val (.int (a * b))
  | "neg", [.int a] => .val (.int (-a))
  | "mod", [.int a, .int b] => if b = 0 then .val (.err "Modulo by zero") else .val (.int (Int.fmod a b))
  | "div_floor", [.int a, .int b] => if b = 0 then .val (.err "Division by zero") else .val (.int (Int.fdiv a b))
  | "lt", [.int a, .int b] => .val (.bool (decide (a < b)))
  | "le", [.int a, .int b] => .val (.bool (decide (a ≤ b)))
  | "gt", [.int a, .int b] => .val (.bool (decide (a > b)))
  | "ge", [.int a, .int b] => .val (.bool (decide (a ≥ b)))
  | "eq", [.int a, .int b] => .val (.bool (decide (a = b)))
  | "ne", [.int a, .int b] => .val (.bool (decide (a ≠ b)))
  | "eq", [.bool a, .bool b] => .val (.bool (a == b))
  | "eq", [.str a, .str b] => .val (.bool (a == b))
  | "not", [.bool a] => .val (.bool (!a))
  | "add", [.str a, .str b] => .val (.str (a ++ b))
  | "to_str", [v] => match toStr v with
      | some s => .val (.str s)
      | none => .stuck "to_str"
  | "len", [.arr vs] => .val (.int vs.length)
  | "error", [.str m] => .val (.err m)
  | "some", [v] => .val (.some v)
  | "none", [] => .val .none
  | "value", [.some v] => .val v
  | "value", [.none] => .val (.err "optional has no value")
  | "value", [.some v, .str _] => .val v
  | "value", [.none, .str m] => .val (.err m)
  | "has_value", [.some _] => .val (.bool true)
  | "has_value", [.none] => .val (.bool false)
  | "get", [.arr vs, .int i] => getIdx vs i
  | "push", [.arr vs, v] => .val (.arr (vs ++ [v]))
  | _, _ => .stuck ("prim " ++ f)

def isStrictPrim (f : String) : Bool :=
  f ∈ ["add", "sub", "mul", "neg", "mod", "div_floor", "lt", "le", "gt", "ge", "eq", "ne", "not", "to_str", "len", "error",
    "some", "none", "value", "has_value", "get", "push"]

def bindParams : List Param → List Val → List Val → Option (List (String × Val))
  -- params, supplied args, defaults (for the trailing optional params, in order)
  | [], [], _ => some []
  | [], _ :: _, _ => none
  | p :: ps, a :: as, ds =>
      -- a supplied argument for an optional parameter consumes that parameter's default slot
      let ds' := match p.dflt with
        | some _ => ds.drop 1
        | none => ds
      (bindParams ps as ds').map (fun r => (p.name, a) :: r)
  | p :: ps, [], d :: ds =>
      match p.dflt with
      | some _ => (bindParams ps [] ds).map (fun r => (p.name, d) :: r)
      | none => none
  | _ :: _, [], [] => none

mutual
  /-- `RuntimeScope::eval` -/
  def eval (fuel : Nat) (cfg : Cfg) (fr : Frame) (e : Expr) (tail : Bool) (st : St) : Res × St :=
    match fuel with
    | 0 => (.oof, st)
    | fuel + 1 =>
      match e with
      | .int n => (.val (.int n), st)
      | .bool b => (.val (.bool b), st)
      | .str s => (.val (.str s), st)
      | .var x => match fr.get x with
          | some v => (.val v, st)
          | none => (.stuck ("unbound " ++ x), st)
      | .tup es => match evalList fuel cfg fr es st with
          | (.ok vs, st') => (.val (.tup vs), st')
          | (.error r, st') => (r, st')
      | .arr es => match evalList fuel cfg fr es st with
          | (.ok vs, st') => (.val (.arr vs), st')
          | (.error r, st') => (r, st')
      | .item e i => match eval fuel cfg fr e false st with
          | (.val (.tup vs), st') => match vs[i]? with
              | some v => (.val v, st')
              | none => (.stuck "item", st')
          | (.val (.err m), st') => (.val (.err m), st')
          | (.val _, st') => (.stuck "item of non-tuple", st')
          | (.tail _, st') => (.stuck "tail escaped", st')
          | r => r
      | .variant tag e => match eval fuel cfg fr e false st with
          | (.val (.err m), st') => (.val (.err m), st')
          | (.val v, st') => (.val (.variant tag v), st')
          | (.tail _, st') => (.stuck "tail escaped", st')
          | r => r
      | .memberValue e tag => match eval fuel cfg fr e false st with
          | (.val (.variant t v), st') =>
              if t = tag then (.val v, st') else (.val (.err "value is of incorrect variant"), st')
          | (.val (.err m), st') => (.val (.err m), st')
          | (.val _, st') => (.stuck "member of non-union", st')
          | (.tail _, st') => (.stuck "tail escaped", st')
          | r => r
      | .memberOpt e tag => match eval fuel cfg fr e false st with
          | (.val (.variant t v), st') => (.val (if t = tag then .some v else .none), st')
          | (.val (.err m), st') => (.val (.err m), st')
          | (.val _, st') => (.stuck "member of non-union", st')
          | (.tail _, st') => (.stuck "tail escaped", st')
          | r => r
      | .lam f => mkClos fuel cfg fr f st
      | .call f args =>
          -- the tail-call special case: callee is the local recursion cell and the tail slot is free
          match fr.self with
          | some (selfName, selfClos) =>
              if f = selfName && (lookup f fr.env).isNone then
                if tail && cfg.tco then
                  match evalList fuel cfg fr args st with
                  | (.ok vs, st') => (.tail vs, st')
                  | (.error r, st') => (r, st')
                else callVal fuel cfg fr selfClos args tail st
              else callNamed fuel cfg fr f args tail st
          | none => callNamed fuel cfg fr f args tail st
      | .callE fe args => match eval fuel cfg fr fe false st with
          | (.val (.err m), st') => (.val (.err m), st')
          | (.val c, st') => callVal fuel cfg fr c args tail st'
          | (.tail _, st') => (.stuck "tail escaped", st')
          | r => r

  /-- a call by name that is not the tail special case -/
  def callNamed (fuel : Nat) (cfg : Cfg) (fr : Frame) (f : String) (args : List Expr) (tail : Bool) (st : St) : Res × St :=
    match fuel with
    | 0 => (.oof, st)
    | fuel + 1 =>
      match fr.get f with
      | some c => callVal fuel cfg fr c args tail st
      | none => builtin fuel cfg fr f args tail st

  /-- `eval_func_with_expressions` for a function value -/
  def callVal (fuel : Nat) (cfg : Cfg) (fr : Frame) (c : Val) (args : List Expr) (_tail : Bool) (st : St) : Res × St :=
    match fuel with
    | 0 => (.oof, st)
    | fuel + 1 =>
      match c with
      | .clos f dflts env =>
          match evalList fuel cfg fr args st with
          | (.ok vs, st') => callUser fuel cfg fr.height (.clos f dflts env) vs st'
          | (.error r, st') => (r, st')
      | .err m => (.val (.err m), st)
      | _ => (.stuck "call of a non-function", st)

  /-- arguments left to right, each exactly once; the first error value or non-value outcome ends it -/
  def evalList (fuel : Nat) (cfg : Cfg) (fr : Frame) (es : List Expr) (st : St) : Except Res (List Val) × St :=
    match fuel with
    | 0 => (.error .oof, st)
    | fuel + 1 =>
      match es with
      | [] => (.ok [], st)
      | e :: rest => match eval fuel cfg fr e false st with
          | (.val (.err m), st') => (.error (.val (.err m)), st')
          | (.val v, st') => match evalList fuel cfg fr rest st' with
              | (.ok vs, st'') => (.ok (v :: vs), st'')
              | r => r
          | (.tail _, st') => (.error (.stuck "tail escaped"), st')
          | (r, st') => (.error r, st')

  /-- closure creation (`to_function` / `from_specs`): defaults are evaluated now, in the defining frame -/
  def mkClos (fuel : Nat) (cfg : Cfg) (fr : Frame) (f : Func) (st : St) : Res × St :=
    match fuel with
    | 0 => (.oof, st)
    | fuel + 1 =>
      match evalDflts fuel cfg fr f.params st with
      | (.ok ds, st') =>
          let env := match fr.self with
            | some s => fr.env ++ [s]
            | none => fr.env
          (.val (.clos f ds env), st')
      | (.error r, st') => (r, st')

  /-- defaults may be error values (they are stored as evaluated, `from_specs`) -/
  def evalDflts (fuel : Nat) (cfg : Cfg) (fr : Frame) (ps : List Param) (st : St) : Except Res (List Val) × St :=
    match fuel with
    | 0 => (.error .oof, st)
    | fuel + 1 =>
      match ps with
      | [] => (.ok [], st)
      | p :: rest => match p.dflt with
          | none => evalDflts fuel cfg fr rest st
          | some d => match eval fuel cfg fr d false st with
              | (.val v, st') => match evalDflts fuel cfg fr rest st' with
                  | (.ok vs, st'') => (.ok (v :: vs), st'')
                  | r => r
              | (.tail _, st') => (.error (.stuck "tail escaped"), st')
              | (r, st') => (.error r, st')

  /-- `eval_func_with_values` (user function): call counter, then the trampoline -/
  def callUser (fuel : Nat) (cfg : Cfg) (height : Nat) (c : Val) (args : List Val) (st : St) : Res × St :=
    match fuel with
    | 0 => (.oof, st)
    | fuel + 1 =>
      match firstErr args with
      | some e => (.val e, st)
      | none =>
        match cfg.callLimit with
        | some l =>
            let st' := { st with calls := st.calls + 1 }
            if st'.calls ≥ l then (.viol .calls, st') else tramp fuel cfg height c args 0 st'
        | none => tramp fuel cfg height c args 0 st

  /-- the trampoline loop of `eval_func_with_values` -/
  def tramp (fuel : Nat) (cfg : Cfg) (height : Nat) (c : Val) (args : List Val) (rec : Nat) (st : St) : Res × St :=
    match fuel with
    | 0 => (.oof, st)
    | fuel + 1 =>
      match c with
      | .clos f dflts env =>
          -- `from_template`: depth check first
          let h := height + 1
          if (match cfg.depthLimit with | some l => decide (h ≥ l) | none => false) then (.viol .depth, st)
          else match bindParams f.params args dflts with
            | none => (.stuck "arity", st)
            | some ps =>
              let self := match f.name with
                | some n => some (n, c)
                | none => none
              let fr : Frame := { env := ps.reverse ++ env, self := self, height := h }
              match evalDecls fuel cfg fr f.decls st with
              | (.error r, st') => (r, st')
              | (.ok fr', st') =>
                match eval fuel cfg fr' f.body true st' with
                | (.tail newArgs, st'') =>
                    let rec' := rec + 1
                    if (match cfg.recLimit with | some l => decide (rec' > l) | none => false) then (.viol .recursion, st'')
                    else tramp fuel cfg height c newArgs rec' st''
                | r => r
      | _ => (.stuck "tramp of a non-function", st)

  /-- the declarations of a body, in order (`from_template`) -/
  def evalDecls (fuel : Nat) (cfg : Cfg) (fr : Frame) (ds : List Decl) (st : St) : Except Res Frame × St :=
    match fuel with
    | 0 => (.error .oof, st)
    | fuel + 1 =>
      match ds with
      | [] => (.ok fr, st)
      | .letD x e :: rest => match eval fuel cfg fr e false st with
          | (.val v, st') => evalDecls fuel cfg { fr with env := (x, v) :: fr.env } rest st'
          | (.tail _, st') => (.error (.stuck "tail escaped"), st')
          | (r, st') => (.error r, st')
      | .fnD f :: rest => match mkClos fuel cfg fr f st with
          | (.val c, st') => match f.name with
              | some n => evalDecls fuel cfg { fr with env := (n, c) :: fr.env } rest st'
              | none => (.error (.stuck "anonymous declaration"), st')
          | (.tail _, st') => (.error (.stuck "tail escaped"), st')
          | (r, st') => (.error r, st')

  /-- natives: the short-circuiting ones evaluate only the selected argument and forward the tail slot -/
  def builtin (fuel : Nat) (cfg : Cfg) (fr : Frame) (f : String) (args : List Expr) (tail : Bool) (st : St) : Res × St :=
    match fuel with
    | 0 => (.oof, st)
    | fuel + 1 =>
      match f, args with
      | "if", [c, a, b] => match eval fuel cfg fr c false st with
          | (.val (.bool t), st') => eval fuel cfg fr (if t then a else b) tail st'
          | (.val (.err m), st') => (.val (.err m), st')
          | (.val _, st') => (.stuck "if", st')
          | (.tail _, st') => (.stuck "tail escaped", st')
          | r => r
      | "and", [a, b] => match eval fuel cfg fr a false st with
          | (.val (.bool true), st') => eval fuel cfg fr b tail st'
          | (.val (.bool false), st') => (.val (.bool false), st')
          | (.val (.some _), st') => eval fuel cfg fr b tail st'
          | (.val .none, st') => (.val .none, st')
          | (.val (.err m), st') => (.val (.err m), st')
          | (.val _, st') => (.stuck "and", st')
          | (.tail _, st') => (.stuck "tail escaped", st')
          | r => r
      | "or", [a, b] => match eval fuel cfg fr a false st with
          | (.val (.bool false), st') => eval fuel cfg fr b tail st'
          | (.val (.bool true), st') => (.val (.bool true), st')
          | (.val .none, st') => eval fuel cfg fr b tail st'
          | (.val (.some v), st') => (.val v, st')
          | (.val (.err m), st') => (.val (.err m), st')
          | (.val _, st') => (.stuck "or", st')
          | (.tail _, st') => (.stuck "tail escaped", st')
          | r => r
      | "map_or", [o, f, d] => match eval fuel cfg fr o false st with
          | (.val .none, st') => eval fuel cfg fr d tail st'
          | (.val (.some v), st') => match eval fuel cfg fr f false st' with
              | (.val (.err m), st'') => (.val (.err m), st'')
              | (.val (.clos g dflts env), st'') => callUser fuel cfg fr.height (.clos g dflts env) [v] st''
              | (.val _, st'') => (.stuck "map_or of a non-function", st'')
              | (.tail _, st'') => (.stuck "tail escaped", st'')
              | r => r
          | (.val (.err m), st') => (.val (.err m), st')
          | (.val _, st') => (.stuck "map_or", st')
          | (.tail _, st') => (.stuck "tail escaped", st')
          | r => r
      | "if_error", [a, b] => match eval fuel cfg fr a false st with
          | (.val (.err _), st') => eval fuel cfg fr b tail st'
          | (.val v, st') => (.val v, st')
          | (.tail _, st') => (.stuck "tail escaped", st')
          | r => r
      | "is_error", [a] => match eval fuel cfg fr a false st with
          | (.val v, st') => (.val (.bool v.isErr), st')
          | (.tail _, st') => (.stuck "tail escaped", st')
          | r => r
      | "display", [a] => match eval fuel cfg fr a false st with
          | (.val (.err m), st') => (.val (.err m), st')
          | (.val v, st') => match toStr v with
              | some s => (.val v, { st' with out := st'.out ++ [s] })
              | none => (.stuck "display", st')
          | (.tail _, st') => (.stuck "tail escaped", st')
          | r => r
      | _, _ =>
          if isStrictPrim f then
            match evalList fuel cfg fr args st with
            | (.ok vs, st') => (prim f vs, st')
            | (.error r, st') => (r, st')
          else (.stuck ("unknown function " ++ f), st)
end

/-- a program: top-level declarations evaluated in order (`RootEvaluationScope::from_compilation_scope`) -/
def runProgram (fuel : Nat) (cfg : Cfg) (ds : List Decl) : Except Res Frame × St :=
  evalDecls fuel cfg { env := [], self := none, height := 0 } ds {}

end XrayModel.CoreX
