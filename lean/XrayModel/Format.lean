/-
C19 — the format specifier machinery: `XFormatting::from_str` (xformatter.rs:131-195, a regular
expression; modelled as a backtracking parser over `List Char` with the regex's leftmost-first
preference: every optional piece is tried first, then skipped), `FillSpecs::fillers`, `sign`, `group`
(xformatter.rs:64-225), and the `format` pipelines of `int` (int.rs add_int_format) and `str`
(str.rs:378-422).  Core Lean only.

  ^ ((fill .)? (align [<>=^]))? (sign [-+ ])? (alt #)? (zero 0)? (width [1-9][0-9]*)?
    (grouping [,_])? (\. (precision [0-9]*))? (type .)? $
-/
namespace XrayModel.Format

/-- the raw captures of the regular expression -/
structure Caps where
  fill : Option Char := none
  align : Option Char := none
  sign : Option Char := none
  alt : Bool := false
  zero : Bool := false
  width : Option (List Char) := none
  grouping : Option Char := none
  precision : Option (List Char) := none
  mode : Option Char := none
  deriving Repr, DecidableEq

def isAlign (c : Char) : Bool := c == '<' || c == '>' || c == '=' || c == '^'
def isSign (c : Char) : Bool := c == '-' || c == '+' || c == ' '
def isDigit (c : Char) : Bool := '0' ≤ c && c ≤ '9'
def isDigit19 (c : Char) : Bool := '1' ≤ c && c ≤ '9'
def isGroup (c : Char) : Bool := c == ',' || c == '_'
/-- `.` does not match a line feed -/
def isDot (c : Char) : Bool := c != '\n'

/-- `(type .)? $` -/
def pType (c : Caps) : List Char → Option Caps
  | [] => some c
  | [t] => if isDot t then some { c with mode := some t } else none
  | _ => none

/-- greedy `[0-9]*` with backtracking: try the `k` longest first, then shorter ones -/
def tryTake (k : Nat → Option Caps) : Nat → Option Caps
  | 0 => k 0
  | n + 1 => (k (n + 1)).orElse fun _ => tryTake k n

def pPrec (c : Caps) (s : List Char) : Option Caps :=
  match s with
  | '.' :: rest =>
    let ds := rest.takeWhile isDigit
    (tryTake (fun n => pType { c with precision := some (ds.take n) } (rest.drop n)) ds.length).orElse
      fun _ => pType c s
  | _ => pType c s

def pGroup (c : Caps) (s : List Char) : Option Caps :=
  match s with
  | g :: rest => if isGroup g then (pPrec { c with grouping := some g } rest).orElse fun _ => pPrec c s else pPrec c s
  | [] => pPrec c s

/-- like `tryTake` but at least one digit must be taken -/
def tryTake1 (k : Nat → Option Caps) : Nat → Option Caps
  | 0 => none
  | n + 1 => (k (n + 1)).orElse fun _ => tryTake1 k n

def pWidth (c : Caps) (s : List Char) : Option Caps :=
  match s with
  | d :: rest =>
    if isDigit19 d then
      let ds := d :: rest.takeWhile isDigit
      (tryTake1 (fun n => pGroup { c with width := some (ds.take n) } (s.drop n)) ds.length).orElse
        fun _ => pGroup c s
    else pGroup c s
  | [] => pGroup c s

def pZero (c : Caps) (s : List Char) : Option Caps :=
  match s with
  | '0' :: rest => (pWidth { c with zero := true } rest).orElse fun _ => pWidth c s
  | _ => pWidth c s

def pAlt (c : Caps) (s : List Char) : Option Caps :=
  match s with
  | '#' :: rest => (pZero { c with alt := true } rest).orElse fun _ => pZero c s
  | _ => pZero c s

def pSign (c : Caps) (s : List Char) : Option Caps :=
  match s with
  | g :: rest => if isSign g then (pAlt { c with sign := some g } rest).orElse fun _ => pAlt c s else pAlt c s
  | [] => pAlt c s

/-- `((fill .)? (align [<>=^]))?` then the rest -/
def pFillAlign (s : List Char) : Option Caps :=
  let withFill : Option Caps := match s with
    | f :: a :: rest => if isDot f && isAlign a then pSign { fill := some f, align := some a } rest else none
    | _ => none
  let noFill : Option Caps := match s with
    | a :: rest => if isAlign a then pSign { align := some a } rest else none
    | _ => none
  (withFill.orElse fun _ => noFill).orElse fun _ => pSign {} s

def digitsVal (ds : List Char) : Nat := ds.foldl (fun acc d => acc * 10 + (d.toNat - '0'.toNat)) 0

/-- `str::parse::<usize>()`: non-empty decimal digits, value below 2^64 -/
def parseUsize (ds : List Char) : Option Nat :=
  if ds.isEmpty then none
  else if digitsVal ds < 18446744073709551616 then some (digitsVal ds) else none

structure FillSpecs where
  filler : Option Char
  alignment : Option Char
  zeroPad : Bool
  width : Nat
  deriving Repr, DecidableEq

structure Spec where
  fill : Option FillSpecs
  precision : Option Nat
  sign : Option Char
  grouping : Option Char
  mode : Option Char
  alt : Bool
  deriving Repr, DecidableEq

/-- `XFormatting::from_str` -/
def parseSpec (s : List Char) : Option Spec :=
  match pFillAlign s with
  | none => none
  | some c =>
    let fill : Option FillSpecs := match c.width.bind parseUsize with
      | some w => some { filler := c.fill, alignment := c.align, zeroPad := c.zero, width := w }
      | none => none
    -- a non-ASCII fill character is refused — but only if there are fill specs at all
    if (match fill with | some f => (match f.filler with | some ch => decide (ch.toNat ≥ 128) | none => false) | none => false) then none
    else some { fill := fill, precision := c.precision.bind parseUsize, sign := c.sign,
                grouping := c.grouping, mode := c.mode, alt := c.alt }

def rep (c : Char) (n : Nat) : List Char := List.replicate n c

/-- `FillSpecs::fillers(current_len)`: (prefix, infix, postfix) -/
def fillers (f : FillSpecs) (len : Nat) : List Char × List Char × List Char :=
  if f.width < len then ([], [], [])
  else
    let pad := f.width - len
    let ch := f.filler.getD (if f.zeroPad then '0' else ' ')
    let al := f.alignment.getD (if f.zeroPad then '=' else '>')
    if al == '<' then ([], [], rep ch pad)
    else if al == '>' then (rep ch pad, [], [])
    else if al == '=' then ([], rep ch pad, [])
    else (rep ch (pad / 2), [], rep ch (pad - pad / 2))

/-- `sign(is_negative)` -/
def signPart (sp : Spec) (neg : Bool) : List Char :=
  if neg then ['-']
  else match sp.sign with
    | some '+' => ['+']
    | some ' ' => [' ']
    | _ => []

/-- `group_str`: chunks of three from the right, joined by the grouping character -/
def groupRev (g : Char) : List Char → List Char
  | a :: b :: c :: d :: rest => a :: b :: c :: g :: groupRev g (d :: rest)
  | l => l

def group (sp : Spec) (digits : List Char) : List Char :=
  match sp.grouping with
  | some g => (groupRev g digits.reverse).reverse
  | none => digits

def digitChar (d : Nat) : Char := if d < 10 then Char.ofNat (48 + d) else Char.ofNat (87 + d)

def toRadixAux (radix : Nat) : Nat → Nat → List Char → List Char
  | 0, _, acc => acc
  | fuel + 1, n, acc =>
    if n < radix then digitChar n :: acc
    else toRadixAux radix fuel (n / radix) (digitChar (n % radix) :: acc)

/-- `magnitude_to_str(radix)` (lower-case digits) -/
def magnitudeToStr (radix : Nat) (n : Nat) : List Char := toRadixAux radix (n + 1) n []

inductive FmtRes where
  | ok (s : List Char)
  | err (msg : String)
  | panic
  deriving Repr, DecidableEq

/-- int.rs `add_int_format` (the allocation pre-flight is not modelled) -/
def formatInt (i : Int) (spec : List Char) : FmtRes :=
  match parseSpec spec with
  | none => .err "invalid format spec"
  | some sp =>
    if sp.precision.isSome then .err "int cannot be formatted with precision"
    else
      let radix : Option Nat := match sp.mode with
        | none => some 10
        | some 'x' => some 16 | some 'X' => some 16
        | some 'o' => some 8 | some 'O' => some 8
        | some 'b' => some 2 | some 'B' => some 2
        | some _ => none
      match radix with
      | none => .err "unrecognized int type"
      | some radix =>
        let body := group sp (magnitudeToStr radix i.natAbs)
        let sg := signPart sp (decide (i < 0))
        let sgAlt : Option (List Char) :=
          if sp.alt then (match sp.mode with | some t => some (sg ++ ['0', t]) | none => none) else some sg
        match sgAlt with
        | none => .err "missing type for alt"
        | some sg =>
          let (pre, inf, post) := match sp.fill with
            | some f => fillers f (body.length + sg.length)
            | none => ([], [], [])
          .ok (pre ++ sg ++ inf ++ body ++ post)

/-- str.rs `add_str_format` (after the `fix:` commit 86cb0e6: zero padding without an explicit
alignment is the sign-sensitivity error, it used to trip `assert!(infix.is_empty())`) -/
def formatStr (s : List Char) (spec : List Char) : FmtRes :=
  match parseSpec spec with
  | none => .err "invalid format spec"
  | some sp =>
    if sp.precision.isSome then .err "str cannot be formatted with precision"
    else if sp.mode.isSome || sp.alt then .err "str cannot be formatted with type"
    else if sp.grouping.isSome then .err "str cannot be formatted with group"
    else if sp.sign.isSome then .err "str cannot be formatted with sign"
    else match sp.fill with
      | none => .ok s
      | some f =>
        if f.alignment == some '=' || (f.alignment == none && f.zeroPad) then
          .err "str cannot be formatted with sign-sensitivity"
        else
          let (pre, inf, post) := fillers f s.length
          if !inf.isEmpty then .panic   -- assert!(infix.is_empty())
          else .ok (pre ++ s ++ post)

end XrayModel.Format
