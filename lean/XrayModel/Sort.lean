/-
C19 — model of `/repo/src/util/trysort.rs` (fallible merge sort), `/repo/src/util/try_heap.rs`
and the order-statistic builtins of `/repo/src/builtin/sequence.rs:304-479`, read functionally.

The Rust code works in place on `v: &mut [T]` with raw pointers and drop guards (`InsertionHole`,
`MergeHole`, the heap's `Hole`) that put the buffer back into a consistent state when the comparator
fails.  The functional reading keeps, for every sub-routine, ALL outcomes:

  * `ok v n`        – finished with payload `v` (usually the new contents of the slice); `n`
                      comparisons have been made so far (over the whole call);
  * `fail e buf n`  – comparison number `n-1` failed with `e`; `buf` is what the slice holds after
                      the drop guard has run (this is what the caller of `try_sort` is left with);
  * `panic`         – a Rust panic site of the dev profile (the `debug_assert!` at the end of
                      `try_sort`, `arr.len() - 1` on an empty array in `quickselect`) — or the fuel of
                      a loop ran out; `sort_no_panic` proves that `trySort` never gets there.

The comparator is `lt : Nat → α → α → Except ε Bool`: the first argument is the index of the
comparison (0-based, counted over the whole call), so that "fails at the k-th comparison" is
expressible.  A comparator that ignores the index is an ordinary (pure) one.
No imports: core Lean only.
-/
namespace XrayModel.Sort

abbrev Cmp (ε α : Type) := Nat → α → α → Except ε Bool

inductive Res (ε α β : Type) where
  | ok (v : β) (n : Nat)
  | fail (e : ε) (buf : List α) (n : Nat)
  | panic
  deriving Repr, DecidableEq

namespace Res
def bind (r : Res ε α β) (f : β → Nat → Res ε α γ) : Res ε α γ :=
  match r with
  | ok v n => f v n
  | fail e b n => fail e b n
  | panic => panic

def map (g : β → γ) : Res ε α β → Res ε α γ
  | ok v n => ok (g v) n
  | fail e b n => fail e b n
  | panic => panic

/-- the buffer a failure reports is the slice worked on; in the enclosing buffer it sits between
`pre` and `post` -/
def failCtx (pre post : List α) : Res ε α β → Res ε α β
  | ok v n => ok v n
  | fail e b n => fail e (pre ++ b ++ post) n
  | panic => panic

/-- a routine that worked on the slice between `pre` and `post` of a bigger slice -/
def ctx (pre post : List α) : Res ε α (List α) → Res ε α (List α)
  | ok l n => ok (pre ++ l ++ post) n
  | fail e b n => fail e (pre ++ b ++ post) n
  | panic => panic

def mapAll (g : List α → List α) : Res ε α (List α) → Res ε α (List α)
  | ok l n => ok (g l) n
  | fail e b n => fail e (g b) n
  | panic => panic
end Res

abbrev LRes (ε α : Type) := Res ε α (List α)

/-! ### insert_head (trysort.rs:12-79)

`insert_head(v)` inserts `v[0]` into the sorted `v[1..]`.  `insertTail x zs` is the loop: `x` is
`tmp`, the elements already shifted left are the context added by `ctx [z] []`, and on a failing
comparison the `InsertionHole` guard writes `tmp` into the hole: prefix ++ x :: untouched rest. -/
def insertTail (lt : Cmp ε α) (x : α) : List α → Nat → LRes ε α
  | [], n => .ok [x] n
  | z :: zs, n =>
    match lt n z x with
    | .error e => .fail e (x :: z :: zs) (n + 1)
    | .ok false => .ok (x :: z :: zs) (n + 1)
    | .ok true => (insertTail lt x zs (n + 1)).ctx [z] []

def insertHead (lt : Cmp ε α) : List α → Nat → LRes ε α
  | [], n => .ok [] n
  | x :: rest, n => insertTail lt x rest n

/-- trysort.rs:242-249: `for i in (0..len-1).rev() { insert_head(&mut v[i..]) }` -/
def insertionSort (lt : Cmp ε α) : List α → Nat → LRes ε α
  | [], n => .ok [] n
  | x :: xs, n => ((insertionSort lt xs n).ctx [x] []).bind (insertHead lt)

/-! ### merge (trysort.rs:89-210) -/

/-- left run shorter (copied to `buf`), merging forwards.  `a :: l` is what is left of the copy of
the left run, the list argument what is left of the right run; already written output is the `ctx`.
`is_less(right, left)` true → take right, else take left (stability).  On a failure the `MergeHole`
guard copies the rest of the left run back: out ++ left_rest ++ right_rest. -/
def mergeLoAux (lt : Cmp ε α) (a : α) (l : List α) (recL : List α → Nat → LRes ε α) :
    List α → Nat → LRes ε α
  | [], n => .ok (a :: l) n
  | b :: r, n =>
    match lt n b a with
    | .error e => .fail e (a :: l ++ b :: r) (n + 1)
    | .ok true => (mergeLoAux lt a l recL r (n + 1)).ctx [b] []
    | .ok false => (recL (b :: r) (n + 1)).ctx [a] []

def mergeLo (lt : Cmp ε α) : List α → List α → Nat → LRes ε α
  | [], r, n => .ok r n
  | a :: l, r, n => mergeLoAux lt a l (mergeLo lt l) r n

/-- right run shorter, merging backwards; both runs and the result are held REVERSED here
(`b :: rr` = right run from its last element, `a :: rl` = left run from its last element).
`is_less(right.last, left.last)` true → take left.last, else right.last. -/
def mergeHiAux (lt : Cmp ε α) (b : α) (rr : List α) (recR : List α → Nat → LRes ε α) :
    List α → Nat → LRes ε α
  | [], n => .ok (b :: rr) n
  | a :: rl, n =>
    match lt n b a with
    | .error e => .fail e (b :: rr ++ a :: rl) (n + 1)
    | .ok true => (mergeHiAux lt b rr recR rl (n + 1)).ctx [a] []
    | .ok false => (recR (a :: rl) (n + 1)).ctx [b] []

def mergeHiRev (lt : Cmp ε α) : List α → List α → Nat → LRes ε α
  | [], rl, n => .ok rl n
  | b :: rr, rl, n => mergeHiAux lt b rr (mergeHiRev lt rr) rl n

/-- `merge(v, mid, buf, is_less)` with `left = v[..mid]`, `right = v[mid..]` (`mid <= len - mid`
decides the direction) -/
def merge (lt : Cmp ε α) (left right : List α) (n : Nat) : LRes ε α :=
  if left.length ≤ right.length then mergeLo lt left right n
  else (mergeHiRev lt right.reverse left.reverse n).mapAll List.reverse

/-! ### natural runs (trysort.rs:263-297)

The buffer is traversed backwards.  `rpre` is the still unprocessed prefix `v[..end]` REVERSED
(head = `v[end-1]`); `run` is `v[start..end]` in buffer order, its head is `v[start]`.
Payload of a step: `(run, rest)`; the buffer of a failure is `v[..end]` (everything but the runs
already on the stack). -/
abbrev Step (ε α : Type) := Res ε α (List α × List α)

/-- `while start > 0 && (is_less(v[start], v[start-1]) == want) { start -= 1 }`
(`want = true`: the strictly descending branch; `want = false`: the non-descending branch,
`!is_less(..)` — that negation is the `fix:` commit e77b0b8).  Nothing is written while scanning, so
on failure the buffer is the unchanged `rest.reverse ++ run`. -/
def scan (lt : Cmp ε α) (want : Bool) : α → List α → List α → Nat → Step ε α
  | _, run, [], n => .ok (run, []) n
  | cur, run, c :: rest, n =>
    match lt n cur c with
    | .error e => .fail e ((c :: rest).reverse ++ run) (n + 1)
    | .ok b =>
      if b == want then scan lt want c (c :: run) rest (n + 1)
      else .ok (run, c :: rest) (n + 1)

def findRun (lt : Cmp ε α) : List α → Nat → Step ε α
  | [], n => .ok ([], []) n
  | [a], n => .ok ([a], []) n
  | a :: b :: rest, n =>
    match lt n a b with
    | .error e => .fail e ((a :: b :: rest).reverse) (n + 1)
    | .ok true => (scan lt true b [b, a] rest (n + 1)).map (fun p => (p.1.reverse, p.2))
    | .ok false => scan lt false b [b, a] rest (n + 1)

def MIN_RUN : Nat := 10
def MAX_INSERTION : Nat := 20

/-- `while start > 0 && end - start < MIN_RUN { start -= 1; insert_head(&mut v[start..end]) }` -/
def extendRun (lt : Cmp ε α) : List α → List α → Nat → Step ε α
  | run, [], n => .ok (run, []) n
  | run, c :: rest, n =>
    if run.length < MIN_RUN then
      ((insertHead lt (c :: run) n).failCtx rest.reverse []).bind (fun run' n' => extendRun lt run' rest n')
    else .ok (run, c :: rest) n

/-! ### the run stack (trysort.rs:299-360)

`stack` = the pending runs, head = `runs[n-1]` (the leftmost, most recently pushed one);
`atZero` = `runs[n-1].start == 0`. -/

/-- `collapse(&runs)`: `none`, or `some false` = merge `runs[n-2]` with `runs[n-1]` (`r = n-2`),
`some true` = merge `runs[n-3]` with `runs[n-2]` (`r = n-3`). -/
def collapse (atZero : Bool) : List (List α) → Option Bool
  | s0 :: s1 :: rest =>
    let c3 := match rest with
      | s2 :: _ => decide (s2.length ≤ s1.length + s0.length)
      | [] => false
    let c4 := match rest with
      | s2 :: s3 :: _ => decide (s3.length ≤ s2.length + s1.length)
      | _ => false
    if atZero || decide (s1.length ≤ s0.length) || c3 || c4 then
      match rest with
      | s2 :: _ => if s2.length < s0.length then some true else some false
      | [] => some false
    else none
  | _ => none

/-- `while let Some(r) = collapse(&runs) { merge(..); runs[r] = ..; runs.remove(r + 1) }`.
The payload is the new stack; a failure reports `v[end..]` (the concatenated stack). -/
def collapseLoop (lt : Cmp ε α) (atZero : Bool) : Nat → List (List α) → Nat → Res ε α (List (List α))
  | 0, st, n => match collapse atZero st with
    | none => .ok st n
    | some _ => .panic   -- out of fuel (fuel = stack height; never happens: `collapseLoop_fuel`)
  | fuel + 1, st, n =>
    match collapse atZero st, st with
    | none, _ => .ok st n
    | some false, s0 :: s1 :: rest =>
      -- left = runs[n-1] = s0, right = runs[n-2] = s1
      (((merge lt s0 s1 n).failCtx [] rest.flatten).bind
        (fun m n' => collapseLoop lt atZero fuel (m :: rest) n'))
    | some true, s0 :: s1 :: s2 :: rest =>
      -- left = runs[n-2] = s1, right = runs[n-3] = s2
      (((merge lt s1 s2 n).failCtx s0 rest.flatten).bind
        (fun m n' => collapseLoop lt atZero fuel (s0 :: m :: rest) n'))
    | some _, _ => .panic   -- index out of bounds in Rust; `collapse` never answers so on such a stack

/-- the `while end > 0` loop of `try_sort` followed by the final `debug_assert!` -/
def mainLoop (lt : Cmp ε α) : Nat → List α → List (List α) → Nat → LRes ε α
  | _, [], st, n =>
    match st with
    | [r] => .ok r n
    | _ => .panic      -- debug_assert!(runs.len() == 1 && runs[0].start == 0 && runs[0].len == len)
  | 0, _ :: _, _, _ => .panic   -- out of fuel (fuel = len; every round consumes an element)
  | fuel + 1, a :: rpre, st, n =>
    ((findRun lt (a :: rpre) n).failCtx [] st.flatten).bind fun p n1 =>
    ((extendRun lt p.1 p.2 n1).failCtx [] st.flatten).bind fun q n2 =>
    ((collapseLoop lt q.2.isEmpty (st.length + 1) (q.1 :: st) n2).failCtx q.2.reverse []).bind fun st' n3 =>
    mainLoop lt fuel q.2 st' n3

/-- `try_sort(v, is_less)`; `n` = number of comparisons made before the call -/
def trySort (lt : Cmp ε α) (v : List α) (n : Nat := 0) : LRes ε α :=
  if v.length ≤ MAX_INSERTION then insertionSort lt v n
  else mainLoop lt v.length v.reverse [] n

/-! ### `XSequence::sorted` (sequence.rs:304-357)

`cmp` answers the sign of the user's comparison function (`is_positive` / `is_negative` are taken of
it).  First the adjacent pairs are tested (`cmp > 0` anywhere → not sorted), then `try_sort` runs
with `is_less = cmp < 0`.  `none` = "already sorted, the same sequence is returned". -/
abbrev Cmp3 (ε α : Type) := Nat → α → α → Except ε Int

def isSortedPre (cmp : Cmp3 ε α) : List α → Nat → Res ε α Bool
  | a :: b :: rest, n =>
    match cmp n a b with
    | .error e => .fail e [] (n + 1)     -- nothing was written; the caller (`seqSorted`) supplies the array
    | .ok c => if c > 0 then .ok false (n + 1) else isSortedPre cmp (b :: rest) (n + 1)
  | _, n => .ok true n

def ltOf (cmp : Cmp3 ε α) : Cmp ε α := fun i a b =>
  match cmp i a b with
  | .error e => .error e
  | .ok c => .ok (decide (c < 0))

def seqSorted (cmp : Cmp3 ε α) (v : List α) : Res ε α (Option (List α)) :=
  ((isSortedPre cmp v 0).failCtx v []).bind fun sorted n =>
    if sorted then .ok none n else (trySort (ltOf cmp) v n).map some

/-! ### `TryHeap` (try_heap.rs): a binary max-heap w.r.t. `is_le`, arrays read as lists with index
operations.  An index the Rust code would read out of bounds (`debug_assert!` in `Hole::get`) is a
`panic`.  A failing comparison leaves the array with the hole filled again (`Drop for Hole`). -/
namespace Heap

/-- `sift_up(start, pos)`: `data` has a hole at `pos`, `elt` is the element taken out.
Payload: the array with the hole filled, and the final position. -/
def siftUp (le : Cmp ε α) (start : Nat) : Nat → List α → α → Nat → Nat → Res ε α (List α × Nat)
  | 0, _, _, _, _ => .panic
  | fuel + 1, data, elt, pos, n =>
    if pos > start then
      let parent := (pos - 1) / 2
      match data[parent]? with
      | none => .panic
      | some p =>
        match le n elt p with
        | .error e => .fail e (data.set pos elt) (n + 1)
        | .ok true => .ok (data.set pos elt, pos) (n + 1)
        | .ok false => siftUp le start fuel (data.set pos p) elt parent (n + 1)
    else .ok (data.set pos elt, pos) n

/-- the `while child <= end.saturating_sub(2)` loop of `sift_down_to_bottom`; payload: array (hole
not yet filled), hole position, next child -/
def siftDownLoop (le : Cmp ε α) (elt : α) : Nat → List α → Nat → Nat → Nat → Res ε α (List α × Nat × Nat)
  | 0, _, _, _, _ => .panic
  | fuel + 1, data, hole, child, n =>
    if child ≤ data.length - 2 then
      match data[child]?, data[child + 1]? with
      | some l, some r =>
        match le n l r with
        | .error e => .fail e (data.set hole elt) (n + 1)
        | .ok c =>
          let ch := if c then child + 1 else child
          match data[ch]? with
          | none => .panic
          | some v => siftDownLoop le elt fuel (data.set hole v) ch (2 * ch + 1) (n + 1)
      | _, _ => .panic
    else .ok (data, hole, child) n

/-- `sift_down_to_bottom(pos)` (only ever called with `pos = 0` on a non-empty heap) -/
def siftDownToBottom (le : Cmp ε α) (data : List α) (pos : Nat) (n : Nat) : Res ε α (List α) :=
  match data[pos]? with
  | none => .panic
  | some elt =>
    (siftDownLoop le elt (data.length + 1) data pos (2 * pos + 1) n).bind fun st n1 =>
      let (d, hole, child) := st
      if d.length = 0 then .panic    -- `end - 1` underflows
      else
        let (d, hole) := if child = d.length - 1 then
            (match d[child]? with | some v => (d.set hole v, child) | none => (d, hole))
          else (d, hole)
        (siftUp le pos (hole + 1) d elt hole n1).map (·.1)

/-- `push(item)` -/
def push (le : Cmp ε α) (data : List α) (item : α) (n : Nat) : Res ε α (List α) :=
  (siftUp le 0 (data.length + 1) (data ++ [item]) item data.length n).map (·.1)

/-- `pop()`: payload `(popped item, remaining array)`; a failure reports the remaining array (the
element taken out is dropped together with the error) -/
def pop (le : Cmp ε α) (data : List α) (n : Nat) : Res ε α (Option α × List α) :=
  match data.getLast? with
  | none => .ok (none, []) n
  | some last =>
    let d := data.dropLast
    match d with
    | [] => .ok (some last, []) n
    | root :: _ => (siftDownToBottom le (d.set 0 last) 0 n).map (fun d' => (some root, d'))

def pushAll (le : Cmp ε α) : List α → List α → Nat → Res ε α (List α)
  | data, [], n => .ok data n
  | data, x :: xs, n => (push le data x n).bind fun d n' => pushAll le d xs n'

/-- `n` pops (stopping early when the heap is empty); payload `(popped in order, remaining array)` -/
def popN (le : Cmp ε α) : Nat → List α → List α → Nat → Res ε α (List α × List α)
  | 0, data, acc, n => .ok (acc.reverse, data) n
  | k + 1, data, acc, n =>
    (pop le data n).bind fun r n' =>
      match r.1 with
      | none => .ok (acc.reverse, r.2) n'
      | some x => popN le k r.2 (x :: acc) n'

/-- `XSequence::n_largest::<DEC>` (sequence.rs:360-400): push every element of the sequence, then pop
`n` times (stopping when the heap is empty).  `is_le` is `cmp <= 0` for `n_largest`, `cmp >= 0` for
`n_smallest`. -/
def nLargest (le : Cmp ε α) (n : Nat) (xs : List α) : Res ε α (List α) :=
  (pushAll le [] xs 0).bind fun d c => (popN le n d [] c).map (·.1)

end Heap

/-! ### `XSequence::quickselect` (sequence.rs:402-479) behind `nth_smallest` / `nth_largest` / `median`

`cmp` answers the SIGN of the user's comparison (`.sign()`, an `i8` in {-1, 0, 1}).  The array is a
private `Vec` of the elements; `items.swap` / indexing out of bounds is a Rust panic.  On a comparator
failure the array (a permutation of the elements, only whole-element swaps are made) is dropped. -/
namespace Select

/-- `items.swap(i, j)` -/
def swap (l : List α) (i j : Nat) : Option (List α) :=
  match l[i]?, l[j]? with
  | some a, some b => some ((l.set i b).set j a)
  | _, _ => none

/-- `for j in left..right { if cmp(items[j], pivot) == -1 { items.swap(j, ret); ret += 1 } }`
(`k` = iterations left; since the `fix:` commit 9e13c00 the pivot itself, at `right`, is not compared) -/
def partLoop (cmp : Cmp3 ε α) (pivot : α) : Nat → List α → Nat → Nat → Nat → Res ε α (List α × Nat)
  | 0, items, _, ret, n => .ok (items, ret) n
  | k + 1, items, j, ret, n =>
    match items[j]? with
    | none => .panic
    | some x =>
      match cmp n x pivot with
      | .error e => .fail e items (n + 1)
      | .ok c =>
        if c == -1 then
          match swap items j ret with
          | none => .panic
          | some items' => partLoop cmp pivot k items' (j + 1) (ret + 1) (n + 1)
        else partLoop cmp pivot k items (j + 1) ret (n + 1)

/-- the pivot choice "from three candidates" (sequence.rs:440-456); payload = `piv_idx` -/
def choosePivot (cmp : Cmp3 ε α) (items : List α) (left right : Nat) (n : Nat) : Res ε α Nat :=
  let mid := (left + right) / 2
  match items[left]?, items[right]?, items[mid]? with
  | some a, some b, some c =>
    match cmp n a b with
    | .error e => .fail e items (n + 1)
    | .ok ab =>
      match cmp (n + 1) a c with
      | .error e => .fail e items (n + 2)
      | .ok ac =>
        if ab * ac == -1 then .ok left (n + 2)
        else
          match cmp (n + 2) b c with
          | .error e => .fail e items (n + 3)
          | .ok bc => if bc * (-ab) == -1 then .ok right (n + 3) else .ok mid (n + 3)
  | _, _, _ => .panic

/-- `partition(items, left, right, cmp)`; payload = (items, returned index) -/
def partition (cmp : Cmp3 ε α) (items : List α) (left right : Nat) (n : Nat) : Res ε α (List α × Nat) :=
  if left = right then .ok (items, left) n
  else
    (choosePivot cmp items left right n).bind fun piv n1 =>
      match swap items piv right with
      | none => .panic
      | some items1 =>
        match items1[right]? with
        | none => .panic
        | some pivot =>
          (partLoop cmp pivot (right - left) items1 left left n1).bind fun st n2 =>
            match swap st.1 st.2 right with
            | none => .panic
            | some items2 => .ok (items2, st.2) n2

/-- the `loop` of `quickselect`; payload = (selected element, final array) -/
def selectLoop (cmp : Cmp3 ε α) (target : Nat) : Nat → List α → Nat → Nat → Nat → Res ε α (α × List α)
  | 0, _, _, _, _ => .panic     -- out of fuel (fuel = len + 1; the range shrinks every round)
  | fuel + 1, arr, left, right, n =>
    (partition cmp arr left right n).bind fun st n1 =>
      let (arr', p) := st
      if p = target then
        match arr'[p]? with
        | some x => .ok (x, arr') n1
        | none => .panic
      else if p > target then
        if p = 0 then .panic else selectLoop cmp target fuel arr' left (p - 1) n1
      else selectLoop cmp target fuel arr' (p + 1) right n1

/-- `quickselect(n, cmp)`: `arr.len() - 1` panics on an empty array (the callers test `i1 >= len0`
first, so they never get there) -/
def quickselect (cmp : Cmp3 ε α) (arr : List α) (target : Nat) : Res ε α (α × List α) :=
  if arr.length = 0 then .panic
  else selectLoop cmp target (arr.length + 1) arr 0 (arr.length - 1) 0

/-- `nth_smallest(i, cmp)` / `nth_largest(i, cmp)` / `median(cmp)`: `none` = the error value
"index out of bounds" -/
def nthSmallest (cmp : Cmp3 ε α) (arr : List α) (i : Nat) : Option (Res ε α (α × List α)) :=
  if i ≥ arr.length then none else some (quickselect cmp arr i)
def nthLargest (cmp : Cmp3 ε α) (arr : List α) (i : Nat) : Option (Res ε α (α × List α)) :=
  if i ≥ arr.length then none else some (quickselect cmp arr (arr.length - i - 1))
def median (cmp : Cmp3 ε α) (arr : List α) : Option (Res ε α (α × List α)) :=
  nthSmallest cmp arr (arr.length / 2)

end Select

end XrayModel.Sort
