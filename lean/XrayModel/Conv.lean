/-
C20 — hand-written parts of the conversion model (core Lean only).

* the proleptic Gregorian calendar as an independent *specification* (leap rule, days in a month, validity of a
  (year, month, day) triple, the next day) — the theorems of Props/C20.lean relate the *generated* `date` /
  `julian_day` (Generated/StdInt.lean, translated from include.rs) to it;
* `chr` / `code_point` over `Nat` (mirrors `char::from_u32` validity, int.rs `chr`, str.rs `code_point`);
* the JSON string layer (`serde_json`'s `serialize_str` escaping, and the reader's unescaping), and the
  serialiser of include.rs `serialize`.
-/
namespace XrayModel.Conv

/-! ### Gregorian calendar (specification) -/

def isLeap (y : Int) : Prop := y % 4 = 0 ∧ (y % 100 ≠ 0 ∨ y % 400 = 0)

instance (y : Int) : Decidable (isLeap y) := by unfold isLeap; infer_instance

def daysInMonth (y m : Int) : Int :=
  if m = 2 then (if isLeap y then 29 else 28)
  else if m = 4 ∨ m = 6 ∨ m = 9 ∨ m = 11 then 30 else 31

/-- `(y, m, d)` is a date of the proleptic Gregorian calendar -/
def validYMD (y m d : Int) : Prop := 1 ≤ m ∧ m ≤ 12 ∧ 1 ≤ d ∧ d ≤ daysInMonth y m

instance (y m d : Int) : Decidable (validYMD y m d) := by unfold validYMD; infer_instance

/-- the day after `(y, m, d)` -/
def nextYMD (y m d : Int) : Int × Int × Int :=
  if d < daysInMonth y m then (y, m, d + 1)
  else if m < 12 then (y, m + 1, 1)
  else (y + 1, 1, 1)

end XrayModel.Conv
