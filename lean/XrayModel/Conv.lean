/-
C20 — hand-written parts of the conversion model (core Lean only).

* the proleptic Gregorian calendar as an independent *specification* (leap rule, days in a month, validity of a
  (year, month, day) triple, the next day) — the theorems of Props/C20.lean relate the *generated* `date` /
  `julian_day` (Generated/StdInt.lean, translated from include.rs) to it;
* `chr` / `code_point` over `Nat` (mirrors `char::from_u32` validity, int.rs `chr`, str.rs `code_point`);
* the JSON string layer (`serde_json`'s `serialize_str` escaping, and the reader's unescaping), and the
  serialiser of include.rs `serialize`.
-/
namespace XrayModel.Conv

/-! ### Gregorian calendar (specification) -/

def isLeap (y : Int) : Prop := y % 4 = 0 ∧ (y % 100 ≠ 0 ∨ y % 400 = 0)

instance (y : Int) : Decidable (isLeap y) := by unfold isLeap; infer_instance

def daysInMonth (y m : Int) : Int :=
  if m = 2 then (if isLeap y then 29 else 28)
  else if m = 4 ∨ m = 6 ∨ m = 9 ∨ m = 11 then 30 else 31

/-- `(y, m, d)` is a date of the proleptic Gregorian calendar -/
def validYMD (y m d : Int) : Prop := 1 ≤ m ∧ m ≤ 12 ∧ 1 ≤ d ∧ d ≤ daysInMonth y m

instance (y m d : Int) : Decidable (validYMD y m d) := by unfold validYMD; infer_instance

/-- the day after `(y, m, d)` -/
def nextYMD (y m d : Int) : Int × Int × Int :=
  if d < daysInMonth y m then (y, m, d + 1)
  else if m < 12 then (y, m + 1, 1)
  else (y + 1, 1, 1)


/-! ### code point ↔ one-character string
Strings are lists of Unicode scalar values (`Nat`).  `isScalar` is exactly the validity test of Rust's
`char::try_from(u32)`: not a surrogate, at most 0x10FFFF. -/

def isScalar (n : Nat) : Bool := decide (n < 0xD800) || (decide (0xE000 ≤ n) && decide (n < 0x110000))

/-- `chr` (int.rs :303-311): `to_u32` fails outside 0 … 2^32-1, `char::try_from` fails on surrogates and
above 0x10FFFF; both failures are error values -/
def chr (i : Int) : Except String (List Nat) :=
  if i < 0 ∨ 4294967296 ≤ i then .error "number too large"
  else if isScalar i.toNat then .ok [i.toNat]
  else .error "value is not a unicode char"

/-- `code_point` (str.rs :251-258): defined on strings of exactly one character -/
def codePoint (s : List Nat) : Except String Int :=
  match s with
  | [c] => .ok (c : Int)
  | _ => .error "cannot get code_point a string without exactly one char"

/-! ### JSON strings
`escapeStr` is `serde_json::Serializer::serialize_str` with the default (compact) formatter, which
`__std_json_serialize_str` (json.rs :182-201) calls: quote, backslash and the control characters below 0x20 are
escaped (`\b \t \n \f \r`, otherwise `\u00XX` with lower-case hex digits), everything else is copied.
`unescapeStr` is the reader's side (`serde_json` `parse_str`): the escapes `\" \\ \/ \b \f \n \r \t \uXXXX`
(with surrogate pairs), raw control characters are rejected. -/

def hexDigit (n : Nat) : Nat := if n < 10 then 48 + n else 87 + n    -- '0'.. '9', 'a' .. 'f'

def escapeChar (c : Nat) : List Nat :=
  if c = 34 then [92, 34]            -- \"
  else if c = 92 then [92, 92]       -- \\
  else if c = 8 then [92, 98]        -- \b
  else if c = 9 then [92, 116]       -- \t
  else if c = 10 then [92, 110]      -- \n
  else if c = 12 then [92, 102]      -- \f
  else if c = 13 then [92, 114]      -- \r
  else if c < 32 then [92, 117, 48, 48, hexDigit (c / 16), hexDigit (c % 16)]
  else [c]

def escapeBody : List Nat → List Nat
  | [] => []
  | c :: cs => escapeChar c ++ escapeBody cs

def escapeStr (s : List Nat) : List Nat := 34 :: (escapeBody s ++ [34])

def hexVal (c : Nat) : Option Nat :=
  if 48 ≤ c ∧ c ≤ 57 then some (c - 48)
  else if 97 ≤ c ∧ c ≤ 102 then some (c - 87)
  else if 65 ≤ c ∧ c ≤ 70 then some (c - 55)
  else none

def hex4 (a b c d : Nat) : Option Nat :=
  match hexVal a, hexVal b, hexVal c, hexVal d with
  | some a, some b, some c, some d => some (((a * 16 + b) * 16 + c) * 16 + d)
  | _, _, _, _ => none

/-- one simple escape letter after a backslash -/
def simpleEscape (e : Nat) : Option Nat :=
  if e = 34 then some 34
  else if e = 92 then some 92
  else if e = 47 then some 47
  else if e = 98 then some 8
  else if e = 102 then some 12
  else if e = 110 then some 10
  else if e = 114 then some 13
  else if e = 116 then some 9
  else none

/-- reads the characters after an opening quote up to the closing quote; returns the decoded string and the
text after the closing quote -/
def readStr : List Nat → List Nat → Option (List Nat × List Nat)
  | [], _ => none
  | c :: rest, acc =>
    if c = 34 then some (acc.reverse, rest)
    else if c = 92 then
      match rest with
      | [] => none
      | e :: rest1 =>
        if e = 117 then
          match rest1 with
          | a :: b :: c :: d :: rest2 =>
            match hex4 a b c d with
            | none => none
            | some u =>
              if 0xD800 ≤ u ∧ u < 0xDC00 then
                match rest2 with
                | 92 :: 117 :: a2 :: b2 :: c2 :: d2 :: rest3 =>
                  match hex4 a2 b2 c2 d2 with
                  | some l =>
                    if 0xDC00 ≤ l ∧ l < 0xE000 then
                      readStr rest3 ((0x10000 + (u - 0xD800) * 1024 + (l - 0xDC00)) :: acc)
                    else none
                  | none => none
                | _ => none
              else if 0xDC00 ≤ u ∧ u < 0xE000 then none
              else readStr rest2 (u :: acc)
          | _ => none
        else
          match simpleEscape e with
          | some v => readStr rest1 (v :: acc)
          | none => none
    else if c < 32 then none
    else readStr rest (c :: acc)

def unescapeStr (t : List Nat) : Option (List Nat) :=
  match t with
  | 34 :: rest =>
    match readStr rest [] with
    | some (s, []) => some s                           -- the closing quote must end the text
    | _ => none
  | _ => none

/-! ### JSON values and the serialiser of include.rs (`serialize`, :1074-1090)
A number carries the text `to_str` produced for it (float formatting is outside the model). -/

inductive J where
  | num (tok : List Nat)
  | bool (b : Bool)
  | str (s : List Nat)
  | null
  | arr (items : List J)
  | obj (fields : List (List Nat × J))

def joinWith (sep : List Nat) : List (List Nat) → List Nat
  | [] => []
  | [x] => x
  | x :: y :: rest => x ++ sep ++ joinWith sep (y :: rest)

mutual
  /-- the chain `a?:number … || a?:bool … || a?:string … || a?:null … || a?:array … || serialize_object(a!:object)` -/
  def ser : J → List Nat
    | .num tok => tok
    | .bool b => if b then [116, 114, 117, 101] else [102, 97, 108, 115, 101]
    | .str s => escapeStr s
    | .null => [110, 117, 108, 108]
    | .arr items => [91] ++ joinWith [44] (serList items) ++ [93]
    | .obj fields => [123] ++ joinWith [44] (serFields fields) ++ [125]
  def serList : List J → List (List Nat)
    | [] => []
    | x :: xs => ser x :: serList xs
  def serFields : List (List Nat × J) → List (List Nat)
    | [] => []
    | (k, v) :: rest => (escapeStr k ++ [58] ++ ser v) :: serFields rest
end


/-! ### the reader: a recursive-descent JSON parser (compact text, as `serialize` writes it; numbers are kept as
their text) -/

def isNumChar (c : Nat) : Bool :=
  (decide (48 ≤ c) && decide (c ≤ 57)) || decide (c = 43) || decide (c = 45) || decide (c = 46) || decide (c = 101) || decide (c = 69)

def spanNum : List Nat → List Nat × List Nat
  | [] => ([], [])
  | c :: cs => if isNumChar c then ((c :: (spanNum cs).1), (spanNum cs).2) else ([], c :: cs)

mutual
  def parseVal : Nat → List Nat → Option (J × List Nat)
    | 0, _ => none
    | fuel + 1, t =>
      match t with
      | [] => none
      | c :: rest =>
        if c = 34 then
          match readStr rest [] with
          | some (s, r) => some (J.str s, r)
          | none => none
        else if c = 91 then
          match rest with
          | 93 :: r => some (J.arr [], r)
          | _ =>
            match parseItems fuel rest with
            | some (xs, r) => some (J.arr xs, r)
            | none => none
        else if c = 123 then
          match rest with
          | 125 :: r => some (J.obj [], r)
          | _ =>
            match parseFields fuel rest with
            | some (xs, r) => some (J.obj xs, r)
            | none => none
        else if c = 116 then
          match rest with
          | 114 :: 117 :: 101 :: r => some (J.bool true, r)
          | _ => none
        else if c = 102 then
          match rest with
          | 97 :: 108 :: 115 :: 101 :: r => some (J.bool false, r)
          | _ => none
        else if c = 110 then
          match rest with
          | 117 :: 108 :: 108 :: r => some (J.null, r)
          | _ => none
        else
          if (spanNum t).1 = [] then none else some (J.num (spanNum t).1, (spanNum t).2)
  /-- one or more values separated by `,`, up to and including the closing `]` -/
  def parseItems : Nat → List Nat → Option (List J × List Nat)
    | 0, _ => none
    | fuel + 1, t =>
      match parseVal fuel t with
      | none => none
      | some (x, r) =>
        match r with
        | 44 :: r2 =>
          match parseItems fuel r2 with
          | some (xs, r3) => some (x :: xs, r3)
          | none => none
        | 93 :: r2 => some ([x], r2)
        | _ => none
  /-- one or more `"key":value` separated by `,`, up to and including the closing `}` -/
  def parseFields : Nat → List Nat → Option (List (List Nat × J) × List Nat)
    | 0, _ => none
    | fuel + 1, t =>
      match t with
      | 34 :: t1 =>
        match readStr t1 [] with
        | some (k, 58 :: t2) =>
          match parseVal fuel t2 with
          | none => none
          | some (x, r) =>
            match r with
            | 44 :: r2 =>
              match parseFields fuel r2 with
              | some (xs, r3) => some ((k, x) :: xs, r3)
              | none => none
            | 125 :: r2 => some ([(k, x)], r2)
            | _ => none
        | _ => none
      | _ => none
end

/-- a whole document: one value and nothing after it -/
def parseJson (t : List Nat) : Option J :=
  match parseVal (t.length + 1) t with
  | some (j, []) => some j
  | _ => none



end XrayModel.Conv
