/-
Model of `src/util/lazy_bigint.rs` (`LazyBigint`), arm for arm.

`LB.short v` is `LazyBigint::Short(v as i64)`, `LB.long v` is `LazyBigint::Long(BigInt)`.
`num-bigint`'s `BigInt` *is* mathematical `Int` here (trusted, see DESIGN.md §3).
The dev profile is modelled: an `i64` overflow, a failed `debug_assert!`, a failed `unwrap()`
is a panic, represented as `Except.error <label>`.
-/
namespace XrayModel

def I64_MIN : Int := -9223372036854775808
def I64_MAX : Int := 9223372036854775807
def U64_MOD : Int := 18446744073709551616
def U32_MAX : Int := 4294967295

/-- `i64::try_from(v).is_ok()` -/
def fits (v : Int) : Bool := decide (I64_MIN ≤ v) && decide (v ≤ I64_MAX)

inductive LB where
  | short (v : Int)
  | long (v : Int)
  deriving Repr, DecidableEq, Inhabited

namespace LB

/-- the integer a representation denotes -/
def den : LB → Int
  | short v => v
  | long v => v

/-- canonical-form invariant (`lazy_bigint.rs:16-20`): small values are `Short`, and only they -/
def wf : LB → Prop
  | short v => fits v = true
  | long v => fits v = false

instance : (a : LB) → Decidable a.wf
  | short v => inferInstanceAs (Decidable (fits v = true))
  | long v => inferInstanceAs (Decidable (fits v = false))

abbrev R := Except String LB

/-- blanket `impl From<T> for LazyBigint` (:133) -/
def ofInt (v : Int) : LB := if fits v then short v else long v

/-- `assert_is_long` (:188): `debug_assert!` that the value does not fit an `i64` -/
def assertLong (v : Int) : R :=
  if fits v then .error "panic:assert_is_long" else .ok (long v)

def isShort0 : LB → Bool
  | short v => v == 0
  | _ => false

/-- `impl Add for &LazyBigint` (:265) -/
def add (a b : LB) : R :=
  if isShort0 a then .ok b
  else if isShort0 b then .ok a
  else match a, b with
    | short s1, short s2 => if fits (s1 + s2) then .ok (short (s1 + s2)) else assertLong (s1 + s2)
    | short s, long b => .ok (ofInt (b + s))
    | long b, short s => .ok (ofInt (b + s))
    | long b0, long b1 => .ok (ofInt (b0 + b1))

/-- `impl Sub for &LazyBigint` (:326) -/
def sub (a b : LB) : R :=
  if isShort0 b then .ok a
  else match a, b with
    | short s1, short s2 => if fits (s1 - s2) then .ok (short (s1 - s2)) else assertLong (s1 - s2)
    | short s, long b => .ok (ofInt (s - b))
    | long b, short s => .ok (ofInt (b - s))
    | long b0, long b1 => .ok (ofInt (b0 - b1))

/-- `impl Mul for &LazyBigint` (:201) -/
def mul (a b : LB) : R :=
  if isShort0 a || isShort0 b then .ok (short 0)
  else match a, b with
    | short s1, short s2 => if fits (s1 * s2) then .ok (short (s1 * s2)) else assertLong (s1 * s2)
    | short s, long b => .ok (ofInt (b * s))
    | long b, short s => .ok (ofInt (b * s))
    | long b0, long b1 => assertLong (b0 * b1)

/-- `impl Neg` (:176) -/
def neg : LB → R
  | short s => if s = -9223372036854775808 then assertLong 9223372036854775808 else .ok (short (-s))
  | long b => .ok (ofInt (-b))

/-- `impl MulAssign<&Self>` (:225); `self == rhs` is the derived structural equality -/
def mulAssign (self rhs : LB) : R :=
  if rhs = short 1 then .ok self
  else match self, rhs with
    | short s0, short s1 => if fits (s0 * s1) then .ok (short (s0 * s1)) else mul self rhs
    | long b0, long b1 => .ok (long (b0 * b1))
    | _, _ => mul self rhs

/-- `impl AddAssign<&Self>` (:285) -/
def addAssign (self rhs : LB) : R :=
  if rhs = short 0 then .ok self
  else match self, rhs with
    | short s0, short s1 => if fits (s0 + s1) then .ok (short (s0 + s1)) else add self rhs
    | _, _ => add self rhs

def isShortPM1 : LB → Bool
  | short v => v == 1 || v == -1
  | _ => false

/-- `impl Rem` (:345 and :361, identical): truncated remainder -/
def rem (a b : LB) : R :=
  if isShort0 b then .error "panic:modulo by 0"
  else if isShort0 a then .ok (short 0)
  else if isShortPM1 b then .ok (short 0)
  else match a, b with
    | short s1, short s2 => .ok (short (Int.tmod s1 s2))
    | long b, short s => .ok (ofInt (Int.tmod b s))
    | short s, long b => .ok (ofInt (Int.tmod s b))
    | long b0, long b1 => .ok (ofInt (Int.tmod b0 b1))

/-- `impl Div` (:377): truncated division; `x / 0` panics in Rust and in `num-bigint` -/
def div (a b : LB) : R :=
  match a, b with
  | short s1, short s2 =>
      if s2 = -1 then neg (short s1)
      else if s2 = 0 then .error "panic:divide by zero"
      else .ok (short (Int.tdiv s1 s2))
  | short s, long b => .ok (ofInt (Int.tdiv s b))
  | long b, short s => if s = 0 then .error "panic:divide by zero" else .ok (ofInt (Int.tdiv b s))
  | long b0, long b1 => .ok (ofInt (Int.tdiv b0 b1))

/-- `div_floor` (:36) -/
def divFloor (a b : LB) : R :=
  match a, b with
  | short s1, short s2 =>
      if s2 = -1 then neg (short s1)
      else if s2 = 0 then .error "panic:divide by zero"
      else .ok (short (Int.fdiv s1 s2))
  | short s, long b => .ok (ofInt (Int.fdiv s b))
  | long b, short s => if s = 0 then .error "panic:divide by zero" else .ok (ofInt (Int.fdiv b s))
  | long b0, long b1 => .ok (ofInt (Int.fdiv b0 b1))

/-- ceiling division on `Int` (num_integer::div_ceil) -/
def cdiv (a b : Int) : Int := -(Int.fdiv (-a) b)

/-- `div_ceil` (:45) -/
def divCeil (a b : LB) : R :=
  match a, b with
  | short s1, short s2 =>
      if s2 = -1 then neg (short s1)
      else if s2 = 0 then .error "panic:divide by zero"
      else .ok (short (cdiv s1 s2))
  | short s, long b => .ok (ofInt (cdiv s b))
  | long b, short s => if s = 0 then .error "panic:divide by zero" else .ok (ofInt (cdiv b s))
  | long b0, long b1 => .ok (ofInt (cdiv b0 b1))

/-- `b ^ e`, computable also for astronomically large `e` when the base is 0, 1 or -1
(`ipow_eq` in XrayProofs: `ipow b e = b ^ e`) -/
def ipow (b : Int) (e : Nat) : Int :=
  if b = 0 then (if e = 0 then 1 else 0)
  else if b = 1 then 1
  else if b = -1 then (if e % 2 = 0 then 1 else -1)
  else b ^ e

/-- `impl Pow<Self>` (:450). `BigUint::try_from(negative).unwrap()` panics. -/
def pow (a b : LB) : R :=
  match a, b with
  | short s1, short s2 =>
      if 0 ≤ s2 ∧ s2 ≤ U32_MAX ∧ fits (ipow s1 s2.toNat) then .ok (short (ipow s1 s2.toNat))
      else if s2 < 0 then .error "panic:unwrap"
      else .ok (ofInt (ipow s1 s2.toNat))
  | short s, long b => if b < 0 then .error "panic:unwrap" else .ok (ofInt (ipow s b.toNat))
  | long b, short s => if s < 0 then .error "panic:unwrap" else .ok (ofInt (ipow b s.toNat))
  | long b0, long b1 => if b1 < 0 then .error "panic:unwrap" else .ok (long (ipow b0 b1.toNat))

/-- `Signed::abs` (:477) -/
def abs : LB → R
  | short a => if a = -9223372036854775808 then .ok (long 9223372036854775808) else .ok (short a.natAbs)
  | long a => assertLong a.natAbs

/-- `Signed::signum` -/
def signum : LB → LB
  | short a => short a.sign
  | long a => short a.sign

def isZero : LB → Bool
  | short v => v == 0
  | _ => false

def isOne : LB → Bool
  | short v => v == 1
  | _ => false

def isPositive (a : LB) : Bool := decide (0 < a.den)
def isNegative (a : LB) : Bool := decide (a.den < 0)

/-- `impl Ord` (:560) -/
def cmp : LB → LB → Ordering
  | short s0, short s1 => compare s0 s1
  | long b0, long b1 => compare b0 b1
  | short _, long b => if 0 < b then .lt else .gt
  | long b, short _ => if 0 < b then .gt else .lt

/-- derived `PartialEq` -/
def beq (a b : LB) : Bool := decide (a = b)

/-- `ToPrimitive::to_u64` -/
def toU64 : LB → Option Int
  | short s => if 0 ≤ s then some s else none
  | long b => if 0 ≤ b ∧ b < U64_MOD then some b else none

def toI64 : LB → Option Int
  | short s => some s
  | long b => if fits b then some b else none

/-- `first_u64_digit` (:54): `*s as u64` resp. the lowest 64-bit digit of the magnitude -/
def firstU64Digit : LB → LB
  | short s => ofInt (if 0 ≤ s then s else s + U64_MOD)
  | long b => ofInt (Int.emod b.natAbs U64_MOD)

def natBits : Nat → Nat
  | 0 => 0
  | n + 1 => Nat.log2 (n + 1) + 1

/-- `bits` (:62) -/
def bits : LB → Nat
  | short _ => 64
  | long b => natBits b.natAbs

/-- `ProspectiveSize::prospective_size` -/
def prospectiveSize (a : LB) : Nat := a.bits / 8

/-! ### bitwise operations (two's complement on `Int`; `num-bigint`'s `BitAnd`/`BitOr`/`BitXor` for `BigInt` and Rust's
`&`, `|`, `^` on `i64` both are two's-complement operations).  `Int.negSucc n` = `-(n+1)` = `~n`. -/

/-- two's-complement AND -/
def iland : Int → Int → Int
  | .ofNat m, .ofNat n => Int.ofNat (m &&& n)
  | .ofNat m, .negSucc n => Int.ofNat (m ^^^ (m &&& n))
  | .negSucc m, .ofNat n => Int.ofNat (n ^^^ (n &&& m))
  | .negSucc m, .negSucc n => .negSucc (m ||| n)

/-- two's-complement OR -/
def ilor : Int → Int → Int
  | .ofNat m, .ofNat n => Int.ofNat (m ||| n)
  | .ofNat m, .negSucc n => .negSucc (n ^^^ (n &&& m))
  | .negSucc m, .ofNat n => .negSucc (m ^^^ (m &&& n))
  | .negSucc m, .negSucc n => .negSucc (m &&& n)

/-- two's-complement XOR -/
def ilxor : Int → Int → Int
  | .ofNat m, .ofNat n => Int.ofNat (m ^^^ n)
  | .ofNat m, .negSucc n => .negSucc (m ^^^ n)
  | .negSucc m, .ofNat n => .negSucc (m ^^^ n)
  | .negSucc m, .negSucc n => Int.ofNat (m ^^^ n)

/-- `impl BitAnd` (:388) -/
def bitand (a b : LB) : LB :=
  match a, b with
  | short s1, short s2 => short (iland s1 s2)
  | short s, long b => ofInt (iland b s)
  | long b, short s => ofInt (iland b s)
  | long b0, long b1 => ofInt (iland b0 b1)

/-- `impl BitOr` (:402) -/
def bitor (a b : LB) : LB :=
  match a, b with
  | short s1, short s2 => short (ilor s1 s2)
  | short s, long b => ofInt (ilor b s)
  | long b, short s => ofInt (ilor b s)
  | long b0, long b1 => ofInt (ilor b0 b1)

/-- `impl BitXor` (:416) -/
def bitxor (a b : LB) : LB :=
  match a, b with
  | short s1, short s2 => short (ilxor s1 s2)
  | short s, long b => ofInt (ilxor b s)
  | long b, short s => ofInt (ilxor b s)
  | long b0, long b1 => ofInt (ilxor b0 b1)

end LB
end XrayModel
