/-
C13 — model of the float-construction discipline.

Lean's `Float` is opaque to the kernel, so nothing here mentions a float *value*: the float domain is an abstract
structure `FloatDom` (a carrier `F`, the predicate `fin`, negation, the reading of a `serde_json` number) whose two
closure laws are *parameters* of the theorems (listed in the trusted base).  The driver instantiates it with Lean's
`Float` (IEEE binary64) so that programs can be run through the model.

* `FSite`/`Tag`: one row of the table `Generated/FloatSites.lean` that `/verif/translate/float_sites.py` regenerates from
  the sources on every run: every expression of the crate that builds an `XValue::Float` — inside the checked
  constructor `XValue::float` itself (`guarded`, `xvalue.rs:141-150`), in a form that is closed under finiteness
  (`closed h`: `-a` of a float read from an existing value; a `serde_json` number), or anything else (`unguarded`).
* `mk` mirrors the checked constructor: a finite float becomes a value, anything else an error value.
* `eval`: native code computes a raw `f64` from floats *read out of existing values* (or from outside: literal text,
  libm, statrs, the clock) and turns it into a value **at a site of the table**; what happens there is decided by the
  site's tag.  Compound values carry floats around unchanged.
-/
namespace XrayModel.FloatSites

/-- why a direct construction is harmless -/
inductive Hyp
  | negFin          -- `-a` for a float `a` read from an existing value
  | jsonNumberFin   -- `n.as_f64().unwrap()` of a `serde_json::Number`
  | idFin           -- a float read from an existing value, unchanged
deriving DecidableEq, Repr

inductive Tag
  | guarded
  | closed (h : Hyp)
  | unguarded
deriving DecidableEq, Repr

structure FSite where
  file : String
  line : Nat
  fn : String
  expr : String
  tag : Tag
deriving DecidableEq, Repr

def siteOk (s : FSite) : Bool :=
  match s.tag with
  | .unguarded => false
  | _ => true

def sitesOk (T : List FSite) : Bool := T.all siteOk

/-- the abstract float domain -/
structure FloatDom where
  F : Type
  J : Type                       -- serde_json numbers
  isFin : F → Bool
  neg : F → F
  ofJson : J → F

/-- the two closure hypotheses (parameters of the theorems, part of the trusted base) -/
structure FloatDom.Laws (D : FloatDom) : Prop where
  neg_fin : ∀ x, D.isFin x = true → D.isFin (D.neg x) = true
  json_fin : ∀ n, D.isFin (D.ofJson n) = true

/-- runtime values as far as floats are concerned -/
inductive V (F : Type)
  | flt (x : F)
  | err                          -- an error value
  | other                        -- a value without floats
  | pair (a b : V F)             -- tuples, sequences, structs, optionals …: containers of values
  | stuck                        -- the model refuses (site index not in the table / site used with another operation)

/-- `XValue::float` (`xvalue.rs:141-150`) -/
def mk (D : FloatDom) (x : D.F) : V D.F :=
  if D.isFin x then .flt x else .err

/-- what native code does with floats it has read -/
inductive Op (D : FloatDom)
  | fn1 (g : D.F → D.F)                 -- any unary native computation (libm, statrs, conversion …)
  | fn2 (g : D.F → D.F → D.F)           -- any binary native computation (+ - * / pow atan2 …)
  | neg                                 -- `-a`
  | ident                               -- the float itself

inductive FExpr (D : FloatDom)
  | ext (s : Nat) (x : D.F)                       -- a raw float from outside the value world (literal text, a parsed string,
                                                  --   an int conversion, statrs, the clock), made a value at site `s`
  | json (s : Nat) (n : D.J)                      -- a JSON number made a value at site `s`
  | un (s : Nat) (op : Op D) (a : FExpr D)        -- read the float of `a`, compute, construct at site `s`
  | bin (s : Nat) (op : Op D) (a b : FExpr D)
  | pair (a b : FExpr D)
  | fst (a : FExpr D)
  | snd (a : FExpr D)
  | nonfloat

/-- construction of a value from the raw float `x` at site `s`, where `h?` says which closed form the code at the
    call has (`none`: an arbitrary computation) -/
def construct (D : FloatDom) (T : List FSite) (s : Nat) (h? : Option Hyp) (x : D.F) : V D.F :=
  match T[s]? with
  | none => .stuck
  | some site =>
    match site.tag with
    | .guarded => mk D x
    | .unguarded => .flt x
    | .closed h => if h? = some h then .flt x else .stuck

def hypOf {D : FloatDom} : Op D → Option Hyp
  | .neg => some .negFin
  | .ident => some .idFin
  | _ => none

def apply1 {D : FloatDom} : Op D → D.F → Option D.F
  | .fn1 g, x => some (g x)
  | .neg, x => some (D.neg x)
  | .ident, x => some x
  | .fn2 _, _ => none

def apply2 {D : FloatDom} : Op D → D.F → D.F → Option D.F
  | .fn2 g, x, y => some (g x y)
  | _, _, _ => none

def eval (D : FloatDom) (T : List FSite) : FExpr D → V D.F
  | .ext s x => construct D T s none x
  | .json s n => construct D T s (some .jsonNumberFin) (D.ofJson n)
  | .un s op a =>
    match eval D T a with
    | .flt x =>
      match apply1 op x with
      | some y => construct D T s (hypOf op) y
      | none => .stuck
    | .err => .err                      -- `xraise!`: an error argument is returned as it is
    | .stuck => .stuck
    | _ => .stuck                       -- not a float: excluded by the type checker
  | .bin s op a b =>
    match eval D T a, eval D T b with
    | .flt x, .flt y =>
      match apply2 op x y with
      | some z => construct D T s none z
      | none => .stuck
    | .err, _ => .err
    | .flt _, .err => .err
    | _, _ => .stuck
  | .pair a b => .pair (eval D T a) (eval D T b)
  | .fst a =>
    match eval D T a with
    | .pair x _ => x
    | .err => .err
    | _ => .stuck
  | .snd a =>
    match eval D T a with
    | .pair _ y => y
    | .err => .err
    | _ => .stuck
  | .nonfloat => .other

/-- every float inside a value is finite -/
def AllFin (D : FloatDom) : V D.F → Prop
  | .flt x => D.isFin x = true
  | .pair a b => AllFin D a ∧ AllFin D b
  | _ => True

end XrayModel.FloatSites
