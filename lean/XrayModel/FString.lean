/-
Model of `src/util/fenced_string.rs` (`FencedString { buffer: String, char_starts: Vec<usize> }`) and of the
index handling of the string builtins in `src/builtin/str.rs` (`get`, `find`, `rfind`, `substring`).

A Rust `String` is a valid UTF-8 byte buffer, i.e. a sequence of Unicode scalar values; the model keeps the
sequence of scalar values (`List Char`; Lean's `Char` is exactly a Unicode scalar value) and computes every
*byte* offset the Rust code handles from `Char.utf8Size` (1–4).  Rust's byte-range slicing `&s[a..b]`
panics unless `a ≤ b ≤ s.len()` and both ends are character boundaries: `slice` returns `none` exactly then.
The char-start table is kept literally, as the list of byte offsets the Rust code stores.

Every Rust panic (slice out of range / not on a char boundary, `Vec` index out of range, `usize` underflow
in the dev profile) is an explicit `.panic`; an xray error value is `.err`.
-/
namespace XrayModel
namespace FStr

/-- outcome of an operation: a value, an xray error value, or a Rust panic -/
inductive Res (α : Type) where
  | ok (v : α)
  | err (msg : String)
  | panic (why : String)
  deriving Repr, DecidableEq

def Res.bind {α β} (r : Res α) (f : α → Res β) : Res β :=
  match r with
  | .ok v => f v
  | .err m => .err m
  | .panic w => .panic w

def Res.map {α β} (f : α → β) (r : Res α) : Res β := r.bind (fun v => .ok (f v))

/-! ### Rust `str` primitives over a sequence of scalar values -/

/-- `s.len()`: length in bytes of the UTF-8 encoding -/
def byteLen : List Char → Nat
  | [] => 0
  | c :: cs => c.utf8Size + byteLen cs

/-- byte offsets yielded by `s.char_indices()`, the first character being at offset `off` -/
def charStartsFrom (off : Nat) : List Char → List Nat
  | [] => []
  | c :: cs => off :: charStartsFrom (off + c.utf8Size) cs

/-- `&s[n..]` (`none` = panic: `n` past the end or inside a character) -/
def dropBytes : List Char → Nat → Option (List Char)
  | cs, 0 => some cs
  | [], _ + 1 => none
  | c :: cs, n + 1 => if c.utf8Size ≤ n + 1 then dropBytes cs (n + 1 - c.utf8Size) else none

/-- `&s[..n]` (`none` = panic) -/
def takeBytes : List Char → Nat → Option (List Char)
  | _, 0 => some []
  | [], _ + 1 => none
  | c :: cs, n + 1 =>
    if c.utf8Size ≤ n + 1 then (takeBytes cs (n + 1 - c.utf8Size)).map (c :: ·) else none

/-- `&s[a..b]` -/
def slice (cs : List Char) (a b : Nat) : Option (List Char) :=
  if a ≤ b then (dropBytes cs a).bind (fun r => takeBytes r (b - a)) else none

/-- `&s[a..]` -/
def sliceFrom (cs : List Char) (a : Nat) : Option (List Char) := dropBytes cs a

/-- `hay.find(needle)`: byte offset of the first occurrence (an occurrence of valid UTF-8 in valid UTF-8
always starts on a character boundary) -/
def strFind : List Char → List Char → Option Nat
  | [], n => if n.isEmpty then some 0 else none
  | c :: cs, n => if n.isPrefixOf (c :: cs) then some 0 else (strFind cs n).map (· + c.utf8Size)

/-- `hay.rfind(needle)`: byte offset of the last occurrence -/
def strRFind : List Char → List Char → Option Nat
  | [], n => if n.isEmpty then some 0 else none
  | c :: cs, n =>
    match strRFind cs n with
    | some b => some (b + c.utf8Size)
    | none => if n.isPrefixOf (c :: cs) then some 0 else none

/-- UTF-8 encoding of one scalar value (used by the driver to show the byte buffer) -/
def encodeChar (c : Char) : List Nat :=
  let v := c.toNat
  if v ≤ 0x7f then [v]
  else if v ≤ 0x7ff then [0xc0 + v / 64, 0x80 + v % 64]
  else if v ≤ 0xffff then [0xe0 + v / 4096, 0x80 + v / 64 % 64, 0x80 + v % 64]
  else [0xf0 + v / 262144, 0x80 + v / 4096 % 64, 0x80 + v / 64 % 64, 0x80 + v % 64]

def encode (cs : List Char) : List Nat := cs.flatMap encodeChar

/-! ### `FencedString` -/

structure FS where
  buf : List Char
  /-- `char_starts`: empty for a pure-ASCII buffer, else the byte offset of every character -/
  starts : List Nat
  deriving Repr, DecidableEq

namespace FS

def empty : FS := ⟨[], []⟩

/-- is there an adjacent pair `a, b` with `a + 1 < b` (the loop of `from_string`, :24-29) -/
def hasGap : List Nat → Bool
  | a :: b :: rest => decide (a + 1 < b) || hasGap (b :: rest)
  | _ => false

/-- `FencedString::from_string` (:16-41) -/
def fromString (cs : List Char) : FS :=
  match charStartsFrom 0 cs with
  | [] => empty
  | st =>
    let notAscii := hasGap st ||
      (match st.getLast? with
       | some l => decide (l + 1 < byteLen cs)
       | none => false)
    ⟨cs, if notAscii then st else []⟩

/-- `len` (:96-102) -/
def len (s : FS) : Nat := if s.starts.isEmpty then byteLen s.buf else s.starts.length

def bytes (s : FS) : Nat := byteLen s.buf

def optSlice (r : Option (List Char)) (why : String) : Res (List Char) :=
  match r with
  | some v => .ok v
  | none => .panic why

/-- `xs.iter().map(|i| i - base)` with the dev-profile underflow check -/
def rebase (base : Nat) : List Nat → Res (List Nat)
  | [] => .ok []
  | x :: xs => if x < base then .panic "attempt to subtract with overflow"
               else (rebase base xs).bind (fun r => .ok ((x - base) :: r))

/-- `&v[a..b]` on a `Vec` -/
def vecSlice (v : List Nat) (a b : Nat) : Res (List Nat) :=
  if a ≤ b ∧ b ≤ v.length then .ok ((v.drop a).take (b - a)) else .panic "slice index out of range"

/-- the byte-slicing part shared by `substring` and `substr` (ASCII branch, :48-55 / :80-84) -/
def asciiSub (s : FS) (start : Nat) (end_ : Option Nat) : Res (List Char) :=
  match end_ with
  | some e => if e < s.len then optSlice (slice s.buf start e) "byte slice" else optSlice (sliceFrom s.buf start) "byte slice"
  | none => optSlice (sliceFrom s.buf start) "byte slice"

/-- `start_byte` of the non-ASCII branch (after the repair: `start == len` is the empty suffix) -/
def startByte (s : FS) (start : Nat) : Res Nat :=
  if start = s.starts.length then .ok (byteLen s.buf)
  else match s.starts[start]? with
    | some b => .ok b
    | none => .panic "index out of bounds"

/-- `substring` (:47-77) -/
def substring (s : FS) (start : Nat) (end_ : Option Nat) : Res FS :=
  if s.starts.isEmpty then
    (asciiSub s start end_).bind (fun b => .ok ⟨b, []⟩)
  else
    (startByte s start).bind fun sb =>
    match end_.bind (fun e => s.starts[e]?) with
    | some eb =>
      (optSlice (slice s.buf sb eb) "byte slice").bind fun b =>
      (vecSlice s.starts start (end_.getD 0)).bind fun st =>
      (rebase sb st).bind fun st' => .ok ⟨b, st'⟩
    | none =>
      (optSlice (sliceFrom s.buf sb) "byte slice").bind fun b =>
      (vecSlice s.starts start s.starts.length).bind fun st =>
      (rebase sb st).bind fun st' => .ok ⟨b, st'⟩

/-- `substr` (:79-94): the same slice as a borrowed `&str` -/
def substr (s : FS) (start : Nat) (end_ : Option Nat) : Res (List Char) :=
  if s.starts.isEmpty then asciiSub s start end_
  else
    (startByte s start).bind fun sb =>
    match end_.bind (fun e => s.starts[e]?) with
    | some eb => optSlice (slice s.buf sb eb) "byte slice"
    | none => optSlice (sliceFrom s.buf sb) "byte slice"

/-- `push` (:124-141) -/
def push (s other : FS) : FS :=
  let offset := byteLen s.buf
  let buf := s.buf ++ other.buf
  if s.starts.isEmpty && other.starts.isEmpty then ⟨buf, []⟩
  else
    let ext := if other.starts.isEmpty then (List.range (byteLen other.buf)).map (· + offset)
               else other.starts.map (· + offset)
    if s.starts.isEmpty then ⟨buf, List.range offset ++ ext⟩ else ⟨buf, s.starts ++ ext⟩

/-- `push_ascii` (:143-150); `other` is promised to be ASCII by the callers -/
def pushAscii (s : FS) (other : List Char) : FS :=
  let offset := byteLen s.buf
  let buf := s.buf ++ other
  if s.starts.isEmpty then ⟨buf, []⟩
  else ⟨buf, s.starts ++ (List.range (byteLen other)).map (· + offset)⟩

/-- `&a + &b` (:214-222) -/
def add (a b : FS) : FS := push a b

/-- `to_lowercase` / `to_uppercase` (:157-173, after the repair both rebuild the table).  The Unicode case
tables are data of the Rust standard library: `allCased` is `chars().all(is_lowercase)` (resp. upper) and
`mapped` is `buffer.to_lowercase()` (resp. upper); both are parameters. -/
def caseMap (_s : FS) (allCased : Bool) (mapped : List Char) : Option FS :=
  if allCased then none else some (fromString mapped)

end FS

/-! ### builtins (`src/builtin/str.rs`), integer arguments as mathematical integers -/

/-- `LazyBigint::to_usize` -/
def usizeLimit : Nat := 18446744073709551616   -- 2^64

def toUsize (v : Int) : Option Nat :=
  if v < 0 then none else if v.toNat < usizeLimit then some v.toNat else none

/-- `get` (:124-140) -/
def get (s : FS) (i : Int) : Res FS :=
  let i' := if i < 0 then i + (s.len : Int) else i
  match toUsize i' with
  | none => .err "index too large"
  | some i =>
    if i ≥ s.len then .err "index out of bounds"
    else s.substring i (some (i + 1))

/-- the search of `find` once the start index is a machine index -/
def findFrom (s needle : FS) (st : Nat) : Res (Option Nat) :=
  if st > s.len then .err "index out of bounds"
  else
    (s.substr st none).bind fun hay =>
    match strFind hay needle.buf with
    | none => .ok none
    | some b =>
      (FS.optSlice (slice hay 0 b) "byte slice").bind fun pre => .ok (some (pre.length + st))

/-- `find` (:142-183) -/
def find (s needle : FS) (start : Option Int) : Res (Option Nat) :=
  if needle.buf.isEmpty then .err "needle cannot be empty"
  else
    match (match start with | none => some 0 | some v => toUsize v) with
    | none => .err "index out of bounds"
    | some st => findFrom s needle st

/-- the search of `rfind` once the end index is a machine index (or absent) -/
def rfindTo (s needle : FS) (e : Option Nat) : Res (Option Nat) :=
  (s.substr 0 e).bind fun hay =>
  match strRFind hay needle.buf with
  | none => .ok none
  | some b =>
    (FS.optSlice (slice hay 0 b) "byte slice").bind fun pre => .ok (some pre.length)

/-- `rfind` (:185-222) -/
def rfind (s needle : FS) (end_ : Option Int) : Res (Option Nat) :=
  if needle.buf.isEmpty then .err "needle cannot be empty"
  else
    match (match end_ with | none => some none | some v => (toUsize v).map some) with
    | none => .err "index out of bounds"
    | some e => rfindTo s needle e

/-- native `substring(x, start, end)` (:224-249); `same` = the argument itself is returned -/
def substring (s : FS) (a b : Int) : Res FS :=
  match toUsize a with
  | none => .err "index out of bounds"
  | some start =>
    let rawEnd := if b < 0 then b + (s.len : Int) else b
    match toUsize rawEnd with
    | none => .err "index out of bounds"
    | some e =>
      if e < start ∨ start > s.len then .err "index out of bounds"
      else if start = 0 ∧ e = s.len then .ok s
      else s.substring start (some e)

end FStr
end XrayModel
