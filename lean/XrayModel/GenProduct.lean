/-
Model of the `Product` arm of `XGenerator::_iter` (`generators.rs`, the odometer over the part generators), kept
apart from `XrayModel/Gen.lean`: the parts are generator values of that model, their iterators are stepped with
its `next` (a part's Rust `next()`), and one `pnext` is one Rust `next()` of the product.

State: the part generators (`inners`), their current iterators (`iters`), the tuple yielded last (`current`).
-/
import XrayModel.Gen
namespace XrayModel.Gen

structure PState where
  parts : List G
  iters : List It
  current : Option (List V)

inductive PRes where
  | outOfFuel
  | panic              -- `iters[idx].next().unwrap()` on a part that came back empty
  | done
  | item (x : Item) (s : PState)

/-- the first round: `iters.iter_mut().map(|i| i.next()).collect::<Option<XResult<Vec<_>>>>()` — stops at the first
part that is finished, violates or yields an error value -/
def pfirsts (L : Option Nat) (fuel : Nat) : List It → List It → List V → (NextR × List It) ⊕ (List It × List V)
  | [], doneIts, acc => .inr (doneIts.reverse, acc.reverse)
  | it :: rest, doneIts, acc =>
    match next L fuel it with
    | .item (.val v) s => pfirsts L fuel rest (s :: doneIts) (v :: acc)
    | .item x s => .inl (.item x s, doneIts.reverse ++ s :: rest)
    | r => .inl (r, doneIts.reverse ++ it :: rest)

/-- the carry loop `for idx_to_bump in (0..current.len()).rev()`, `k` = number of positions still to visit
(position `k - 1` is visited next).  Answers the new state and whether a part advanced, or an early return. -/
def pbump (L : Option Nat) (fuel : Nat) (parts : List G) : Nat → List It → List V → PRes ⊕ (List It × List V × Bool)
  | 0, iters, cur => .inr (iters, cur, false)
  | k + 1, iters, cur =>
    match iters[k]?, parts[k]? with
    | some it, some g =>
      match next L fuel it with
      | .outOfFuel => .inl .outOfFuel
      | .item (.val v) s => .inr (iters.set k s, cur.set k v, true)
      | .item x s => .inl (.item x ⟨parts, iters.set k s, some cur⟩)
      | .done =>
        -- the part is exhausted: start it over at once and take its first element, then carry on to the left
        match next L fuel (g.start L) with
        | .outOfFuel => .inl .outOfFuel
        | .done => .inl .panic
        | .item (.val v) s => pbump L fuel parts k (iters.set k s) (cur.set k v)
        | .item x s => .inl (.item x ⟨parts, iters.set k s, some cur⟩)
    | _, _ => .inl .panic

/-- one `next()` of the product -/
def pnext (L : Option Nat) (fuel : Nat) (st : PState) : PRes :=
  match st.current with
  | none =>
    match pfirsts L fuel st.iters [] [] with
    | .inr (its, vs) => .item (.val (.tup vs)) ⟨st.parts, its, some vs⟩
    | .inl (.outOfFuel, _) => .outOfFuel
    | .inl (.done, _) => .done
    | .inl (.item x _, its) => .item x ⟨st.parts, its, none⟩
  | some cur =>
    match pbump L fuel st.parts cur.length st.iters cur with
    | .inl r => r
    | .inr (its, cur', true) => .item (.val (.tup cur')) ⟨st.parts, its, some cur'⟩
    | .inr (_, _, false) => .done

def pstart (L : Option Nat) (parts : List G) : PState := ⟨parts, G.startAll L parts, none⟩

/-- the first `n` elements of the product (a value list; `none` when fuel runs out, a part panics, or an element
is not a value) -/
def ptake (L : Option Nat) (fuel : Nat) : Nat → PState → Option (List V)
  | 0, _ => some []
  | n + 1, st =>
    match pnext L fuel st with
    | .done => some []
    | .item (.val v) s => (ptake L fuel n s).map (v :: ·)
    | _ => none

/-- `to_array` of the product through `iter` (a permit per element) -/
def pdrain (L : Option Nat) (fuel : Nat) : Nat → PState → Permits → List V → Res (List V)
  | 0, _, _, _ => .outOfFuel
  | n + 1, st, perm, acc =>
    match pnext L fuel st with
    | .outOfFuel => .outOfFuel
    | .panic => .outOfFuel
    | .done => .ok acc.reverse
    | .item x s =>
      match perm.next with
      | (.none, _) => .ok acc.reverse
      | (.viol, _) => .viol
      | (.ok, perm') =>
        match x with
        | .val v => pdrain L fuel n s perm' (v :: acc)
        | .err => .err
        | .viol => .viol

end XrayModel.Gen
