/-
Model of `src/builtin/generators.rs` (`XGenerator`), adaptor for adaptor.

A generator *value* (`G`) is an immutable description (the Rust enum `XGenerator`); consuming it
creates an iterator (`It`, the state of the Rust iterator returned by `_iter`, :108-455).
Rust's `Iterator::next` of an adaptor may loop internally (`filter_map`, `skip`, `flat_map`,
`flatten`, …).  The model cuts every such loop at each iteration: `step` performs **one** pull of
one source and answers

  * `yield x s`  – `next()` returned `Some(x)`;
  * `skip s`     – one iteration of an internal loop went by without an element (a rejected element
                   of `filter`, a discarded element of `skip`, the switch to the next part of a
                   chain, the restart of `repeat`, an element absorbed by `group`/`windows`);
  * `done`       – `next()` returned `None`.

`next` (the Rust `next()`) is `step` iterated until it does not answer `skip`; it needs fuel, and the
number of consecutive `skip`s is exactly the native work that is not paid for by an element
(property C10).  `step` itself is total and structurally recursive.

Items are `XResult<Rc<ManagedXValue>>`: a value, an error value (`Ok(Err(_))`, errors are values in
xray) or a runtime violation (`Err(_)`).  Functions handed to adaptors are arbitrary (pure) Lean
functions on items, so every theorem holds for every function, erroring or not.

Search permits: `RuntimeLimits::search_iter()` (`runtime.rs:44-55`) yields `L` times `Ok`, then one
`Err(MaximumSearch)`, then ends; without a limit it yields `Ok` for ever.
-/
namespace XrayModel.Gen

/-- first-order runtime values that generator pipelines produce -/
inductive V where
  | int (i : Int)
  | tup (vs : List V)
  | seq (vs : List V)
  deriving Inhabited

/-- one element of a generator's iterator: `Ok(Ok v)`, `Ok(Err _)`, `Err(violation)` -/
inductive Item where
  | val (v : V)
  | err
  | viol
  deriving Inhabited

/-- outcome of a predicate call: `true`, `false`, an error value, a violation -/
inductive PR where
  | t | f | err | viol

abbrev F := Item → Item
abbrev F2 := Item → Item → Item
abbrev P := Item → PR
abbrev P2 := Item → Item → PR

/-- the state of one `search_iter()` -/
inductive Permits where
  | unlimited
  | left (n : Nat)
  | dead
  deriving Repr, DecidableEq

inductive Tick where
  | ok | viol | none
  deriving Repr, DecidableEq

namespace Permits
/-- `RuntimeLimits::search_iter` (`runtime.rs:44`) -/
def ofLimit : Option Nat → Permits
  | Option.none => unlimited
  | some n => left n

/-- `next()` of the permit iterator -/
def next : Permits → Tick × Permits
  | unlimited => (.ok, unlimited)
  | left (n + 1) => (.ok, left n)
  | left 0 => (.viol, dead)
  | dead => (.none, dead)
end Permits

/-- `XGenerator` (:62-94).  `FromSequence` is split by the kind of sequence it holds (an array, or the
infinite `count()` possibly under a sequence-level `map`, which is how `count(start, step)` is
written in `include.rs:103`); `FromSet`/`FromMapping` are arrays of the entries here. -/
inductive G where
  | fromArr (xs : List V)
  | fromCount (f : Option F)
  | succUntil (init : Item) (f : Item → Option Item)
  | map (g : G) (f : F)
  | filter (g : G) (p : P)
  | chain (parts : List G)
  | slice (g : G) (start : Nat) (end_ : Option Nat)
  | repeat_ (g : G)
  | takeWhile (g : G) (p : P)
  | skipUntil (g : G) (p : P)
  | aggregate (g : G) (init : Item) (f : F2)
  | withCount (g : G) (eq : V → V → Bool)
  | group (g : G) (eq : P2)
  | windows (g : G) (size : Nat)
  | zip (parts : List G)

/-- state of the iterator `_iter` returns -/
inductive It where
  | arr (xs : List V)
  | count (i : Nat) (f : Option F)
  /-- `iter::successors`: holds the element that will be yielded next -/
  | succ (cur : Option Item) (f : Item → Option Item)
  | map (it : It) (f : F)
  | filter (it : It) (p : P) (perm : Permits)
  /-- `flat_map` over the parts: the part being drained, the parts not yet started -/
  | chain (cur : It) (rest : List G)
  /-- discard `toSkip` elements (a permit each), then yield at most `toTake` -/
  | slice (it : It) (toSkip : Nat) (perm : Permits) (toTake : Option Nat)
  | repeat_ (g : G) (cur : It) (fresh : Bool)
  | takeWhile (it : It) (p : P)
  | skipUntil (it : It) (p : P) (found : Bool) (perm : Permits)
  | aggregate (it : It) (st : Item) (f : F2) (first : Bool)
  | withCount (it : It) (eq : V → V → Bool) (seen : List (V × Nat))
  | group (it : It) (eq : P2) (cur : List V) (perm : Permits) (flushed : Bool)
  | windows (it : It) (size : Nat) (mem : List V) (perm : Permits)
  /-- `Zip`: the iterators still to be pulled in this round (front first), the ones already pulled
  (reversed), the elements collected in this round (reversed), whether an error element was met -/
  | zip (todo : List It) (pulled : List It) (acc : List V) (bad : Bool)
  /-- `iter` (:457): `_iter` zipped with the consumer's search budget -/
  | budget (it : It) (perm : Permits)

inductive Out where
  | yield (x : Item) (s : It)
  | skip (s : It)
  | done

/-- counter of `with_count`: `XMapping::put(k, || 1, |v| v + 1)` read through the abstract
finite-map view (C17): the new count of `v` and the updated table -/
def bump (eq : V → V → Bool) (v : V) : List (V × Nat) → Nat × List (V × Nat)
  | [] => (1, [(v, 1)])
  | (k, n) :: rest =>
    if eq k v then (n + 1, (k, n + 1) :: rest)
    else let r := bump eq v rest; (r.1, (k, n) :: r.2)

mutual
/-- `_iter` (:108): the fresh iterator of a generator value, given the configured search limit -/
def G.start (L : Option Nat) : G → It
  | .fromArr xs => .arr xs
  | .fromCount f => .count 0 f
  | .succUntil init f => .succ (some init) f
  | .map g f => .map (g.start L) f
  | .filter g p => .filter (g.start L) p (Permits.ofLimit L)
  | .chain parts => .chain (.arr []) parts
  | .slice g a b => .slice (g.start L) a (Permits.ofLimit L) (b.map (· - a))
  | .repeat_ g => .repeat_ g (g.start L) true
  | .takeWhile g p => .takeWhile (g.start L) p
  | .skipUntil g p => .skipUntil (g.start L) p false (Permits.ofLimit L)
  | .aggregate g init f => .aggregate (g.start L) init f true
  | .withCount g eq => .withCount (g.start L) eq []
  | .group g eq => .group (g.start L) eq [] (Permits.ofLimit L) false
  | .windows g size => .windows (g.start L) size [] (Permits.ofLimit L)
  | .zip parts => .zip (G.startAll L parts) [] [] false
def G.startAll (L : Option Nat) : List G → List It
  | [] => []
  | g :: gs => g.start L :: G.startAll L gs
end

/-- `iter` (:457-468): what every consumer iterates -/
def G.iter (L : Option Nat) (g : G) : It := .budget (g.start L) (Permits.ofLimit L)

def decTake : Option Nat → Option Nat
  | none => none
  | some n => some (n - 1)

/-- one pull of one source (see the header) -/
def step (L : Option Nat) : It → Out
  | .arr [] => .done
  | .arr (x :: xs) => .yield (.val x) (.arr xs)
  -- `XSequence::iter` of an infinite sequence: `(0..).map(|idx| self.get(idx))` (`sequence.rs:187`)
  | .count i f =>
    let x := Item.val (.int i)
    .yield (match f with | none => x | some f => f x) (.count (i + 1) f)
  -- `iter::successors` (:146): yields the held element and computes its successor at once
  | .succ none _ => .done
  | .succ (some x) f => .yield x (.succ (match x with | .viol => some x | _ => f x) f)
  -- :159
  | .map it f =>
    match step L it with
    | .done => .done
    | .skip s => .skip (.map s f)
    | .yield x s => .yield (match x with | .viol => .viol | x => f x) (.map s f)
  -- :208 `inner.zip(search_iter()).filter_map(..)`
  | .filter it p perm =>
    match step L it with
    | .done => .done
    | .skip s => .skip (.filter s p perm)
    | .yield x s =>
      match perm.next with
      | (.none, _) => .done
      | (.viol, perm') => .yield .viol (.filter s p perm')
      | (.ok, perm') =>
        match x with
        | .viol => .yield .viol (.filter s p perm')
        | x =>
          match p x with
          | .viol => .yield .viol (.filter s p perm')
          | .err => .yield .err (.filter s p perm')
          | .t => .yield x (.filter s p perm')
          | .f => .skip (.filter s p perm')
  -- :193 `arr.iter().flat_map(..)`
  | .chain cur rest =>
    match step L cur with
    | .yield x s => .yield x (.chain s rest)
    | .skip s => .skip (.chain s rest)
    | .done =>
      match rest with
      | [] => .done
      | g :: r => .skip (.chain (g.start L) r)
  -- :200 the permit-taking skip loop, then `take(end - start)`
  | .slice it k perm t =>
    match t with
    | some 0 => .done
    | t =>
      match step L it with
      | .done => .done
      | .skip s => .skip (.slice s k perm t)
      | .yield x s =>
        match k with
        | 0 => .yield x (.slice s 0 perm (decTake t))
        | k' + 1 =>
          match perm.next with
          | (.ok, perm') =>
            match x with
            | .viol => .yield .viol (.slice s k' perm' (decTake t))
            | _ => .skip (.slice s k' perm' t)
          | (_, perm') => .yield .viol (.slice s (k' + 1) perm' (decTake t))
  -- :222 (as `Iterator::cycle`)
  | .repeat_ g cur fresh =>
    match step L cur with
    | .yield x s => .yield x (.repeat_ g s false)
    | .skip s => .skip (.repeat_ g s fresh)
    | .done => if fresh then .done else .skip (.repeat_ g (g.start L) true)
  -- :230 `map_while`
  | .takeWhile it p =>
    match step L it with
    | .done => .done
    | .skip s => .skip (.takeWhile s p)
    | .yield x s =>
      match x with
      | .viol => .yield .viol (.takeWhile s p)
      | x =>
        match p x with
        | .viol => .yield .viol (.takeWhile s p)
        | .err => .yield .err (.takeWhile s p)
        | .t => .yield x (.takeWhile s p)
        | .f => .done
  -- :244
  | .skipUntil it p found perm =>
    match step L it with
    | .done => .done
    | .skip s => .skip (.skipUntil s p found perm)
    | .yield x s =>
      if found then .yield x (.skipUntil s p true perm)
      else
        match perm.next with
        | (.ok, perm') =>
          match x with
          | .viol => .yield .viol (.skipUntil s p false perm')
          | x =>
            match p x with
            | .viol => .yield .viol (.skipUntil s p false perm')
            | .err => .yield .err (.skipUntil s p false perm')
            | .t => .yield x (.skipUntil s p true perm')
            | .f => .skip (.skipUntil s p false perm')
        | (_, perm') => .yield .viol (.skipUntil s p false perm')
  -- :118 `once(initial).chain(inner.scan(..))`
  | .aggregate it st f first =>
    if first then .yield st (.aggregate it st f false)
    else
      match step L it with
      | .done => .done
      | .skip s => .skip (.aggregate s st f false)
      | .yield x s =>
        match x with
        | .viol => .yield .viol (.aggregate s st f false)
        | x =>
          match f st x with
          | .viol => .yield .viol (.aggregate s st f false)
          | r => .yield r (.aggregate s r f false)
  -- :276
  | .withCount it eq seen =>
    match step L it with
    | .done => .done
    | .skip s => .skip (.withCount s eq seen)
    | .yield x s =>
      match x with
      | .viol => .yield .viol (.withCount s eq seen)
      | .err => .yield .err (.withCount s eq seen)
      | .val v =>
        let r := bump eq v seen
        .yield (.val (.tup [v, .int r.1])) (.withCount s eq r.2)
  -- :294 `inner.map(Some).chain(once(None)).zip(search_iter()).filter_map(..)`
  | .group it eq cur perm flushed =>
    if flushed then .done
    else
      match step L it with
      | .skip s => .skip (.group s eq cur perm false)
      | .done =>
        match perm.next with
        | (.none, _) => .done
        | (.viol, perm') => .yield .viol (.group it eq cur perm' true)
        | (.ok, perm') =>
          match cur with
          | [] => .done
          | cur => .yield (.val (.seq cur)) (.group it eq [] perm' true)
      | .yield x s =>
        match perm.next with
        | (.none, _) => .done
        | (.viol, perm') => .yield .viol (.group s eq cur perm' false)
        | (.ok, perm') =>
          match x with
          | .val v =>
            match cur with
            | [] => .skip (.group s eq [v] perm' false)
            | k :: ks =>
              match eq (.val k) (.val v) with
              | .t => .skip (.group s eq (k :: ks ++ [v]) perm' false)
              | .f => .yield (.val (.seq (k :: ks))) (.group s eq [v] perm' false)
              | .err => .yield .err (.group s eq (k :: ks) perm' false)
              | .viol => .yield .viol (.group s eq (k :: ks) perm' false)
          | x => .yield x (.group s eq cur perm' false)
  -- :356
  | .windows it size mem perm =>
    match step L it with
    | .done => .done
    | .skip s => .skip (.windows s size mem perm)
    | .yield x s =>
      match perm.next with
      | (.none, _) => .done
      | (.viol, perm') => .yield .viol (.windows s size mem perm')
      | (.ok, perm') =>
        match x with
        | .val v =>
          let mem' := mem ++ [v]
          if mem'.length == size then .yield (.val (.seq mem')) (.windows s size mem'.tail perm')
          else .skip (.windows s size mem' perm')
        | x => .yield x (.windows s size mem perm')
  -- :170 one round pulls every iterator in turn; it stops at the first that is finished or violates;
  -- an error element makes the round's result that error, the remaining parts are still pulled
  | .zip [] pulled acc bad =>
    .yield (if bad then .err else .val (.tup acc.reverse)) (.zip pulled.reverse [] [] false)
  | .zip (it :: rest) pulled acc bad =>
    match step L it with
    | .done => .done
    | .skip s => .skip (.zip (s :: rest) pulled acc bad)
    | .yield x s =>
      match x with
      | .viol => .yield .viol (.zip (pulled.reverse ++ s :: rest) [] [] false)
      | x =>
        let acc' := match x with | .val v => v :: acc | _ => acc
        let bad' := match x with | .val _ => bad | _ => true
        match rest with
        | [] => .yield (if bad' then .err else .val (.tup acc'.reverse)) (.zip (s :: pulled).reverse [] [] false)
        | rest => .skip (.zip rest (s :: pulled) acc' bad')
  -- :457
  | .budget it perm =>
    match step L it with
    | .done => .done
    | .skip s => .skip (.budget s perm)
    | .yield x s =>
      match perm.next with
      | (.none, _) => .done
      | (.viol, perm') => .yield .viol (.budget s perm')
      | (.ok, perm') => .yield x (.budget s perm')

/-! ### `next()`, observations, consumers -/

inductive NextR where
  | outOfFuel
  | done
  | item (x : Item) (s : It)

/-- Rust's `next()`: iterate `step` through the `skip`s.  `fuel` bounds the number of `skip`s. -/
def next (L : Option Nat) : Nat → It → NextR
  | 0, _ => .outOfFuel
  | n + 1, it =>
    match step L it with
    | .yield x s => .item x s
    | .done => .done
    | .skip s => next L n s

/-- the elements produced by the first `n` steps (a prefix of the stream the iterator denotes) -/
def outs (L : Option Nat) : Nat → It → List Item
  | 0, _ => []
  | n + 1, it =>
    match step L it with
    | .done => []
    | .skip s => outs L n s
    | .yield x s => x :: outs L n s

/-- has the iterator answered `done` within `n` steps? -/
def ended (L : Option Nat) : Nat → It → Bool
  | 0, _ => false
  | n + 1, it =>
    match step L it with
    | .done => true
    | .skip s => ended L n s
    | .yield _ s => ended L n s

/-- result of a consumer -/
inductive Res (α : Type) where
  | ok (a : α)
  | err
  | viol
  | outOfFuel

/-- `to_array` (:968): `for value in gen.iter() { ret.push(xraise!(value?)) }` -/
def drain (L : Option Nat) : Nat → It → List V → Res (List V)
  | 0, _, _ => .outOfFuel
  | n + 1, it, acc =>
    match step L it with
    | .done => .ok acc.reverse
    | .skip s => drain L n s acc
    | .yield (.val v) s => drain L n s (v :: acc)
    | .yield .err _ => .err
    | .yield .viol _ => .viol

def toArray (L : Option Nat) (fuel : Nat) (g : G) : Res (List V) := drain L fuel (g.iter L) []

/-- `len` (:991) -/
def lenLoop (L : Option Nat) : Nat → It → Nat → Res Nat
  | 0, _, _ => .outOfFuel
  | n + 1, it, k =>
    match step L it with
    | .done => .ok k
    | .skip s => lenLoop L n s k
    | .yield (.val _) s => lenLoop L n s (k + 1)
    | .yield .err _ => .err
    | .yield .viol _ => .viol

def len (L : Option Nat) (fuel : Nat) (g : G) : Res Nat := lenLoop L fuel (g.iter L) 0

/-- `last` (:1013): an empty generator is an error value -/
def lastLoop (L : Option Nat) : Nat → It → Option V → Res V
  | 0, _, _ => .outOfFuel
  | n + 1, it, r =>
    match step L it with
    | .done => (match r with | some v => .ok v | none => .err)
    | .skip s => lastLoop L n s r
    | .yield (.val v) s => lastLoop L n s (some v)
    | .yield .err _ => .err
    | .yield .viol _ => .viol

def last (L : Option Nat) (fuel : Nat) (g : G) : Res V := lastLoop L fuel (g.iter L) none

/-- `get` (:684): a negative index is an error before anything is pulled; the element at `idx` is
returned as it is (an error element is the error); running out is an error value -/
def getLoop (L : Option Nat) : Nat → It → Nat → Res V
  | 0, _, _ => .outOfFuel
  | n + 1, it, idx =>
    match step L it with
    | .done => .err
    | .skip s => getLoop L n s idx
    | .yield .viol _ => .viol
    | .yield x s =>
      match idx with
      | 0 => (match x with | .val v => .ok v | _ => .err)
      | i + 1 => getLoop L n s i

def get (L : Option Nat) (fuel : Nat) (g : G) (idx : Int) : Res V :=
  if idx < 0 then .err else getLoop L fuel (g.iter L) idx.toNat

/-! ### construction of generator values -/

/-- `XGenerator::slice` (:492-515): `Err(base)` (reuse the value) when nothing is cut; nested slices
are merged into one with absolute indices -/
def G.mkSlice (base : G) (start : Nat) (end_ : Option Nat) : G :=
  if start == 0 && end_.isNone then base
  else
    match base with
    | .slice inner istart iend =>
      .slice inner (istart + start)
        (match iend, end_.map (· + istart) with
         | none, none => none
         | some a, none => some a
         | none, some b => some b
         | some a, some b => some (min a b))
    | _ => .slice base start end_

/-- `skip` (:851) and `take` (:873) -/
def G.skip (g : G) (n : Nat) : G := g.mkSlice n none
def G.take (g : G) (n : Nat) : G := g.mkSlice 0 (some n)

/-- `XGenerator::chain` (:470-490): the parts of chains are spliced, so parts are never chains -/
def G.mkChain (a b : G) : G :=
  match a, b with
  | .chain p0, .chain p1 => .chain (p0 ++ p1)
  | .chain p0, b => .chain (p0 ++ [b])
  | a, .chain p1 => .chain (a :: p1)
  | a, b => .chain [a, b]


/-- `nth` (:627): the `idx`-th element (from 0) for which the predicate holds, `none` when the generator ends
first; every inspected element comes through `iter`, i.e. takes a permit of the consumer's budget; an error
element or an erroring predicate is the error; a negative index is an error before anything is pulled -/
def nthLoop (L : Option Nat) (p : P) : Nat → It → Nat → Res (Option V)
  | 0, _, _ => .outOfFuel
  | n + 1, it, left =>
    match step L it with
    | .done => .ok none
    | .skip s => nthLoop L p n s left
    | .yield .viol _ => .viol
    | .yield x s =>
      match p x with
      | .viol => .viol
      | .err => .err
      | .f => nthLoop L p n s left
      | .t =>
        match left with
        | 0 => (match x with | .val v => .ok (some v) | _ => .err)
        | k + 1 => nthLoop L p n s k

def nth (L : Option Nat) (fuel : Nat) (g : G) (idx : Int) (p : P) : Res (Option V) :=
  if idx < 0 then .err else nthLoop L p fuel (g.iter L) idx.toNat

/-- `reduce(g, init, f)` (`include.rs:210`): `g.aggregate(init, f).last()` -/
def reduce (L : Option Nat) (fuel : Nat) (g : G) (init : Item) (f : F2) : Res V :=
  last L fuel (.aggregate g init f)

/-- `flatten` of a sequence of generators (`include.rs:1367`): `reduce([].to_generator(), add)`, a left fold of
`XGenerator::chain` -/
def G.flattenAll (gs : List G) : G := gs.foldl G.mkChain (.fromArr [])

/-- `distinct` (`include.rs:198`): `with_count(h, e).filter(i -> i::item1 == 1).map(i -> i::item0)` -/
def G.distinct (g : G) (eq : V → V → Bool) : G :=
  .map (.filter (.withCount g eq)
    (fun | .val (.tup [_, .int n]) => if n == 1 then .t else .f | .viol => .viol | _ => .err))
    (fun | .val (.tup [v, _]) => .val v | .viol => .viol | _ => .err)


/-! ### library functions of `include.rs` over the natives (compositions: no new iterator states) -/

/-- `first(g, p)` (`include.rs:206`): `g.nth(0, p)` -/
def first (L : Option Nat) (fuel : Nat) (g : G) (p : P) : Res (Option V) := nth L fuel g 0 p

/-- `any(g, p)` (`include.rs:161`): `g.nth(0, p).has_value()` -/
def any (L : Option Nat) (fuel : Nat) (g : G) (p : P) : Res Bool :=
  match nth L fuel g 0 p with
  | .ok o => .ok o.isSome
  | .err => .err
  | .viol => .viol
  | .outOfFuel => .outOfFuel

/-- the negated predicate `(t) -> {!f(t)}` -/
def notP (p : P) : P := fun x =>
  match p x with
  | .t => .f
  | .f => .t
  | r => r

/-- `all(g, p)` (`include.rs:157`): `!g.nth(0, (t) -> {!p(t)}).has_value()` -/
def all (L : Option Nat) (fuel : Nat) (g : G) (p : P) : Res Bool :=
  match nth L fuel g 0 (notP p) with
  | .ok o => .ok (!o.isSome)
  | .err => .err
  | .viol => .viol
  | .outOfFuel => .outOfFuel

/-- `count(g, p)` (`include.rs:190`): `g.filter(p).len()` -/
def countIf (L : Option Nat) (fuel : Nat) (g : G) (p : P) : Res Nat := len L fuel (.filter g p)

/-- `unzip` (:1322) gives one `Map(g, t -> t[i])` per component; `keys` / `values` of a mapping (`include.rs:264,284`)
are components 0 and 1 of its entry generator -/
def G.component (g : G) (i : Nat) : G :=
  .map g (fun | .val (.tup vs) => (match vs[i]? with | some v => .val v | none => .err) | .viol => .viol | _ => .err)

/-- the enumeration index `x -> x * step + start` of `count(start, step)` (`include.rs:103`) -/
def affIdx (start step : Int) : F := fun | .val (.int i) => .val (.int (i * step + start)) | .viol => .viol | _ => .err

/-- `enumerate(g, start, step)` (`include.rs:202`): `count(start, step).zip(g)`; `count(start, step)` is the counter
under the sequence map `x -> x * step + start` (`include.rs:103`) -/
def G.enumerate (g : G) (start step : Int) : G :=
  .zip [.fromCount (some (affIdx start step)), g]

/-- `repeat(g, n)` (`include.rs:1339`): `[g].to_generator().repeat().take(n).flatten()` — the fold of `add` over
`n` copies of the generator value -/
def G.repeatN (g : G) (n : Nat) : G := G.flattenAll (List.replicate n g)

/-- the callback of `aggregate(g, f)` without an initial state (`include.rs:152`):
`(prev, next) -> if(prev.has_value(), some(f(prev.value(), next)), some(next))`; `none()` is `tup []`, `some(v)` is `tup [v]` -/
def agg1Step (f : F2) : F2 := fun prev next =>
  match prev, next with
  | .viol, _ => .viol
  | _, .viol => .viol
  | .val (.tup []), .val v => .val (.tup [v])
  | .val (.tup [a]), .val v => (match f (.val a) (.val v) with | .val r => .val (.tup [r]) | r => r)
  | _, _ => .err

/-- `value{Optional<T>}` on the encoding -/
def optValue : F := fun | .val (.tup [v]) => .val v | .viol => .viol | _ => .err

/-- `aggregate(g, f)` without an initial state (`include.rs:151`):
`g.aggregate(none(), agg1Step f).skip(1).map(value)` -/
def G.aggregate1 (g : G) (f : F2) : G :=
  .map (G.mkSlice (.aggregate g (.val (.tup [])) (agg1Step f)) 1 none) optValue

/-- `reduce(g, f)` without an initial state (`include.rs:214`): `g.aggregate(f).last()` -/
def reduce1 (L : Option Nat) (fuel : Nat) (g : G) (f : F2) : Res V := last L fuel (g.aggregate1 f)


/-! ### `chunks` (`include.rs:165-184`): map(some) . add([none]) . aggregate(Agg(stack, disp)) . filter . map
`some(v)` is `tup [v]`, `none()` is `tup []`, `Agg(s, disp)` is `tup [seq s, int d]` (d: 0 none, 1 some(false), 2 some(true)) -/

def chWrap : F := fun | .val v => .val (.tup [v]) | x => x
def chInit : Item := .val (.tup [.seq [], .int 1])
def chStep (n : Nat) : F2 := fun
  | .val (.tup [.seq s, _]), .val (.tup [v]) => .val (.tup [.seq ((if s.length < n then s else []) ++ [v]), .int 0])
  | .val (.tup [.seq s, _]), .val (.tup []) => .val (.tup [.seq s, .int (if s.length > 0 && s.length < n then 2 else 1)])
  | .viol, _ => .viol
  | _, .viol => .viol
  | _, _ => .err
def chKeep (n : Nat) : P := fun
  | .val (.tup [.seq s, .int d]) => if (if d == 0 then s.length == n else d == 2) then .t else .f
  | .viol => .viol
  | _ => .err
def chOut : F := fun | .val (.tup [.seq s, _]) => .val (.seq s) | .viol => .viol | _ => .err

def G.chunks (g : G) (n : Nat) : G :=
  .map (.filter (.aggregate ((G.map g chWrap).mkChain (.fromArr [.tup []])) chInit (chStep n)) (chKeep n)) chOut

end XrayModel.Gen
