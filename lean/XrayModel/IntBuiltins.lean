/-
Model of the integer builtins of `src/builtin/int.rs` on top of `LazyInt` (no size limit configured,
so every `can_allocate*` pre-flight is `Ok`).  An error *value* of the language is `XR.err msg`,
an interpreter panic is `XR.panic why`.
-/
import XrayModel.LazyInt
namespace XrayModel
open LB

inductive XR where
  | int (v : LB)
  | bool (b : Bool)
  | ints (vs : List LB)
  | err (msg : String)
  | panic (why : String)
  deriving Repr, DecidableEq, Inhabited

def liftR : LB.R → XR
  | .ok v => .int v
  | .error e => .panic e

namespace IntB

def add (a b : LB) : XR := liftR (LB.add a b)
def sub (a b : LB) : XR := liftR (LB.sub a b)
def mul (a b : LB) : XR := liftR (LB.mul a b)
def neg (a : LB) : XR := liftR (LB.neg a)
def bitAnd (a b : LB) : XR := .int (LB.bitand a b)
def bitOr (a b : LB) : XR := .int (LB.bitor a b)
def bitXor (a b : LB) : XR := .int (LB.bitxor a b)

/-- `mod` (int.rs:65): floored modulo built from the truncated remainder -/
def mod (a b : LB) : XR :=
  if LB.isZero b then .err "Modulo by zero"
  else match LB.rem a b with
    | .error e => .panic e
    | .ok r =>
      if !LB.isZero r && (LB.isNegative r != LB.isNegative b) then liftR (LB.add r b) else .int r

def divFloor (a b : LB) : XR :=
  if LB.isZero b then .err "Division by zero" else liftR (LB.divFloor a b)

def divCeil (a b : LB) : XR :=
  if LB.isZero b then .err "Division by zero" else liftR (LB.divCeil a b)

/-- `pow` (int.rs:153): an exponent beyond the machine word is an error value unless the base is 0, 1 or -1 -/
def pow (a b : LB) : XR :=
  if LB.isNegative b then .err "cannot raise integer to a negative power"
  else if LB.isZero b && LB.isZero a then .err "cannot raise zero to a zero power"
  else if (LB.toU64 b).isNone then
    match LB.abs a with
    | .error e => .panic e
    | .ok aa =>
      if !(LB.isZero a || LB.isOne aa) then .err "exponent too large" else liftR (LB.pow a b)
  else liftR (LB.pow a b)

def lt (a b : LB) : XR := .bool (LB.cmp a b == .lt)
def gt (a b : LB) : XR := .bool (LB.cmp a b == .gt)
def le (a b : LB) : XR := .bool (LB.cmp a b != .gt)
def ge (a b : LB) : XR := .bool (LB.cmp a b != .lt)
def eq (a b : LB) : XR := .bool (LB.beq a b)
def ne (a b : LB) : XR := .bool (!LB.beq a b)

/-- `xcmp` (core.rs:158) -/
def cmp (a b : LB) : XR :=
  match LB.cmp a b with
  | .lt => .int (short (-1))
  | .gt => .int (short 1)
  | .eq => .int (short 0)

/-- `hash` (int.rs:271) -/
def hash (a : LB) : XR :=
  match LB.toU64 a with
  | some _ => .int a
  | none => .int (LB.firstU64Digit a)

/-- `b.range()` (:97): 0, 1, … while `< b` -/
def rangeTo (b : LB) : List LB := (List.range b.den.toNat).map (fun (i : Nat) => LB.ofInt (Int.ofNat i))

/-- one iteration of the `binom` loop (int.rs:322-326) -/
def binomStep (a : LB) (st : Except String (LB × LB)) (i : LB) : Except String (LB × LB) :=
  match st with
  | .error e => .error e
  | .ok (num, denum) =>
    match LB.sub a i with
    | .error e => .error e
    | .ok t =>
      match LB.mulAssign num t with
      | .error e => .error e
      | .ok num' =>
        match LB.add i (short 1) with
        | .error e => .error e
        | .ok u =>
          match LB.mulAssign denum u with
          | .error e => .error e
          | .ok denum' => .ok (num', denum')

/-- `binom` (int.rs:308) -/
def binom (a b : LB) : XR :=
  if LB.cmp b a == .gt then .err "argument 2 must be less than argument 1"
  else if LB.isNegative b then .err "argument 2 must be non-negative"
  else match (rangeTo b).foldl (binomStep a) (.ok (short 1, short 1)) with
    | .error e => .panic e
    | .ok (num, denum) => liftR (LB.div num denum)

/-! ### `multinom` (int.rs `add_int_multinom`) -/

/-- insertion into a list sorted in descending `LazyBigint::cmp` order -/
def insertDesc (x : LB) : List LB → List LB
  | [] => [x]
  | y :: ys => if LB.cmp x y == .lt then y :: insertDesc x ys else x :: y :: ys

/-- `s.sort_unstable_by(|a,b| cmp(a,b).reverse())`: descending order.  (The model sorts by insertion; canonical
representations make equal elements identical, so every correct sort returns this list.) -/
def sortDesc (s : List LB) : List LB := s.foldr insertDesc []

/-- one iteration of the inner loop: `num *= &i + &num_ctr; denum *= &i + &one` -/
def multinomStep (numCtr : LB) (st : Except String (LB × LB)) (i : LB) : Except String (LB × LB) :=
  match st with
  | .error e => .error e
  | .ok (num, denum) =>
    match LB.add i numCtr with
    | .error e => .error e
    | .ok t =>
      match LB.mulAssign num t with
      | .error e => .error e
      | .ok num' =>
        match LB.add i (short 1) with
        | .error e => .error e
        | .ok u =>
          match LB.mulAssign denum u with
          | .error e => .error e
          | .ok denum' => .ok (num', denum')

/-- one iteration of the outer loop: the inner loop over `item.range()`, then `num_ctr += item` -/
def multinomItem (st : Except String (LB × LB × LB)) (item : LB) : Except String (LB × LB × LB) :=
  match st with
  | .error e => .error e
  | .ok (numCtr, num, denum) =>
    match (rangeTo item).foldl (multinomStep numCtr) (.ok (num, denum)) with
    | .error e => .error e
    | .ok (num', denum') =>
      match LB.addAssign numCtr item with
      | .error e => .error e
      | .ok numCtr' => .ok (numCtr', num', denum')

/-- `multinom` -/
def multinom (s : List LB) : XR :=
  if s.length ≤ 1 then .int (short 1)
  else
    match sortDesc s with
    | [] => .panic "unreachable"
    | s0 :: rest =>
      if LB.isNegative ((s0 :: rest).getLast (List.cons_ne_nil _ _)) then .err "sequence cannot have negative values"
      else match LB.add s0 (short 1) with
        | .error e => .panic e
        | .ok numCtr =>
          match (rest.takeWhile LB.isPositive).foldl multinomItem (.ok (numCtr, short 1, short 1)) with
          | .error e => .panic e
          | .ok (_, num, denum) => liftR (LB.div num denum)

/-- the `digits` loop (int.rs:250-256), with fuel; `none` = fuel exhausted -/
def digitsLoop : Nat → LB → LB → List LB → Option (Except String (List LB))
  | 0, _, _, _ => none
  | fuel + 1, n, b, acc =>
    if LB.isZero n then some (.ok acc.reverse)
    else match LB.rem n b with
      | .error e => some (.error e)
      | .ok d =>
        match LB.div n b with
        | .error e => some (.error e)
        | .ok n' => digitsLoop fuel n' b (d :: acc)

/-- `digits` (int.rs:241); fuel `|n| + 1` always suffices for base ≥ 2 -/
def digits (n b : LB) : XR :=
  if LB.cmp b (short 2) == .lt then .err "base must be at least 2"
  else match digitsLoop (n.den.natAbs + 1) n b [] with
    | none => .panic "fuel"
    | some (.error e) => .panic e
    | some (.ok ds) => .ints ds

end IntB
end XrayModel
