/-
Expression syntax: the model behind the syntax half of C02.

Two phases, as in the implementation:

* the PEG of `src/xray.pest` for `expression / expression1 / expression2 / expression3` (scannerless,
  ordered choice, implicit whitespace) — `pExpression …` below, over `List Char`;
* what `src/parser.rs` does with the pairs: `Rule::expression` hands the flat pair list
  `expression1 (BINARY_OP expression1)*` to pest's `PrecClimber` (`climb` / `climbRec` / `climbInner`
  mirror `pest-2.3.0/src/prec_climber.rs:299-359` loop for loop, with the table **generated** from
  `parser.rs:28-48`), `Rule::expression1` applies the unary operators right to left, `Rule::expression2`
  folds the accessors left to right.  Every operator, method call and index becomes a *call of a
  named function* (`SExpr.call (.ident f) args`, the mirror of `XStaticExpr::Call(Ident f, args)`).

`SExpr` mirrors `XStaticExpr` (`src/xexpr.rs:43-57`) without lambdas, specialised identifiers and float
literals; the parser answers `unsup` on source text that uses anything outside this fragment (never a
guess).  `toCore` maps an `SExpr` to the run-time core model's `Core.Expr`.
-/
import XrayModel.Core
import Generated.Ops
namespace XrayModel.Syntax
open Generated.Ops

/-! ## the generated tables as functions -/

def assocGet (k : String) : List (String × String) → Option String
  | [] => none
  | (k', v) :: rest => if k = k' then some v else assocGet k rest

def findInLevel (r : String) : List (String × Assoc) → Option Assoc
  | [] => none
  | (r', a) :: rest => if r = r' then some a else findInLevel r rest

/-- `PrecClimber::new` numbers the vec elements from 1; `PrecClimber::get` takes the first entry of a rule -/
def infoIn (r : String) : Nat → List (List (String × Assoc)) → Option (Nat × Assoc)
  | _, [] => none
  | p, lvl :: rest => match findInLevel r lvl with
      | some a => some (p, a)
      | none => infoIn r (p + 1) rest

/-- `CLIMBER.get(&rule)` -/
def climberInfo (r : String) : Option (Nat × Assoc) := infoIn r 1 climberLevels

def infixName (r : String) : Option String := assocGet r infixFunc
def unaryName (r : String) : Option String := assocGet r unaryFunc

/-! ## pest's precedence climber -/

/-- the pairs the climber iterates over: primaries (already mapped by `primary`) and operator pairs -/
inductive Item (α : Type) where
  | prim (a : α)
  | op (rule : String)

/-- the result before the `infix` closure gives the nodes a meaning -/
inductive Tree (α : Type) where
  | leaf (a : α)
  | node (rule : String) (l r : Tree α)

section climber
variable {α : Type} (info : String → Option (Nat × Assoc))

/-- `new_prec > prec || assoc == Assoc::Right && new_prec == prec` -/
def absorbs (prec newPrec : Nat) (assoc : Assoc) : Bool :=
  decide (newPrec > prec) || (assoc == Assoc.right && newPrec == prec)

mutual
  /-- the outer `while` of `climb_rec(lhs, min_prec, pairs)`; returns the tree and the pairs left -/
  def climbRec (fuel : Nat) (lhs : Tree α) (minPrec : Nat) (ts : List (Item α)) : Option (Tree α × List (Item α)) :=
    match fuel with
    | 0 => none
    | fuel + 1 =>
      match ts with
      | [] => some (lhs, [])
      | .prim _ :: _ => some (lhs, ts)                -- `self.get(&rule)` is `None`: break
      | .op r :: rest =>
        match info r with
        | none => some (lhs, ts)
        | some (prec, _) =>
          if prec ≥ minPrec then
            match rest with
            | [] => none                              -- `expect("infix operator must be followed by a primary expression")`
            | .op _ :: _ => none                      -- `primary` of an operator pair: `panic!("not an expression")`
            | .prim a :: rest' =>
              match climbInner fuel (.leaf a) prec rest' with
              | none => none
              | some (rhs, rest'') => climbRec fuel (.node r lhs rhs) minPrec rest''
          else some (lhs, ts)

  /-- the inner `while`: extends `rhs` as long as the next operator binds tighter than `prec`
      (or equally, and is right-associative) -/
  def climbInner (fuel : Nat) (rhs : Tree α) (prec : Nat) (ts : List (Item α)) : Option (Tree α × List (Item α)) :=
    match fuel with
    | 0 => none
    | fuel + 1 =>
      match ts with
      | [] => some (rhs, [])
      | .prim _ :: _ => some (rhs, ts)
      | .op r :: _ =>
        match info r with
        | none => some (rhs, ts)
        | some (newPrec, assoc) =>
          if absorbs prec newPrec assoc then
            match climbRec fuel rhs newPrec ts with
            | none => none
            | some (rhs', ts') => climbInner fuel rhs' prec ts'
          else some (rhs, ts)
end

/-- `PrecClimber::climb`: the first pair must be a primary; pairs left over when the loop breaks are dropped
    (as pest does) -/
def climb (ts : List (Item α)) : Option (Tree α) :=
  match ts with
  | .prim a :: rest => (climbRec info (rest.length + 2) (.leaf a) 0 rest).map (·.1)
  | _ => none

end climber

/-! ## static expressions -/

/-- mirror of `XStaticExpr` (without `LiteralFloat`, `SpecializedIdent`, `Lambda`) -/
inductive SExpr where
  | int (n : Int)
  | bool (b : Bool)
  | str (s : String)
  | ident (x : String)
  | call (f : SExpr) (args : List SExpr)
  | member (e : SExpr) (name : String)
  | memberValue (e : SExpr) (name : String)
  | memberOptValue (e : SExpr) (name : String)
  | arr (es : List SExpr)
  | tup (es : List SExpr)

/-- `XStaticExpr::new_call(name, args)` -/
def newCall (f : String) (args : List SExpr) : SExpr := .call (.ident f) args

/-- the `infix` closure of the `Rule::expression` arm applied to the climber's tree;
    `none` = `unreachable!()` (an operator rule without an arm) -/
def foldTree : Tree SExpr → Option SExpr
  | .leaf a => some a
  | .node r l rt =>
    match foldTree l, foldTree rt, infixName r with
    | some l', some r', some f => some (newCall f [l', r'])
    | _, _, _ => none

/-- `Rule::expression`: the climber over the pair list, then the infix closure -/
def buildBinary (first : SExpr) (rest : List (String × SExpr)) : Option SExpr :=
  match climb climberInfo (.prim first :: rest.flatMap (fun (r, e) => [.op r, .prim e])) with
  | some t => foldTree t
  | none => none

/-- `Rule::expression1`: `for inner in iter.rev()` — the operator nearest to the operand is applied first.
    `ops` in source order. -/
def applyUnary : List String → SExpr → Option SExpr
  | [], e => some e
  | r :: rest, e =>
    match applyUnary rest e, unaryName r with
    | some e', some f => some (newCall f [e'])
    | _, _ => none

inductive Accessor where
  | method (name : String) (args : List SExpr)
  | call (args : List SExpr)
  | member (name : String)
  | memberValue (name : String)
  | memberOptValue (name : String)
  | index (args : List SExpr)

/-- one iteration of the `for accessor in iter` loop of `Rule::expression2` -/
def applyAccessor (ret : SExpr) : Accessor → SExpr
  | .method name args => .call (.ident name) (ret :: args)
  | .call args => .call ret args
  | .member name => .member ret name
  | .memberValue name => .memberValue ret name
  | .memberOptValue name => .memberOptValue ret name
  | .index args => newCall indexFunc (ret :: args)

def applyAccessors (e : SExpr) (accs : List Accessor) : SExpr := accs.foldl applyAccessor e

/-! ## the PEG of `xray.pest` for expressions (scannerless) -/

inductive PR (α : Type) where
  | ok (a : α) (rest : List Char)
  | fail                    -- PEG failure at this alternative (the caller may try the next one)
  | unsup (why : String)    -- source text outside the modelled fragment
  | oof

def isWs (c : Char) : Bool := c == ' ' || c == '\t' || c == '\r' || c == '\n'

def skipWs : List Char → List Char
  | [] => []
  | c :: rest => if isWs c then skipWs rest else c :: rest

/-- a literal token, without skipping -/
def litRaw : List Char → List Char → Option (List Char)
  | [], cs => some cs
  | _ :: _, [] => none
  | t :: ts, c :: cs => if t = c then litRaw ts cs else none

/-- implicit whitespace, then a literal token -/
def lit (t : String) (cs : List Char) : Option (List Char) := litRaw t.toList (skipWs cs)

/-- ordered choice over an operator alternation `(rule, token)`: the first alternative whose token matches -/
def firstOp : List (String × String) → List Char → Option (String × List Char)
  | [], _ => none
  | (r, t) :: more, cs => match litRaw t.toList cs with
      | some rest => some (r, rest)
      | none => firstOp more cs

def isIdStart (c : Char) : Bool := c == '_' || c.isAlpha
def isIdCont (c : Char) : Bool := c == '_' || c.isAlphanum

def spanChars (p : Char → Bool) : List Char → List Char × List Char
  | [] => ([], [])
  | c :: rest => if p c then let (a, b) := spanChars p rest; (c :: a, b) else ([], c :: rest)

/-- `CNAME` (atomic), after implicit whitespace -/
def cname (cs : List Char) : Option (String × List Char) :=
  match skipWs cs with
  | c :: rest => if isIdStart c then let (a, b) := spanChars isIdCont rest; some (String.ofList (c :: a), b) else none
  | [] => none

def digitsVal (ds : List Char) : Int :=
  Int.ofNat (ds.foldl (fun acc d => if d.isDigit then acc * 10 + (d.toNat - '0'.toNat) else acc) 0)

mutual
  /-- `expression = { expression1 ~ (BINARY_OP ~ expression1)* }` and the `Rule::expression` arm -/
  def pExpression (fuel : Nat) (cs : List Char) : PR SExpr :=
    match fuel with
    | 0 => .oof
    | fuel + 1 =>
      match pExpression1 fuel cs with
      | .ok first rest =>
        match pBinTail fuel rest with
        | .ok items rest' => match buildBinary first items with
            | some e => .ok e rest'
            | none => .unsup "climber"
        | .fail => .fail
        | .unsup w => .unsup w
        | .oof => .oof
      | .fail => .fail
      | .unsup w => .unsup w
      | .oof => .oof

  /-- `(BINARY_OP ~ expression1)*`: an iteration that fails is undone and ends the repetition -/
  def pBinTail (fuel : Nat) (cs : List Char) : PR (List (String × SExpr)) :=
    match fuel with
    | 0 => .oof
    | fuel + 1 =>
      match firstOp pestBinary (skipWs cs) with
      | none => .ok [] cs
      | some (r, rest) =>
        match pExpression1 fuel rest with
        | .ok e rest' => match pBinTail fuel rest' with
            | .ok more rest'' => .ok ((r, e) :: more) rest''
            | other => other
        | .fail => .ok [] cs
        | .unsup w => .unsup w
        | .oof => .oof

  /-- `expression1 = { (UNARY_OP)* ~ expression2 }` and the `Rule::expression1` arm -/
  def pExpression1 (fuel : Nat) (cs : List Char) : PR SExpr :=
    match fuel with
    | 0 => .oof
    | fuel + 1 =>
      match pUnaryOps fuel cs with
      | (ops, rest) =>
        match pExpression2 fuel rest with
        | .ok e rest' => match applyUnary ops e with
            | some e' => .ok e' rest'
            | none => .unsup "unary"
        | other => other

  /-- `(UNARY_OP)*` -/
  def pUnaryOps (fuel : Nat) (cs : List Char) : List String × List Char :=
    match fuel with
    | 0 => ([], cs)
    | fuel + 1 =>
      match firstOp pestUnary (skipWs cs) with
      | none => ([], cs)
      | some (r, rest) => let (more, rest') := pUnaryOps fuel rest; (r :: more, rest')

  /-- `expression2 = { expression3 ~ (accessor)* }` and the `Rule::expression2` arm -/
  def pExpression2 (fuel : Nat) (cs : List Char) : PR SExpr :=
    match fuel with
    | 0 => .oof
    | fuel + 1 =>
      match pExpression3 fuel cs with
      | .ok e rest => pAccessors fuel e rest
      | other => other

  /-- `(accessor)*` with `accessor = _{ method | call | member | member_opt_value | member_value | index }`,
      folded over `ret` as the loop of the arm does -/
  def pAccessors (fuel : Nat) (ret : SExpr) (cs : List Char) : PR SExpr :=
    match fuel with
    | 0 => .oof
    | fuel + 1 =>
      let cs' := skipWs cs
      -- method = { "." ~ CNAME ~ call_args }
      match (match litRaw ['.'] cs' with
             | some r1 => match cname r1 with
                 | some (name, r2) => match pCallArgs fuel r2 with
                     | .ok args r3 => PR.ok (Accessor.method name args) r3
                     | .fail => .fail
                     | .unsup w => .unsup w
                     | .oof => .oof
                 | none => .fail
             | none => .fail) with
      | .ok a r => pAccessors fuel (applyAccessor ret a) r
      | .unsup w => .unsup w
      | .oof => .oof
      | .fail =>
      -- call = { call_args }
      match pCallArgs fuel cs' with
      | .ok args r => pAccessors fuel (applyAccessor ret (.call args)) r
      | .unsup w => .unsup w
      | .oof => .oof
      | .fail =>
      -- member = { "::" ~ CNAME }, member_opt_value = { "?:" ~ CNAME }, member_value = { "!:" ~ CNAME }
      match (match litRaw [':', ':'] cs' with
             | some r1 => (cname r1).map (fun (n, r2) => (Accessor.member n, r2))
             | none => match litRaw ['?', ':'] cs' with
               | some r1 => (cname r1).map (fun (n, r2) => (Accessor.memberOptValue n, r2))
               | none => match litRaw ['!', ':'] cs' with
                 | some r1 => (cname r1).map (fun (n, r2) => (Accessor.memberValue n, r2))
                 | none => none) with
      | some (a, r) => pAccessors fuel (applyAccessor ret a) r
      | none =>
      -- index = { "[" ~ container_elements ~ "]" }
      match litRaw ['['] cs' with
      | none => .ok ret cs
      | some r1 =>
        match pElements fuel r1 with
        | .ok es r2 => match lit "]" r2 with
            | some r3 => pAccessors fuel (applyAccessor ret (.index es)) r3
            | none => .ok ret cs
        | .fail => .ok ret cs
        | .unsup w => .unsup w
        | .oof => .oof

  /-- `call_args = { "(" ~ container_elements? ~ ","? ~ ")" }` (also the body of `tuple`) -/
  def pCallArgs (fuel : Nat) (cs : List Char) : PR (List SExpr) :=
    match fuel with
    | 0 => .oof
    | fuel + 1 =>
      match lit "(" cs with
      | none => .fail
      | some r1 => match pElementsOptClose fuel r1 ')' with
          | .ok (es, _) r => .ok es r
          | .fail => .fail
          | .unsup w => .unsup w
          | .oof => .oof

  /-- `container_elements? ~ ","? ~ <close>`; the flag says whether the optional comma was there -/
  def pElementsOptClose (fuel : Nat) (cs : List Char) (close : Char) : PR (List SExpr × Bool) :=
    match fuel with
    | 0 => .oof
    | fuel + 1 =>
      match pElements fuel cs with
      | .ok es r2 =>
          let (r3, trailing) := match lit "," r2 with | some r => (r, true) | none => (r2, false)
          match litRaw [close] (skipWs r3) with
          | some r4 => .ok (es, trailing) r4
          | none => .fail
      | .fail =>
          let (r3, trailing) := match lit "," cs with | some r => (r, true) | none => (cs, false)
          match litRaw [close] (skipWs r3) with
          | some r4 => .ok ([], trailing) r4
          | none => .fail
      | .unsup w => .unsup w
      | .oof => .oof

  /-- `container_elements = { expression ~ ("," ~ expression)* }` -/
  def pElements (fuel : Nat) (cs : List Char) : PR (List SExpr) :=
    match fuel with
    | 0 => .oof
    | fuel + 1 =>
      match pExpression fuel cs with
      | .ok e rest => match pElementsTail fuel rest with
          | .ok more rest' => .ok (e :: more) rest'
          | other => other
      | .fail => .fail
      | .unsup w => .unsup w
      | .oof => .oof

  def pElementsTail (fuel : Nat) (cs : List Char) : PR (List SExpr) :=
    match fuel with
    | 0 => .oof
    | fuel + 1 =>
      match lit "," cs with
      | none => .ok [] cs
      | some r1 => match pExpression fuel r1 with
          | .ok e rest => match pElementsTail fuel rest with
              | .ok more rest' => .ok (e :: more) rest'
              | other => other
          | .fail => .ok [] cs
          | .unsup w => .unsup w
          | .oof => .oof

  /-- `expression3 = _{ STRING | RAW_STRING | FORMATTED_STRING | bool | NUMBER_ANY | container
        | lambda_func | tuple | turbofish_cname | dyn_bind_cname | CNAME }` -/
  def pExpression3 (fuel : Nat) (cs : List Char) : PR SExpr :=
    match fuel with
    | 0 => .oof
    | fuel + 1 =>
      match skipWs cs with
      | [] => .fail
      | c :: rest =>
        -- STRING: only plain double-quoted strings without escapes are inside the fragment
        if c == '"' then
          let (body, after) := spanChars (fun ch => ch != '"' && ch != '\\') rest
          match after with
          | '"' :: r => .ok (.str (String.ofList body)) r
          | _ => .unsup "string"
        else if c == '\'' || c == '#' then .unsup "string"
        else if (c == 'r' || c == 'f') && (match skipWs rest with | '"' :: _ => true | '\'' :: _ => true | '#' :: _ => true | _ => false) then
          .unsup "raw or formatted string"
        -- bool = @{"true"|"false"} (a prefix match, as the PEG does)
        else match litRaw "true".toList (c :: rest) with
        | some r => .ok (.bool true) r
        | none =>
        match litRaw "false".toList (c :: rest) with
        | some r => .ok (.bool false) r
        | none =>
        -- NUMBER_ANY: decimal integers (with `_`) are inside the fragment
        if c.isDigit then
          let (ds, after) := spanChars (fun ch => ch.isDigit || ch == '_') rest
          if c == '0' && (match rest with | 'x' :: h :: _ => h.isAlphanum || h == '_' | 'b' :: h :: _ => h == '0' || h == '1' || h == '_' | _ => false) then .unsup "hex or binary literal"
          else match after with
          | '.' :: d :: _ => if d.isDigit || d == '_' then .unsup "float literal" else .ok (.int (digitsVal (c :: ds))) after
          | 'e' :: d :: _ => if d.isDigit || d == '-' then .unsup "float literal" else .ok (.int (digitsVal (c :: ds))) after
          | 'E' :: d :: _ => if d.isDigit || d == '-' then .unsup "float literal" else .ok (.int (digitsVal (c :: ds))) after
          | _ => .ok (.int (digitsVal (c :: ds))) after
        -- container = { "[" ~ container_elements? ~ ","? ~ "]" }
        else if c == '[' then
          match pElementsOptClose fuel rest ']' with
          | .ok (es, _) r => .ok (.arr es) r
          | other => match other with
            | .fail => .fail
            | .unsup w => .unsup w
            | _ => .oof
        else if c == '(' then
          -- lambda_func = { "(" ~ function_parameters_opt ~ ")" ~ "->" ~ function_body } is tried first; it is outside the
          -- fragment: a text that starts like one (`(name : …` or `() ->`) is answered `unsup`
          if (match cname rest with
              | some (_, r1) => (match skipWs r1 with | ':' :: ':' :: _ => false | ':' :: _ => true | _ => false)
              | none => (match lit ")" rest with | some r1 => (lit "->" r1).isSome | none => false)) then .unsup "lambda"
          else
          -- tuple = { "(" ~ container_elements? ~ trailing_comma? ~ ")" } and the `Rule::tuple` arm: a single element
          -- without trailing comma is the parenthesised expression itself
          match pElementsOptClose fuel rest ')' with
          | .ok (es, trailing) r =>
              match es, trailing with
              | [e], false => .ok e r
              | _, _ => .ok (.tup es) r
          | .fail => .fail
          | .unsup w => .unsup w
          | .oof => .oof
        else if isIdStart c then
          let (a, after) := spanChars isIdCont rest
          -- turbofish_cname `CNAME{..}` / dyn_bind_cname `CNAME<types>`: outside the fragment.  A `<` after a name
          -- may start a generic binding; the parser answers `unsup` when a `>` follows anywhere (the caller keeps
          -- `<` and `>` apart), and continues with CNAME otherwise (the binding cannot match without its `>`).
          match skipWs after with
          | '{' :: _ => .unsup "turbofish"
          | '<' :: '=' :: _ => .ok (.ident (String.ofList (c :: a))) after
          | '<' :: more => if more.contains '>' then .unsup "possible generic binding" else .ok (.ident (String.ofList (c :: a))) after
          | _ => .ok (.ident (String.ofList (c :: a))) after
        else .fail
end

/-- `eval = { SOI ~ expression ~ EOI }` -/
def parseChars (cs : List Char) : PR SExpr :=
  match pExpression (2 * cs.length + 10) cs with
  | .ok e rest => match skipWs rest with
      | [] => .ok e []
      | _ => .fail
  | other => other


/-! ## printing (the dump format shared with the hook `parse_expr_dump`) -/

mutual
  def SExpr.dump : SExpr → String
    | .int n => "(int " ++ toString n ++ ")"
    | .bool b => if b then "(bool true)" else "(bool false)"
    | .str s => "(str \"" ++ s ++ "\")"
    | .ident x => "(id " ++ x ++ ")"
    | .call f args => "(call " ++ f.dump ++ dumpList args ++ ")"
    | .member e n => "(member " ++ e.dump ++ " " ++ n ++ ")"
    | .memberValue e n => "(mvalue " ++ e.dump ++ " " ++ n ++ ")"
    | .memberOptValue e n => "(mopt " ++ e.dump ++ " " ++ n ++ ")"
    | .arr es => "(arr" ++ dumpList es ++ ")"
    | .tup es => "(tup" ++ dumpList es ++ ")"
  def dumpList : List SExpr → String
    | [] => ""
    | e :: rest => " " ++ e.dump ++ dumpList rest
end

/-- `//` or `/*` anywhere: comments are outside the fragment -/
def hasComment : List Char → Bool
  | '/' :: '/' :: _ => true
  | '/' :: '*' :: _ => true
  | _ :: rest => hasComment rest
  | [] => false

def parse (s : String) : PR SExpr :=
  if hasComment s.toList then .unsup "comment" else parseChars s.toList

/-- the answer of the line protocol: the dump of the tree, `syntax-error`, `unsupported <why>` -/
def PR.show : PR SExpr → String
  | .ok e _ => e.dump
  | .fail => "syntax-error"
  | .unsup w => "unsupported " ++ w
  | .oof => "oof"

/-! ## into the run-time core model -/

/-- `itemN` → `N` (`SpecialPrefixSymbol::Item`) for plain decimal suffixes -/
def itemIndex (name : String) : Option Nat :=
  if name.startsWith "item" then
    let d := (name.drop 4).toString
    if d.isEmpty || d.toList.any (fun c => !c.isDigit) then none else d.toNat?
  else none

mutual
  /-- a call whose callee is an identifier is a call *by name* (resolved when it runs: a user function of that
      name in scope, else the native) -/
  def toCore : SExpr → Option Core.Expr
    | .int n => some (.int n)
    | .bool b => some (.bool b)
    | .str s => some (.str s)
    | .ident x => some (.var x)
    | .call (.ident f) args => (toCoreList args).map (Core.Expr.call f)
    | .call f args => match toCore f, toCoreList args with
        | some f', some as => some (.callE f' as)
        | _, _ => none
    | .member e n => match toCore e, itemIndex n with
        | some e', some i => some (.item e' i)
        | _, _ => none
    | .memberValue _ _ => none
    | .memberOptValue _ _ => none
    | .arr es => (toCoreList es).map Core.Expr.arr
    | .tup es => (toCoreList es).map Core.Expr.tup
  def toCoreList : List SExpr → Option (List Core.Expr)
    | [] => some []
    | e :: rest => match toCore e, toCoreList rest with
        | some e', some r' => some (e' :: r')
        | _, _ => none
end

/-! ## the derived comparisons (`src/builtin/generic.rs`, the dynamic `lt` / `gt` / `ge` / `le` / `ne`)

For a type that has a `cmp` (resp. `eq`) but no `lt` … of its own, the operators `<  >  >=  <=  !=` resolve to dynamic
functions that call the type's `cmp` (`eq`) once and test the result: `is_negative()`, `is_positive()`,
`!is_negative()`, `!is_positive()` of the integer `cmp` returned (documented: "whether `cmp(a,b)` is less than / greater
than / … zero", book std/general.md), and `!eq(a, b)`. -/

/-- `name ↦ test on the result of cmp`; `none` for a name that is not a cmp-derived comparison -/
def derivedOfCmp (name : String) (c : Int) : Option Bool :=
  match name with
  | "lt" => some (decide (c < 0))          -- `.is_negative()`
  | "gt" => some (decide (c > 0))          -- `.is_positive()`
  | "ge" => some (!decide (c < 0))         -- `!….is_negative()`
  | "le" => some (!decide (c > 0))         -- `!….is_positive()`
  | _ => none

/-- `ne` of a type with `eq` -/
def derivedNe (e : Bool) : Bool := !e

end XrayModel.Syntax
