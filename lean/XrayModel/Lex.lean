/-
Model of the hand-written lexical handlers of the compiler (shared by C18 and C12):
`apply_escapes`, `apply_brace_escape` (`src/util/str_escapes.rs`), the string-literal rules of
`src/xray.pest` (:130-158: `#`-fences, quote kinds, raw and formatted strings) read as scanners over the
literal's characters, the number-literal handler (`src/parser.rs`, `Rule::NUMBER_ANY`) and the identifier
interner (`src/util/special_prefix_interner.rs`).
-/
namespace XrayModel
namespace Lex

/-- outcome of a handler: a value, a compilation error, or a Rust panic -/
inductive Outcome (α : Type) where
  | ok (v : α)
  | error (cls : String)
  | panic (why : String)
  deriving Repr, DecidableEq

/-! ### `apply_escapes`
`RE = \\(u\{.+?\}|.)` is searched left to right, non-overlapping; `.` does not match a line feed.  At a
backslash the first alternative is tried first: `u{`, then lazily one or more non-newline characters up to
the first `}` that follows at least one character.  If it does not match, the second alternative takes
the single next character (if it is not a line feed).  A backslash that matches neither way is copied. -/

/-- after `\u{` and the first payload character: the rest of the payload up to the first `}`
(no line feed on the way); returns (payload rest, text after the brace) -/
def untilBrace : List Char → Option (List Char × List Char)
  | [] => none
  | c :: cs =>
    if c = '}' then some ([], cs)
    else if c = '\n' then none
    else (untilBrace cs).map (fun (p, r) => (c :: p, r))

def isHex (c : Char) : Bool :=
  ('0' ≤ c && c ≤ '9') || ('a' ≤ c && c ≤ 'f') || ('A' ≤ c && c ≤ 'F')

def hexVal (c : Char) : Nat :=
  if '0' ≤ c && c ≤ '9' then c.toNat - '0'.toNat
  else if 'a' ≤ c && c ≤ 'f' then c.toNat - 'a'.toNat + 10
  else c.toNat - 'A'.toNat + 10

def hexNum (cs : List Char) : Nat := cs.foldl (fun acc c => acc * 16 + hexVal c) 0

/-- the payload of `\u{…}`: `BYTECODE = ^[a-fA-F0-9]{1,6}$`, `u32::from_str_radix(_, 16)`, `char::try_from` -/
def unicodeEscape (payload : List Char) : Option Char :=
  if payload.all isHex && 1 ≤ payload.length && payload.length ≤ 6 then
    let v := hexNum payload
    if h : v.isValidChar then some (Char.ofNatAux v h) else none
  else none

/-- the one-character escapes (:33-40) -/
def simpleEscape (c : Char) : Option Char :=
  if c = 'n' then some '\n'
  else if c = 't' then some '\t'
  else if c = 'r' then some '\r'
  else if c = '0' then some (Char.ofNat 0)
  else if c = '\\' then some '\\'
  else if c = '"' then some '"'
  else if c = '\'' then some '\''
  else none

/-- `fuel` bounds the recursion by the length of the input (each step consumes at least one character) -/
def applyEscapesAux : Nat → List Char → Outcome (List Char)
  | 0, _ => .ok []
  | _ + 1, [] => .ok []
  | fuel + 1, c :: cs =>
    let copy : Outcome (List Char) :=
      match applyEscapesAux fuel cs with
      | .ok r => .ok (c :: r)
      | e => e
    if c = '\\' then
      -- first alternative: u{ payload }
      let alt1 : Option (List Char × List Char) :=
        match cs with
        | 'u' :: '{' :: p0 :: more =>
          if p0 = '\n' then none else (untilBrace more).map (fun (p, r) => (p0 :: p, r))
        | _ => none
      match alt1 with
      | some (payload, rest) =>
        (match unicodeEscape payload with
         | none => .error "BadEscapeSequence"
         | some ch =>
           match applyEscapesAux fuel rest with
           | .ok r => .ok (ch :: r)
           | e => e)
      | none =>
        match cs with
        | [] => copy                       -- a trailing backslash matches nothing and is copied
        | d :: rest =>
          if d = '\n' then copy            -- `.` does not match a line feed
          else match simpleEscape d with
            | none => .error "BadEscapeSequence"
            | some ch =>
              match applyEscapesAux fuel rest with
              | .ok r => .ok (ch :: r)
              | e => e
    else copy

def applyEscapes (cs : List Char) : Outcome (List Char) := applyEscapesAux (cs.length + 1) cs

/-- `apply_brace_escape`: `(\{)\{|(\})\}` replaced by `$1$2`, left to right, non-overlapping -/
def applyBraceEscape : List Char → List Char
  | '{' :: '{' :: rest => '{' :: applyBraceEscape rest
  | '}' :: '}' :: rest => '}' :: applyBraceEscape rest
  | c :: rest => c :: applyBraceEscape rest
  | [] => []

/-! ### number literals (`parser.rs`, `Rule::NUMBER_ANY`; grammar `xray.pest:121-128`) -/

def isDigit (c : Char) : Bool := '0' ≤ c && c ≤ '9'
def isNumDigit (c : Char) : Bool := isDigit c || c = '_'
def isHexDigitU (c : Char) : Bool := isHex c || c = '_'
def isBin (c : Char) : Bool := c = '0' || c = '1'
def isBinDigitU (c : Char) : Bool := isBin c || c = '_'

/-- exponent part after the `e`: `"-"? ~ int` -/
def isExpTail : List Char → Bool
  | '-' :: d :: m => isDigit d && m.all isNumDigit
  | d :: m => isDigit d && m.all isNumDigit
  | [] => false

/-- the text after the integer part of `num`: optional `"." ~ num_digit+`, optional `^"e" ~ "-"? ~ int`, end -/
def isNumTail (r1 : List Char) : Bool :=
  let r2 := match r1 with
    | '.' :: f :: more => if isNumDigit f then more.dropWhile isNumDigit else r1
    | _ => r1
  match r2 with
  | [] => true
  | e :: t => (e = 'e' || e = 'E') && isExpTail t

/-- `num = { int ~ ("." ~ num_digit+)? ~ (^"e" ~ "-"? ~ int)? }` as a recogniser of the whole token -/
def isNumTok : List Char → Bool
  | d :: rest => isDigit d && isNumTail (rest.dropWhile isNumDigit)
  | [] => false

/-- `hexnum = { "0x" ~ "_"* ~ ASCII_HEX_DIGIT ~ hex_digit* }` -/
def isHexTok : List Char → Bool
  | '0' :: 'x' :: rest =>
    (match rest.dropWhile (· = '_') with
     | h :: more => isHex h && more.all isHexDigitU
     | [] => false)
  | _ => false

/-- `binnum = { "0b" ~ "_"* ~ ("0"|"1") ~ bin_digit* }` -/
def isBinTok : List Char → Bool
  | '0' :: 'b' :: rest =>
    (match rest.dropWhile (· = '_') with
     | h :: more => isBin h && more.all isBinDigitU
     | [] => false)
  | _ => false

/-- the token texts the rule `NUMBER_ANY = @{hexnum | binnum | num}` can produce -/
def isNumberAny (s : List Char) : Bool := isHexTok s || isBinTok s || isNumTok s

/-- value of a digit string in a radix (digits already checked) -/
def radixVal (radix : Nat) (cs : List Char) : Nat := cs.foldl (fun acc c => acc * radix + hexVal c) 0

/-- `LazyBigint::from_str_radix(s, radix).ok()` on sign-free text: every character a digit of the radix,
at least one -/
def parseRadix (radix : Nat) (cs : List Char) : Option Nat :=
  if !cs.isEmpty && cs.all (fun c => isHex c && hexVal c < radix) then some (radixVal radix cs) else none

/-- exponent digits of a float: `"-"? digit+` -/
def isFloatExp : List Char → Bool
  | '-' :: d :: m => isDigit d && m.all isDigit
  | d :: m => isDigit d && m.all isDigit
  | [] => false

/-- after the integer digits of a float: `("." digit*)? ([eE] "-"? digit+)?` -/
def isFloatTail (r1 : List Char) : Bool :=
  let r2 := match r1 with
    | '.' :: more => more.dropWhile isDigit
    | _ => r1
  match r2 with
  | [] => true
  | e :: t => (e = 'e' || e = 'E') && isFloatExp t

/-- Rust's `f64::from_str` on the texts that can reach it here (digits, `.`, `e`/`E`, `-`):
`digit+ ("." digit*)? ([eE] "-"? digit+)?` -/
def isFloatText (s : List Char) : Bool :=
  match s with
  | d :: _ => isDigit d && isFloatTail (s.dropWhile isDigit)
  | [] => false

inductive NumLit where
  | int (v : Nat)
  | float          -- the value is `f64::from_str` of the text (not modelled)
  deriving Repr, DecidableEq

/-- `to_parse.replace('_', "")` -/
def stripUs (l : List Char) : List Char := l.filter (· ≠ '_')

/-- `to_parse.strip_prefix("0x").and_then(|s| from_str_radix(s, 16).ok())` -/
def hexAttempt (t : List Char) : Option Nat :=
  match t with
  | '0' :: 'x' :: r => parseRadix 16 r
  | _ => none

/-- `to_parse.strip_prefix("0b").and_then(|s| from_str_radix(s, 2).ok())` -/
def binAttempt (t : List Char) : Option Nat :=
  match t with
  | '0' :: 'b' :: r => parseRadix 2 r
  | _ => none

/-- the handler (:668-692): underscores removed; decimal, then `0x…` hex, then `0b…` binary integer;
else a float; else `panic!("… is not a number")` -/
def numberLiteral (input : List Char) : Outcome NumLit :=
  match parseRadix 10 (stripUs input) with
  | some v => .ok (.int v)
  | none =>
    match hexAttempt (stripUs input) with
    | some v => .ok (.int v)
    | none =>
      match binAttempt (stripUs input) with
      | some v => .ok (.int v)
      | none => if isFloatText (stripUs input) then .ok .float else .panic "is not a number"

/-! ### the identifier interner (`special_prefix_interner.rs`): `^item(0|[1-9][0-9]*)$`, index ≤ 65536 -/

inductive Sym where
  | item (idx : Nat)
  | regular (s : List Char)     -- the inner interner is injective on spellings: modelled as the spelling itself
  deriving Repr, DecidableEq

def maxItemIndex : Nat := 65536

def decVal (cs : List Char) : Nat := cs.foldl (fun acc c => acc * 10 + (c.toNat - '0'.toNat)) 0

/-- `item_index`: the canonical spellings `item0`, `item1`, … up to the bound -/
def itemIndex (s : List Char) : Option Nat :=
  match s with
  | 'i' :: 't' :: 'e' :: 'm' :: ds =>
    if ds = ['0'] then some 0
    else match ds with
      | d :: rest =>
        if '1' ≤ d && d ≤ '9' && rest.all isDigit then
          -- `parse::<usize>()` fails beyond 2^64-1, and indices above the bound are rejected
          let v := decVal ds
          if v ≤ maxItemIndex then some v else none
        else none
      | [] => none
  | _ => none

def intern (s : List Char) : Sym :=
  match itemIndex s with
  | some i => .item i
  | none => .regular s

/-- `resolve`: the text stored for a symbol (`format!("item{idx}")` for items) -/
def resolve : Sym → List Char
  | .item i => 'i' :: 't' :: 'e' :: 'm' :: (toString i).toList
  | .regular s => s

/-! ### string literal delimiters (`xray.pest`: STRING, RAW_STRING)
`PUSH("#"*) ~ quote ~ inner ~ quote ~ POP` with `inner = (!(quote ~ PEEK) ~ ("\\" quote | "\\\\" | ANY))*`
(raw strings: `inner = (!(quote ~ PEEK) ~ ANY)*`), read as a scanner over the literal's characters. -/

/-- the input starts with the closing delimiter: the quote followed by the `n` fence characters -/
def closes (q : Char) (n : Nat) (l : List Char) : Bool := (q :: List.replicate n '#').isPrefixOf l

/-- the inner text up to the first closing delimiter, and what follows the delimiter (`none`: no parse) -/
def scanInner (q : Char) (n : Nat) (raw : Bool) : Nat → List Char → Option (List Char × List Char)
  | 0, _ => none
  | fuel + 1, l =>
    if closes q n l then some ([], l.drop (n + 1))
    else match l with
      | [] => none
      | c :: rest =>
        if !raw && c = '\\' then
          match rest with
          | d :: rest' =>
            if d = q || d = '\\' then (scanInner q n raw fuel rest').map (fun (i, r) => (c :: d :: i, r))
            else (scanInner q n raw fuel rest).map (fun (i, r) => (c :: i, r))
          | [] => none
        else (scanInner q n raw fuel rest).map (fun (i, r) => (c :: i, r))

def isRawPrefix : List Char → Bool
  | 'r' :: _ => true
  | _ => false

/-- a STRING or RAW_STRING literal at the head of the input: its value (or the escape error) and the rest -/
def parseLiteral (l : List Char) : Option (Outcome (List Char) × List Char) :=
  let raw := isRawPrefix l
  let l1 := if raw then l.drop 1 else l
  let n := (l1.takeWhile (· = '#')).length
  match l1.dropWhile (· = '#') with
  | q :: body =>
    if q = '"' || q = '\'' then
      (scanInner q n raw (body.length + 1) body).map
        (fun (inner, rest) => (if raw then .ok inner else applyEscapes inner, rest))
    else none
  | [] => none

end Lex
end XrayModel
