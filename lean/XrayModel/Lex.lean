/-
Model of the hand-written lexical handlers of the compiler (shared by C18 and C12):
`apply_escapes`, `apply_brace_escape` (`src/util/str_escapes.rs`), the string-literal rules of
`src/xray.pest` (:130-158: `#`-fences, quote kinds, raw and formatted strings) read as scanners over the
literal's characters, the number-literal handler (`src/parser.rs`, `Rule::NUMBER_ANY`) and the identifier
interner (`src/util/special_prefix_interner.rs`).
-/
namespace XrayModel
namespace Lex

/-- outcome of a handler: a value, a compilation error, or a Rust panic -/
inductive Outcome (α : Type) where
  | ok (v : α)
  | error (cls : String)
  | panic (why : String)
  deriving Repr, DecidableEq

/-! ### `apply_escapes`
`RE = \\(u\{.+?\}|.)` is searched left to right, non-overlapping; `.` does not match a line feed.  At a
backslash the first alternative is tried first: `u{`, then lazily one or more non-newline characters up to
the first `}` that follows at least one character.  If it does not match, the second alternative takes
the single next character (if it is not a line feed).  A backslash that matches neither way is copied. -/

/-- after `\u{` and the first payload character: the rest of the payload up to the first `}`
(no line feed on the way); returns (payload rest, text after the brace) -/
def untilBrace : List Char → Option (List Char × List Char)
  | [] => none
  | c :: cs =>
    if c = '}' then some ([], cs)
    else if c = '\n' then none
    else (untilBrace cs).map (fun (p, r) => (c :: p, r))

def isHex (c : Char) : Bool :=
  ('0' ≤ c && c ≤ '9') || ('a' ≤ c && c ≤ 'f') || ('A' ≤ c && c ≤ 'F')

def hexVal (c : Char) : Nat :=
  if '0' ≤ c && c ≤ '9' then c.toNat - '0'.toNat
  else if 'a' ≤ c && c ≤ 'f' then c.toNat - 'a'.toNat + 10
  else c.toNat - 'A'.toNat + 10

def hexNum (cs : List Char) : Nat := cs.foldl (fun acc c => acc * 16 + hexVal c) 0

/-- the payload of `\u{…}`: `BYTECODE = ^[a-fA-F0-9]{1,6}$`, `u32::from_str_radix(_, 16)`, `char::try_from` -/
def unicodeEscape (payload : List Char) : Option Char :=
  if payload.all isHex && 1 ≤ payload.length && payload.length ≤ 6 then
    let v := hexNum payload
    if h : v.isValidChar then some (Char.ofNatAux v h) else none
  else none

/-- the one-character escapes (:33-40) -/
def simpleEscape (c : Char) : Option Char :=
  if c = 'n' then some '\n'
  else if c = 't' then some '\t'
  else if c = 'r' then some '\r'
  else if c = '0' then some (Char.ofNat 0)
  else if c = '\\' then some '\\'
  else if c = '"' then some '"'
  else if c = '\'' then some '\''
  else none

/-- `fuel` bounds the recursion by the length of the input (each step consumes at least one character) -/
def applyEscapesAux : Nat → List Char → Outcome (List Char)
  | 0, _ => .ok []
  | _ + 1, [] => .ok []
  | fuel + 1, c :: cs =>
    let copy : Outcome (List Char) :=
      match applyEscapesAux fuel cs with
      | .ok r => .ok (c :: r)
      | e => e
    if c = '\\' then
      -- first alternative: u{ payload }
      let alt1 : Option (List Char × List Char) :=
        match cs with
        | 'u' :: '{' :: p0 :: more =>
          if p0 = '\n' then none else (untilBrace more).map (fun (p, r) => (p0 :: p, r))
        | _ => none
      match alt1 with
      | some (payload, rest) =>
        (match unicodeEscape payload with
         | none => .error "BadEscapeSequence"
         | some ch =>
           match applyEscapesAux fuel rest with
           | .ok r => .ok (ch :: r)
           | e => e)
      | none =>
        match cs with
        | [] => copy                       -- a trailing backslash matches nothing and is copied
        | d :: rest =>
          if d = '\n' then copy            -- `.` does not match a line feed
          else match simpleEscape d with
            | none => .error "BadEscapeSequence"
            | some ch =>
              match applyEscapesAux fuel rest with
              | .ok r => .ok (ch :: r)
              | e => e
    else copy

def applyEscapes (cs : List Char) : Outcome (List Char) := applyEscapesAux (cs.length + 1) cs

/-- `apply_brace_escape`: `(\{)\{|(\})\}` replaced by `$1$2`, left to right, non-overlapping -/
def applyBraceEscape : List Char → List Char
  | '{' :: '{' :: rest => '{' :: applyBraceEscape rest
  | '}' :: '}' :: rest => '}' :: applyBraceEscape rest
  | c :: rest => c :: applyBraceEscape rest
  | [] => []

end Lex
end XrayModel
