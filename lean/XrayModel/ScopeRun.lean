/-
Run-time resolution of a *pending* capture (C03, the part of `src/runtime_scope.rs` the compile-time model
does not cover): a function created while a forward-declared sibling was not defined yet keeps
`PendingCapture{depth, cell}` in its template (`from_spec` :77-80).  When `Value(i)` is evaluated (:349-355) the
cell is looked up in the activation's *scope parent*, and the scope parent of an activation is found when the
activation is created (`from_template` :186-199) by walking from the **caller's** activation up its scope
parents to the first activation whose template id is the function's `parent_id`.
-/
namespace XrayModel.ScopeRun

/-- an activation (`RuntimeScope`): the template (scope id) it instantiates, its scope parent (an index into
the arena of live activations), its cells (`none` = Uninitialized) -/
structure Act where
  tid : Nat
  scopeParent : Option Nat
  cells : List (Option Int)

/-- `from_template` :186-199 -/
def findParent (arena : List Act) : Nat → Option Nat → Nat → Option Nat
  | 0, _, _ => none
  | _ + 1, none, _ => none
  | f + 1, some a, pid =>
    match arena[a]? with
    | none => none
    | some act => if act.tid = pid then some a else findParent arena f act.scopeParent pid

/-- reading a `PendingCapture{1, cell}` of a function whose `parent_id` is `pid`, called from `caller`;
`none` = the panic "ran out of scope parents at runtime" (or an uninitialized cell) -/
def readPending (arena : List Act) (caller : Option Nat) (pid cell : Nat) : Option Int :=
  match findParent arena (arena.length + 1) caller pid with
  | none => none
  | some a =>
    match arena[a]? with
    | none => none
    | some act => (act.cells[cell]?).join

/-- the cell of the activation `d` in which the function was created -/
def definingCell (arena : List Act) (d cell : Nat) : Option Int :=
  match arena[d]? with
  | none => none
  | some act => (act.cells[cell]?).join

end XrayModel.ScopeRun
