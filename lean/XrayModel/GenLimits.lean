/-
Model of the time-limit gate on user-function calls
(`runtime.rs:141-148` `check_timeout`, `:150-159` `increment_call_limit`,
`runtime_scope.rs:421-448` the beginning of `eval_func_with_values` for a user function and its
tail-call loop).  The clock is a parameter: `now` is what `Instant::now()` answers at the check.
-/
namespace XrayModel.GenLimits

/-- `check_timeout`: `timeout.map_or(true, |t| t > now)` -/
def checkTimeout (deadline : Option Nat) (now : Nat) : Bool :=
  match deadline with
  | none => true
  | some d => decide (d > now)

/-- `increment_call_limit`: count the call, then `>=` against the limit -/
def incrementCallLimit (udLimit : Option Nat) (calls : Nat) : Bool × Nat :=
  match udLimit with
  | none => (true, calls)
  | some l => (decide (¬ (calls + 1 ≥ l)), calls + 1)

inductive Begin where
  | errorArgument   -- an error argument is the result, the body does not run
  | violUDCall
  | violTimeout
  | bodyRuns
  deriving DecidableEq, Repr

/-- the beginning of a user-function call (`runtime_scope.rs:421-430`) -/
def beginCall (argIsError : Bool) (udLimit : Option Nat) (calls : Nat) (deadline : Option Nat) (now : Nat) :
    Begin × Nat :=
  if argIsError then (.errorArgument, calls)
  else
    let r := incrementCallLimit udLimit calls
    if !r.1 then (.violUDCall, r.2)
    else if !checkTimeout deadline now then (.violTimeout, r.2)
    else (.bodyRuns, r.2)

inductive TailStep where
  | violRecursion
  | violTimeout
  | bodyRuns
  deriving DecidableEq, Repr

/-- one turn of the tail-call loop (`runtime_scope.rs:438-448`) -/
def tailIteration (recLimit : Option Nat) (depth : Nat) (deadline : Option Nat) (now : Nat) : TailStep × Nat :=
  let depth' := depth + 1
  if (match recLimit with | some l => decide (depth' > l) | none => false) then (.violRecursion, depth')
  else if !checkTimeout deadline now then (.violTimeout, depth')
  else (.bodyRuns, depth')

end XrayModel.GenLimits
