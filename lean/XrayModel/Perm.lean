/-
C11 — model of the permission discipline.

* `Permission`, `PermissionSet.get/allow/forbid` mirror `src/permissions.rs:3-37`
  (`HashMap<&'static str, bool>` is an association list, newest binding first; `get` falls back to the
  permission's own default), `checkPermission` mirrors `RuntimeLimits::check_permission` (`runtime.rs:57-63`).
* `Step`/`Site`: one entry of the *effect-site table* that `/verif/translate/perm_sites.py` regenerates from the
  sources on every run (`Generated/Permissions.lean`): the guard(s), argument evaluations and effect tokens of a
  builtin's closure **in textual order**.
* `eval`: an effect-trace semantics for the ways a program can reach an effect site: directly, through
  user-function / standard-library wrappers (`wrap`), closures, callbacks of higher-order builtins and lazily
  evaluated sequence elements (`thunk body n`: the body is run once per call / forced element, `n = 0` for a
  closure that is never called or an element that is never forced), declaration-time defaults and top-level
  sequencing (`seq`).  A site is *executed as the table says*: its steps run in order, a failed `check` is a
  runtime violation `PermissionError(id)`; violations are not values: every construct propagates them.

Core Lean only (linked into `xmodel`).
-/
namespace XrayModel.Perm

structure Permission where
  id : String
  default : Bool
deriving DecidableEq, Repr

/-- `PermissionSet(HashMap<&'static str, bool>)`; the newest binding of an id is the first one found -/
abbrev PermissionSet := List (String × Bool)

def PermissionSet.get (s : PermissionSet) (p : Permission) : Bool :=
  match s.lookup p.id with
  | some b => b
  | none => p.default

def PermissionSet.allow (s : PermissionSet) (p : Permission) : PermissionSet := (p.id, true) :: s
def PermissionSet.forbid (s : PermissionSet) (p : Permission) : PermissionSet := (p.id, false) :: s

/-- `RuntimeLimits::check_permission`: `none` = `Ok(())`, `some id` = `Err(PermissionError(id))` -/
def checkPermission (s : PermissionSet) (p : Permission) : Option String :=
  if s.get p then none else some p.id

/-- the five effect channels -/
inductive Kind
  | writer | clock | rng | regex | sleep
deriving DecidableEq, Repr

/-- what the translator finds inside a builtin's closure, in textual order -/
inductive Step
  | check (p : Permission)            -- statement `…check_permission(&P)?;` directly in the closure body
  | weakCheck (const : String)        -- a `check_permission` that is not accepted as a guard (no `?`, nested, unknown constant)
  | arg (i : Nat) (raise : Bool)      -- `eval(&args[i], …)?`, wrapped in `xraise!` (an error value is returned at once) or not
  | effect (k : Kind) (tok : String)  -- an effect token (or a call of an effect carrier)
deriving DecidableEq, Repr

structure Site where
  file : String
  line : Nat
  fn : String
  name : String      -- the name the builtin is registered under
  closure : Bool
  steps : List Step
deriving DecidableEq, Repr

/-- which permission (by documented id) covers which effect channel (book/src/interop/permissions.md) -/
def admits (pid : String) (k : Kind) : Bool :=
  match k with
  | .writer => pid == "print" || pid == "print_debug"
  | .clock => pid == "now"
  | .rng => pid == "random"
  | .regex => pid == "regex"
  | .sleep => pid == "sleep"

/-- the permission a builtin registered under this name has to ask for (finer than `admits`:
    `display` needs PRINT, `debug` needs PRINT_DEBUG) -/
def requiredFor (name : String) : Option String :=
  if name == "display" then some "print"
  else if name == "debug" then some "print_debug"
  else if name == "__std_unix_now" then some "now"
  else if name == "regex" then some "regex"
  else if name == "__std_sleep" then some "sleep"
  else if name == "sample" then some "random"
  else none

def okPerm (name : String) (p : Permission) (k : Kind) : Bool :=
  admits p.id k && (match requiredFor name with
                    | some r => p.id == r
                    | none => true)

/-- every effect step is preceded, in the same closure, by a guard for a permission that covers it -/
def guardedSteps (name : String) (held : List Permission) : List Step → Bool
  | [] => true
  | .check p :: r => guardedSteps name (p :: held) r
  | .effect k _ :: r => held.any (fun p => okPerm name p k) && guardedSteps name held r
  | _ :: r => guardedSteps name held r

def siteGuarded (s : Site) : Bool := guardedSteps s.name [] s.steps

def sitesGuarded (T : List Site) : Bool := T.all siteGuarded

/-- the guards of a site -/
def checksOf : List Step → List Permission
  | [] => []
  | .check p :: r => p :: checksOf r
  | _ :: r => checksOf r

/-! ### programs -/

/-- the ways a program reaches effect sites -/
inductive Expr
  | lit                                       -- an effect-free expression
  | bad                                       -- an expression whose value is an error value (`error('e')`)
  | nat (site : Nat) (args : List Expr)       -- call of the builtin with effect-site entry `site`
  | seq (a b : Expr)                          -- `let _ = a; b` / a declaration-time default `a` followed by `b`
  | wrap (args : List Expr) (body : Expr)     -- call of a user function / library wrapper: arguments, then the body
  | thunk (body : Expr) (calls : Nat)         -- closure / callback / lazy element whose body is run `calls` times
deriving Repr

inductive Res
  | val | err | viol (id : String) | stuck
deriving DecidableEq, Repr

def Res.isViol : Res → Bool
  | .viol _ => true
  | _ => false

/-- what is recorded: effects on the injected doubles and every executed guard -/
inductive Entry
  | effect (site : Nat) (k : Kind)
  | guard (site : Nat) (p : Permission) (passed : Bool)
deriving DecidableEq, Repr

abbrev Log := List Entry

/-- evaluate the expressions of a list left to right; only a violation (or running out of fuel) stops it -/
def evalAll (ev : Expr → Log → Res × Log) : List Expr → Log → Res × Log
  | [], l => (.val, l)
  | a :: r, l =>
    match ev a l with
    | (.viol v, l') => (.viol v, l')
    | (.stuck, l') => (.stuck, l')
    | (_, l') => evalAll ev r l'

/-- run a body `n` times -/
def repeatN (ev : Expr → Log → Res × Log) (body : Expr) : Nat → Log → Res × Log
  | 0, l => (.val, l)
  | n + 1, l =>
    match ev body l with
    | (.viol v, l') => (.viol v, l')
    | (.stuck, l') => (.stuck, l')
    | (_, l') => repeatN ev body n l'

/-- execute the closure of an effect site as the table describes it -/
def runSteps (ev : Expr → Log → Res × Log) (P : PermissionSet) (s : Nat) (args : List Expr) :
    List Step → Log → Res × Log
  | [], l => (.val, l)
  | .check p :: r, l =>
    match checkPermission P p with
    | none => runSteps ev P s args r (l ++ [.guard s p true])
    | some id => (.viol id, l ++ [.guard s p false])
  | .weakCheck _ :: r, l => runSteps ev P s args r l
  | .arg i raise :: r, l =>
    match args[i]? with
    | none => runSteps ev P s args r l
    | some a =>
      match ev a l with
      | (.viol v, l') => (.viol v, l')
      | (.stuck, l') => (.stuck, l')
      | (.err, l') => if raise then (.err, l') else runSteps ev P s args r l'
      | (.val, l') => runSteps ev P s args r l'
  | .effect k _ :: r, l => runSteps ev P s args r (l ++ [.effect s k])

def eval (T : List Site) (P : PermissionSet) : Nat → Expr → Log → Res × Log
  | 0, _, l => (.stuck, l)
  | f + 1, e, l =>
    match e with
    | .lit => (.val, l)
    | .bad => (.err, l)
    | .nat s args =>
      match T[s]? with
      | none => (.stuck, l)
      | some site => runSteps (eval T P f) P s args site.steps l
    | .seq a b =>
      match eval T P f a l with
      | (.viol v, l') => (.viol v, l')
      | (.stuck, l') => (.stuck, l')
      | (_, l') => eval T P f b l'
    | .wrap args body =>
      match evalAll (eval T P f) args l with
      | (.viol v, l') => (.viol v, l')
      | (.stuck, l') => (.stuck, l')
      | (_, l') => eval T P f body l'
    | .thunk body n => repeatN (eval T P f) body n l

/- nesting depth: fuel that is enough for `eval` (C11.fuel_suffices) -/
mutual
def Expr.depth : Expr → Nat
  | .lit => 1
  | .bad => 1
  | .nat _ args => 1 + depthList args
  | .seq a b => 1 + max a.depth b.depth
  | .wrap args body => 1 + max (depthList args) body.depth
  | .thunk body _ => 1 + body.depth
def depthList : List Expr → Nat
  | [] => 0
  | a :: r => max a.depth (depthList r)
end

/- every site index used by the program is a row of a table with `n` rows -/
mutual
def Expr.sitesIn (n : Nat) : Expr → Bool
  | .lit => true
  | .bad => true
  | .nat s args => decide (s < n) && sitesInList n args
  | .seq a b => a.sitesIn n && b.sitesIn n
  | .wrap args body => sitesInList n args && body.sitesIn n
  | .thunk body _ => body.sitesIn n
def sitesInList (n : Nat) : List Expr → Bool
  | [] => true
  | a :: r => a.sitesIn n && sitesInList n r
end

/-- number of effect entries of a channel -/
def countKind (k : Kind) (l : Log) : Nat :=
  (l.filter (fun e => match e with
                      | .effect _ k' => k' == k
                      | _ => false)).length

end XrayModel.Perm
