/-
Hand model of the integer functions of the standard library that are written in xray itself
(`src/builtin/include.rs`): `abs`, `sign`, `gcd`, `lcm`, `factorial`, `floor_root`, `ceil_root`, and the part of
`bisect` / `range` / `reduce` they use.  Integers are mathematical `Int` here: the operators these functions call
(`<`, `==`, `-`, `%`, `*`, `**`, `div_floor`) are exact by the theorems of `Props/C14.lean`
(`%` is the floored modulo `Int.fmod`, `div_floor` is `Int.fdiv`).  Recursion gets fuel; `none` = fuel exhausted
(the theorems show it never is).  The text this model was written from is pinned in
`checklib/c14_include_snapshot.json`; the check compares it with the current `include.rs` on every run.
-/
import XrayModel.LazyInt
namespace XrayModel.Lib

/-- result of a library call: a value or an error value -/
abbrev Res := Except String Int

/-- `fn abs(i: int)->int{ if(i < 0, -i, i) }` -/
def abs (i : Int) : Int := if i < 0 then -i else i

/-- `fn sign(a: int)->int{ if(a>0, 1, if(a<0, -1, 0)) }` -/
def sign (a : Int) : Int := if a > 0 then 1 else if a < 0 then -1 else 0

/-- `fn helper(a: int, b: int)->int{ if(a == 0, b, helper(b % a, a)) }` (inside `gcd`) -/
def gcdHelper : Nat → Int → Int → Option Int
  | 0, _, _ => none
  | fuel + 1, a, b => if a = 0 then some b else gcdHelper fuel (Int.fmod b a) a

/-- `fn gcd(a: int, b: int)->int{ … let a = abs(a); let b = abs(b); if(a<b, helper(a,b), helper(b,a)) }` -/
def gcd (a b : Int) : Option Int :=
  let a := abs a
  let b := abs b
  if a < b then gcdHelper (a.toNat + 1) a b else gcdHelper (b.toNat + 1) b a

/-- `fn lcm(a: int, b: int)->int{ let g = gcd(a,b); if(g == 0, 0, div_floor(a.abs(), g)*b.abs()) }` -/
def lcm (a b : Int) : Option Int :=
  match gcd a b with
  | none => none
  | some g => some (if g = 0 then 0 else Int.fdiv (abs a) g * abs b)

/-- the elements of `range(start, end, step)` (sequence.rs `range`): `start, start+step, …` strictly before `end` -/
def rangeList : Nat → Int → Int → Int → List Int
  | 0, _, _, _ => []
  | fuel + 1, cur, stop, step =>
    if (0 < step ∧ cur < stop) ∨ (step < 0 ∧ stop < cur) then cur :: rangeList fuel (cur + step) stop step else []

/-- the argument checks of `range(start, end, step)`: every argument must fit an `i64`, the step must not be zero -/
def rangeGuard (start stop step : Int) : Option String :=
  if !fits start then some "start out of bounds"
  else if !fits stop then some "end out of bounds"
  else if !fits step then some "step out of bounds"
  else if step = 0 then some "invalid range, step size cannot be zero"
  else none

/-- `range(start, end, step)` as a list -/
def range (start stop step : Int) : Except String (List Int) :=
  match rangeGuard start stop step with
  | some e => .error e
  | none => .ok (rangeList ((stop - start).natAbs + 1) start stop step)

/-- `fn factorial(n: int, step: int ?= 1)->int{ if(n < 0, error(…), range(n,0,-step).to_generator().reduce(1, mul{int, int})) }` -/
def factorial (n step : Int) : Res :=
  if n < 0 then .error "cannot get factorial of negative number"
  else match range n 0 (-step) with
    | .error e => .error e
    | .ok xs => .ok (xs.foldl (fun acc x => acc * x) 1)

/-- `bisect`'s `helper(seq, offset)` where `seq` is the slice `lo, lo+1, …, lo+len-1` of a unit-step range
(`seq.skip(k)` / `seq.take(k)` of such a slice are such slices):
```
let mid = floor(seq.len()/2);
let res = if(mid==seq.len(), true, left_predicate(seq[mid]));
if(res, if(mid==seq.len(), offset, helper(seq.skip(mid+1), offset+mid+1)), helper(seq.take(mid), offset))
```
The predicate may be an error (`**` with a negative exponent), which propagates. -/
def bisectHelper (p : Int → Except String Bool) : Nat → Int → Nat → Int → Option Res
  | 0, _, _, _ => none
  | fuel + 1, lo, len, offset =>
    let mid := len / 2
    let res : Except String Bool := if mid = len then .ok true else p (lo + mid)
    match res with
    | .error e => some (.error e)
    | .ok true =>
      if mid = len then some (.ok offset)
      else bisectHelper p fuel (lo + mid + 1) (len - (mid + 1)) (offset + mid + 1)
    | .ok false => bisectHelper p fuel lo mid offset

/-- `x ** b` of the language on `Int` (guards of `int.rs` `pow`) -/
def pow (x b : Int) : Res :=
  if b < 0 then .error "cannot raise integer to a negative power"
  else if b = 0 ∧ x = 0 then .error "cannot raise zero to a zero power"
  else .ok (x ^ b.toNat)

/-- the predicate `(x:int)->{x**b <= a}` of `floor_root` -/
def rootPred (a b x : Int) : Except String Bool :=
  match pow x b with
  | .ok v => .ok (decide (v ≤ a))
  | .error e => .error e

/-- `fn floor_root(a: int, b: int ?= 2)->int{ if(a<0, error(…), range(1, a+1).bisect((x:int)->{x**b <= a})) }` -/
def floorRoot (a b : Int) : Option Res :=
  if a < 0 then some (.error "a must be non-negative")
  else match rangeGuard 1 (a + 1) 1 with
    | some e => some (.error e)
    | none =>   -- the sequence `range(1, a+1)` is the slice `1 … a` (never materialised)
      bisectHelper (rootPred a b) (a.toNat + 1) 1 a.toNat 0

/-- `fn ceil_root(a: int, b: int ?= 2)->int{ if(a==0, 0, 1+floor_root(a-1, b)) }` -/
def ceilRoot (a b : Int) : Option Res :=
  if a = 0 then some (.ok 0)
  else match floorRoot (a - 1) b with
    | none => none
    | some (.error e) => some (.error e)
    | some (.ok r) => some (.ok (1 + r))

end XrayModel.Lib
