/-
Model of `src/builtin/mapping.rs` (`XMapping`) and `src/builtin/set.rs` (`XSet`), arm for arm, and of the
mapping / set helpers written in xray in `src/builtin/include.rs` (`/// Mapping 1`, `/// Set 1`,
`/// Mapping 2`, `/// Set 2`).

* `std::collections::HashMap<u64, Bucket>` is an association list keyed by the hash with unique keys
  (`bget` / `binsert` / `bremove`; trusted, DESIGN.md §3).  Its iteration order is unspecified in Rust; in
  the model it is the list order, and no theorem depends on it.
* the user-supplied `hash_func` / `eq_func` are parameters `hash : K → Res Int`, `eq : K → K → Res Bool`;
  they may return error values, which propagate exactly as `forward_err!` / `xraise!` do.
* a Rust panic (`unwrap` on `None`, slice index out of range, `usize` underflow in the dev profile,
  `unreachable!`) is the outcome `Err.panic`, never totalised away.  `Props/C17.lean` proves that no
  operation reaches one.
* not modelled: `rt.can_allocate(..)` pre-flights and `RuntimeViolation`s (the tie runs without limits),
  `usize` overflow of `len + 1`.
* a set is a table whose values are `Unit` (`XSet`'s bucket is `Vec<key>`); the set code is a textual twin
  of the mapping code (`locate`, the removal tail) and shares those definitions here, its own
  `with_update` is modelled separately (`sWithUpdate`).  The tie runs both copies.
-/
namespace XrayModel.HM

inductive Err where
  /-- an xray error value with its message -/
  | err (msg : String)
  /-- a Rust panic -/
  | panic (what : String)
  deriving Repr, DecidableEq, Inhabited

abbrev Res := Except Err

abbrev Bucket (K V : Type) := List (K × V)

/-- `XMapping { inner, len, .. }` (mapping.rs:53-58), `XSet` (set.rs:56-61) with `V = Unit` -/
structure Table (K V : Type) where
  buckets : List (Nat × Bucket K V)
  len : Nat
  deriving Repr

/-! ### `HashMap<u64, β>` -/

/-- `HashMap::get` -/
def bget {β : Type} : List (Nat × β) → Nat → Option β
  | [], _ => none
  | (h', b) :: rest, h => if h' = h then some b else bget rest h

/-- `HashMap::insert` (replace the value of an existing key, else add the key) -/
def binsert {β : Type} : List (Nat × β) → Nat → β → List (Nat × β)
  | [], h, b => [(h, b)]
  | (h', b') :: rest, h, b => if h' = h then (h, b) :: rest else (h', b') :: binsert rest h b

/-- `iter().filter(|(k, _)| k != &&hash_key)` collected into a new map -/
def bremove {β : Type} : List (Nat × β) → Nat → List (Nat × β)
  | [], _ => []
  | (h', b') :: rest, h => if h' = h then bremove rest h else (h', b') :: bremove rest h

/-- `LazyBigint::to_u64` -/
def toU64 (x : Int) : Option Nat :=
  if 0 ≤ x ∧ x < 18446744073709551616 then some x.toNat else none

/-- `KeyLocation` (mapping.rs:61-65, set.rs:48-52) -/
inductive Loc where
  | missing (h : Nat)
  | vacant (h : Nat)
  | found (h : Nat) (i : Nat)
  deriving Repr, DecidableEq

def empty {K V : Type} : Table K V := { buckets := [], len := 0 }

section ops
variable {K V : Type} (hash : K → Res Int) (eq : K → K → Res Bool)

/-- the loop of `locate` (mapping.rs:130-144): index of the first stored key with `eq(key, k)` true;
an error of `eq` is forwarded -/
def scan (key : K) : Bucket K V → Res (Option Nat)
  | [] => .ok none
  | (k, _) :: rest =>
    match eq key k with
    | .error e => .error e
    | .ok true => .ok (some 0)
    | .ok false =>
      match scan key rest with
      | .error e => .error e
      | .ok none => .ok none
      | .ok (some i) => .ok (some (i + 1))

/-- `locate` (mapping.rs:115-146, set.rs:109-140) -/
def locate (t : Table K V) (key : K) : Res Loc :=
  match hash key with
  | .error e => .error e
  | .ok raw =>
    match toU64 raw with
    | none => .error (.err "hash is out of bounds")
    | some h =>
      match bget t.buckets h with
      | none => .ok (.vacant h)
      | some b =>
        match scan eq key b with
        | .error e => .error e
        | .ok (some i) => .ok (.found h i)
        | .ok none => .ok (.missing h)

/-- `get` (mapping.rs:148): `&self.inner[&h][i].1` -/
def getAt (t : Table K V) (h i : Nat) : Res V :=
  match bget t.buckets h with
  | none => .error (.panic "HashMap index: key not found")
  | some b =>
    match b[i]? with
    | none => .error (.panic "index out of bounds")
    | some (_, v) => .ok v

/-- `try_put_located` (mapping.rs:152-181) -/
def tryPutLocated (t : Table K V) (k : K) (loc : Loc) (onEmpty : Unit → Res V) (onFound : V → Res V) :
    Res (Table K V) :=
  match loc with
  | .found h idx =>
    match bget t.buckets h with
    | none => .error (.panic "unwrap on None")
    | some b =>
      match b[idx]? with
      | none => .error (.panic "index out of bounds")
      | some (k0, prev) =>
        match onFound prev with
        | .error e => .error e
        | .ok v => .ok { buckets := binsert t.buckets h (b.set idx (k0, v)), len := t.len }
  | .missing h =>
    match onEmpty () with
    | .error e => .error e
    | .ok v =>
      match bget t.buckets h with
      | none => .error (.panic "unwrap on None")
      | some b => .ok { buckets := binsert t.buckets h (b ++ [(k, v)]), len := t.len + 1 }
  | .vacant h =>
    match onEmpty () with
    | .error e => .error e
    | .ok v =>
      -- `entry(h).or_insert(vec![(k, v)])` keeps an existing bucket; `bucket.last().unwrap()`
      match bget t.buckets h with
      | some [] => .error (.panic "unwrap on None")
      | some (_ :: _) => .ok { buckets := t.buckets, len := t.len + 1 }
      | none => .ok { buckets := binsert t.buckets h [(k, v)], len := t.len + 1 }

/-- `put_located` (mapping.rs:183-191) -/
def putLocated (t : Table K V) (k : K) (loc : Loc) (onEmpty : Unit → V) (onFound : V → V) : Res (Table K V) :=
  tryPutLocated t k loc (fun u => .ok (onEmpty u)) (fun v => .ok (onFound v))

/-- `put` (mapping.rs:193-203) -/
def put (t : Table K V) (k : K) (onEmpty : Unit → V) (onFound : V → V) : Res (Table K V) :=
  match locate hash eq t k with
  | .error e => .error e
  | .ok loc => putLocated t k loc onEmpty onFound

/-- `try_put` (mapping.rs:205-215) -/
def tryPut (t : Table K V) (k : K) (onEmpty : Unit → Res V) (onFound : V → Res V) : Res (Table K V) :=
  match locate hash eq t k with
  | .error e => .error e
  | .ok loc => tryPutLocated t k loc onEmpty onFound

/-- `with_update` (mapping.rs:92-113): the items come from a generator and may be error values -/
def withUpdate (t : Table K V) : List (Res (K × V)) → Res (Table K V)
  | [] => .ok t
  | item :: rest =>
    match item with
    | .error e => .error e
    | .ok (k, v) =>
      match put hash eq t k (fun _ => v) (fun _ => v) with
      | .error e => .error e
      | .ok t' => withUpdate t' rest

/-- `iter` (mapping.rs:217, set.rs:142): all stored entries, bucket by bucket -/
def toList (t : Table K V) : List (K × V) := t.buckets.flatMap (·.2)

/-! ### the builtins of mapping.rs -/

/-- `clear` (mapping.rs:272, set.rs:347): the same value when `len == 0`, else a fresh table -/
def clear (t : Table K V) : Table K V := if t.len = 0 then t else empty

/-- `set` (mapping.rs:300) -/
def set (t : Table K V) (k : K) (v : V) : Res (Table K V) := withUpdate hash eq t [.ok (k, v)]

/-- `set_default` (mapping.rs:320): the value argument is evaluated only when the key is absent -/
def setDefault (t : Table K V) (k : K) (v : Unit → Res V) : Res (Table K V) :=
  match locate hash eq t k with
  | .error e => .error e
  | .ok loc =>
    match loc with
    | .found _ _ => .ok t
    | _ =>
      match v () with
      | .error e => .error e
      | .ok a2 => tryPutLocated t k loc (fun _ => .ok a2) (fun _ => .error (.panic "unreachable"))

/-- `update` (mapping.rs:346) -/
def update (t : Table K V) (items : List (Res (K × V))) : Res (Table K V) := withUpdate hash eq t items

/-- `update_from_keys` (mapping.rs:380) -/
def updateFromKeys (onEmpty : K → Res V) (onOccupied : K → V → Res V) (t : Table K V) :
    List (Res K) → Res (Table K V)
  | [] => .ok t
  | item :: rest =>
    match item with
    | .error e => .error e
    | .ok k =>
      match tryPut hash eq t k (fun _ => onEmpty k) (fun v => onOccupied k v) with
      | .error e => .error e
      | .ok t' => updateFromKeys onEmpty onOccupied t' rest

/-- `lookup` (mapping.rs:452) -/
def lookup (t : Table K V) (k : K) : Res (Option V) :=
  match locate hash eq t k with
  | .error e => .error e
  | .ok (.found h i) =>
    match getAt t h i with
    | .error e => .error e
    | .ok v => .ok (some v)
  | .ok _ => .ok none

/-- `get` with a default (mapping.rs:478); the default is evaluated only when the key is absent -/
def get3 (t : Table K V) (k : K) (dflt : Unit → Res V) : Res V :=
  match locate hash eq t k with
  | .error e => .error e
  | .ok (.found h i) => getAt t h i
  | .ok _ => dflt ()

/-- the common tail of `pop` / `discard` (mapping.rs:557-564, 588-595; set.rs:304-311, 335-342), after the
repair: the bucket that becomes empty is dropped, not kept -/
def removeAt (t : Table K V) (h idx : Nat) : Res (Table K V) :=
  if t.len = 0 then .error (.panic "attempt to subtract with overflow")
  else
    match bget t.buckets h with
    | none => .error (.panic "HashMap index: key not found")
    | some old =>
      let nd := bremove t.buckets h
      .ok { buckets := if old.length > 1 then binsert nd h (old.take idx ++ old.drop (idx + 1)) else nd,
            len := t.len - 1 }

/-- `pop` (mapping.rs:538), set `remove` (set.rs:285) with the message "item not found" -/
def popMsg (msg : String) (t : Table K V) (k : K) : Res (Table K V) :=
  if t.len = 0 then .error (.err msg)
  else
    match locate hash eq t k with
    | .error e => .error e
    | .ok (.found h i) => removeAt t h i
    | .ok _ => .error (.err msg)

def pop (t : Table K V) (k : K) : Res (Table K V) := popMsg hash eq "key not found" t k

/-- `discard` (mapping.rs:569, set.rs:316) -/
def discard (t : Table K V) (k : K) : Res (Table K V) :=
  if t.len = 0 then .ok t
  else
    match locate hash eq t k with
    | .error e => .error e
    | .ok (.found h i) => removeAt t h i
    | .ok _ => .ok t

/-! ### xor-folding hashes (mapping.rs:600-645, set.rs:375-397) -/

def U64 : Nat := 18446744073709551616

/-- bitwise xor of two naturals (core `Nat.xor`) -/
def xor64 (a b : Nat) : Nat := a ^^^ b

/-- the xor of the value hashes of a bucket, folded into `acc` -/
def hashBucketValues (vhash : V → Res Int) : Bucket K V → Nat → Res Nat
  | [], acc => .ok acc
  | (_, v) :: rest, acc =>
    match vhash v with
    | .error e => .error e
    | .ok x =>
      match toU64 x with
      | none => .error (.err "hash out of bounds")
      | some f => hashBucketValues vhash rest (xor64 acc f)

/-- mapping `hash` (dyn): for every bucket `ret ^= hash.wrapping_add(bucket.len())`, then the value hashes -/
def dynHashGo (vhash : V → Res Int) : List (Nat × Bucket K V) → Nat → Res Nat
  | [], acc => .ok acc
  | (h, b) :: rest, acc =>
    match hashBucketValues vhash b (xor64 acc ((h + b.length) % U64)) with
    | .error e => .error e
    | .ok acc' => dynHashGo vhash rest acc'

def dynHash (vhash : V → Res Int) (t : Table K V) : Res Nat := dynHashGo vhash t.buckets 0

/-- set `hash` (set.rs:375) -/
def sHash (t : Table K V) : Nat :=
  t.buckets.foldl (fun acc hb => xor64 acc ((hb.1 + hb.2.length) % U64)) 0

/-! ### mapping `==` (dyn, mapping.rs:647-708) -/

def dynEqGo (veq : V → V → Res Bool) (m1 : Table K V) : List (K × V) → Res Bool
  | [] => .ok true
  | (k, v) :: rest =>
    match locate hash eq m1 k with
    | .error e => .error e
    | .ok (.found h i) =>
      match getAt m1 h i with
      | .error e => .error e
      | .ok other =>
        match veq v other with
        | .error e => .error e
        | .ok false => .ok false
        | .ok true => dynEqGo veq m1 rest
    | .ok _ => .ok false

/-- `m0 == m1`: keys of `m0` are located in `m1` with `m1`'s functions (here both use `hash`, `eq`) -/
def dynEq (veq : V → V → Res Bool) (m0 m1 : Table K V) : Res Bool :=
  if m0.len ≠ m1.len then .ok false else dynEqGo hash eq veq m1 (toList m0)

/-! ### mapping helpers written in xray (include.rs `/// Mapping 1`, `/// Mapping 2`) -/

/-- `contains(m, k) = m.lookup(k).has_value()` -/
def contains (t : Table K V) (k : K) : Res Bool :=
  match lookup hash eq t k with
  | .error e => .error e
  | .ok o => .ok o.isSome

/-- `get(m, k) = m.lookup(k).value("key not found")` -/
def get2 (t : Table K V) (k : K) : Res V :=
  match lookup hash eq t k with
  | .error e => .error e
  | .ok (some v) => .ok v
  | .ok none => .error (.err "key not found")

/-- `keys(m)` / `values(m)` -/
def keys (t : Table K V) : List K := (toList t).map (·.1)
def values (t : Table K V) : List V := (toList t).map (·.2)

/-- `update(m, s: Mapping)` = `m.update(s.to_generator())` -/
def updateFromMapping (t s : Table K V) : Res (Table K V) :=
  update hash eq t ((toList s).map .ok)

/-- `map_values(m, f)` = `m.clear().update_from_keys(m.keys(), k -> f(m[k]), (k, v) -> error("unreachable"))` -/
def mapValues {W : Type} (f : V → Res W) (t : Table K V) : Res (Table K W) :=
  let cleared : Table K W := if t.len = 0 then { buckets := t.buckets.map (fun hb => (hb.1, [])), len := t.len } else empty
  updateFromKeys hash eq
    (fun k => match get2 hash eq t k with | .error e => .error e | .ok v => f v)
    (fun _ _ => .error (.err "unreachable")) cleared ((keys t).map .ok)

/-- `update_counter(m, g)` = `m.update_from_keys(g, _ -> 1, (_, v) -> v + 1)` -/
def updateCounter (t : Table K Int) (ks : List (Res K)) : Res (Table K Int) :=
  updateFromKeys hash eq (fun _ => .ok 1) (fun _ v => .ok (v + 1)) t ks

/-! ### sets (set.rs) -/

/-- `XSet::with_update` (set.rs:78-107) -/
def sWithUpdate (t : Table K Unit) : List (Res K) → Res (Table K Unit)
  | [] => .ok t
  | item :: rest =>
    match item with
    | .error e => .error e
    | .ok k =>
      match locate hash eq t k with
      | .error e => .error e
      | .ok loc =>
        match loc with
        | .found _ _ => sWithUpdate t rest
        | .missing h =>
          match bget t.buckets h with
          | none => .error (.panic "unwrap on None")
          | some b => sWithUpdate { buckets := binsert t.buckets h (b ++ [(k, ())]), len := t.len + 1 } rest
        | .vacant h => sWithUpdate { buckets := binsert t.buckets h [(k, ())], len := t.len + 1 } rest

def sAdd (t : Table K Unit) (k : K) : Res (Table K Unit) := sWithUpdate hash eq t [.ok k]
def sUpdate (t : Table K Unit) (ks : List (Res K)) : Res (Table K Unit) := sWithUpdate hash eq t ks

/-- `contains` (set.rs:230) -/
def sContains (t : Table K Unit) (k : K) : Res Bool :=
  match locate hash eq t k with
  | .error e => .error e
  | .ok (.found _ _) => .ok true
  | .ok _ => .ok false

def sRemove (t : Table K Unit) (k : K) : Res (Table K Unit) := popMsg hash eq "item not found" t k
def sDiscard (t : Table K Unit) (k : K) : Res (Table K Unit) := discard hash eq t k
def sToList (t : Table K Unit) : List K := (toList t).map (·.1)

/-! ### set algebra written in xray (include.rs `/// Set 1`, `/// Set 2`) -/

/-- generator `filter` (generators.rs:208): an erroring predicate yields the error as an item -/
def filterRes (p : K → Res Bool) : List K → List (Res K)
  | [] => []
  | k :: rest =>
    match p k with
    | .error e => .error e :: filterRes p rest
    | .ok true => .ok k :: filterRes p rest
    | .ok false => filterRes p rest

/-- generator `all(f)` = `!g.nth(0, t -> !f(t)).has_value()`: stops at the first `false`; an error of `f`
before that is the result -/
def allRes (p : K → Res Bool) : List K → Res Bool
  | [] => .ok true
  | k :: rest =>
    match p k with
    | .error e => .error e
    | .ok false => .ok false
    | .ok true => allRes p rest

/-- `__std_xset_order_by_cardinality` -/
def orderByCard (a b : Table K Unit) : Table K Unit × Table K Unit :=
  if a.len < b.len then (a, b) else (b, a)

/-- `bit_and` -/
def bitAnd (a b : Table K Unit) : Res (Table K Unit) :=
  let ord := orderByCard a b
  sUpdate hash eq (clear a) (filterRes (fun i => sContains hash eq ord.2 i) (sToList ord.1))

/-- `bit_or` -/
def bitOr (a b : Table K Unit) : Res (Table K Unit) :=
  sUpdate hash eq a ((sToList b).map .ok)

/-- `sub` -/
def sSub (a b : Table K Unit) : Res (Table K Unit) :=
  sUpdate hash eq (clear a)
    (filterRes (fun i => match sContains hash eq b i with | .error e => .error e | .ok c => .ok (!c)) (sToList a))

/-- `bit_xor` = `(a - b) | (b - a)` -/
def bitXor (a b : Table K Unit) : Res (Table K Unit) :=
  match sSub hash eq a b with
  | .error e => .error e
  | .ok x =>
    match sSub hash eq b a with
    | .error e => .error e
    | .ok y => bitOr hash eq x y

/-- `eq` on sets -/
def sEq (a b : Table K Unit) : Res Bool :=
  let ord := orderByCard a b
  if a.len = b.len then allRes (fun x => sContains hash eq ord.2 x) (sToList ord.1) else .ok false

/-- `ge(b, a)`: `a.len() <= b.len() && a.all(x -> b.contains(x))` -/
def sGe (b a : Table K Unit) : Res Bool :=
  if a.len ≤ b.len then allRes (fun x => sContains hash eq b x) (sToList a) else .ok false

/-- `gt(b, a)` -/
def sGt (b a : Table K Unit) : Res Bool :=
  if a.len < b.len then allRes (fun x => sContains hash eq b x) (sToList a) else .ok false

def sLe (a b : Table K Unit) : Res Bool := sGe hash eq b a
def sLt (a b : Table K Unit) : Res Bool := sGt hash eq b a

/-- `is_disjoint` -/
def isDisjoint (a b : Table K Unit) : Res Bool :=
  let ord := orderByCard a b
  allRes (fun x => match sContains hash eq ord.2 x with | .error e => .error e | .ok c => .ok (!c)) (sToList ord.1)

/-! ### the reference returned by `try_put_located` and its reader `with_count` (generators.rs `WithCount`) -/

/-- `try_put_located` (mapping.rs:152-181) together with the `&V` it returns: the value just written —
`&spot.1` of the slot found, or the last entry of the bucket for a new key.  (`tryPutLocated` above is the
table part alone; `tryPutLocatedRet_fst` in the proofs shows they agree.) -/
def tryPutLocatedRet (t : Table K V) (k : K) (loc : Loc) (onEmpty : Unit → Res V) (onFound : V → Res V) :
    Res (Table K V × V) :=
  match loc with
  | .found h idx =>
    match bget t.buckets h with
    | none => .error (.panic "unwrap on None")
    | some b =>
      match b[idx]? with
      | none => .error (.panic "index out of bounds")
      | some (k0, prev) =>
        match onFound prev with
        | .error e => .error e
        | .ok v =>
          let b' := b.set idx (k0, v)
          -- `&spot.1` where `spot = &mut bucket[idx]`
          match b'[idx]? with
          | none => .error (.panic "index out of bounds")
          | some (_, r) => .ok ({ buckets := binsert t.buckets h b', len := t.len }, r)
  | .missing h =>
    match onEmpty () with
    | .error e => .error e
    | .ok v =>
      match bget t.buckets h with
      | none => .error (.panic "unwrap on None")
      | some b =>
        let b' := b ++ [(k, v)]
        match b'.getLast? with
        | none => .error (.panic "unwrap on None")
        | some (_, r) => .ok ({ buckets := binsert t.buckets h b', len := t.len + 1 }, r)
  | .vacant h =>
    match onEmpty () with
    | .error e => .error e
    | .ok v =>
      match bget t.buckets h with
      | some [] => .error (.panic "unwrap on None")
      | some (x :: xs) =>
        match (x :: xs).getLast? with
        | none => .error (.panic "unwrap on None")
        | some (_, r) => .ok ({ buckets := t.buckets, len := t.len + 1 }, r)
      | none => .ok ({ buckets := binsert t.buckets h [(k, v)], len := t.len + 1 }, v)

/-- `put` with the returned reference -/
def putRet (t : Table K V) (k : K) (onEmpty : Unit → V) (onFound : V → V) : Res (Table K V × V) :=
  match locate hash eq t k with
  | .error e => .error e
  | .ok loc => tryPutLocatedRet t k loc (fun u => .ok (onEmpty u)) (fun v => .ok (onFound v))

end ops

section consumers
variable {K : Type} (hash : K → Res Int) (eq : K → K → Res Bool)

/-- the `WithCount` arm of `XGenerator::_iter` (generators.rs:322-339): a private counter mapping; every
element is `put` with `|| 1` / `|v| v + 1` and paired with the value the put returns; an erroring element,
hash or eq is yielded as an error item and leaves the counter alone -/
def withCount (counter : Table K Nat) : List (Res K) → List (Res (K × Nat))
  | [] => []
  | item :: rest =>
    match item with
    | .error e => .error e :: withCount counter rest
    | .ok i =>
      match putRet hash eq counter i (fun _ => 1) (fun v => v + 1) with
      | .error e => .error e :: withCount counter rest
      | .ok (counter', v) => .ok (i, v) :: withCount counter' rest

/-- `distinct(g, h, e)` (include.rs) = `g.with_count(h,e).filter(i -> i::item1 == 1).map(i -> i::item0)`;
error items pass through `filter` and `map` -/
def distinct (items : List (Res K)) : List (Res K) :=
  (withCount hash eq empty items).filterMap fun r =>
    match r with
    | .error e => some (.error e)
    | .ok (k, c) => if c = 1 then some (.ok k) else none

end consumers

end XrayModel.HM
