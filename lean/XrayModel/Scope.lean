/-
Compile-time scopes of the xray compiler: the model behind the structural half of C03.

Mirror of `src/compilation_scope.rs` (+ the scope handling of `src/parser.rs`) for a small declaration
language — nested `fn` declarations with parameters (optionally with defaults) and a recursion cell,
`let`s, lambdas, `forward fn` declarations, identifier uses, calls, tuples:

* `Cell` / cell specs: `Variable` (also parameters), `Recourse`, `Capture{ancestor_depth, cell_idx}`
  (:29-42, :69-79); cells are only ever appended (`IPush`, `src/util/ipush.rs`);
* a scope: cells, `variables` (name → cell; a later `insert` overwrites), `functions` (name → cells of
  its overloads), `forwards`, `forward_requirements`, the recursion name, `height` (:138-160).  The parent
  link is the tail of the scope chain `cur :: parents` (the parents are immutably borrowed while a child
  scope is alive, so only the head of a chain ever changes);
* `getItem` (:603-652), `requireForwards` (:520-538), the `Ident` arm of `compile` (:752-790) and
  `prepare_return` (:1104-1132) — both create a `Capture{height difference, cell}` when the item lives in
  an ancestor —, `add_variable` / `add_parameter` / `add_recourse` / `add_static_func` /
  `add_anonymous_func` / `add_forward_func`, `into_static_ud`'s re-threading (:540-601);
* `parser.rs` `feed` for `Rule::value`, `Rule::function`, `Rule::forward_ref` and `parse_expr` for
  `Rule::lambda_func`: an expression is first *parsed* (every lambda in it is compiled on the spot: its
  defaults in the enclosing scope, its body in a sub-scope that is then closed with `into_static_ud`, the
  parent's capture requests pushed) and then *compiled* (arguments before the callee);
* the run-time reading of a capture (`runtime_scope.rs` `from_spec` :63-96 + `scope_ancestor_and_cell`
  :466-473, and `type_of`'s loop, `compilation_scope.rs` :1036-1052): `resolve`.

Calls of library functions (names no user scope declares) are outside the model: they compile to
`XE.bcall` and contribute no cell (the tie projects the library's cells away).  Overload resolution by
argument types is C05's subject; here a name with more than one candidate is `Err.ambiguous`.

The model follows the *repaired* code (the transitive gate `unfulfilled_behind` of fix 78a2146, also on the host side; three `fix:` commits of C03: the forward gate also covers a
function used as a value in its own scope, lambdas, and the requirements of a fulfilling definition).
-/
namespace XrayModel.Scope

inductive Cell where
  | var
  | recur
  | cap (depth idx : Nat)
  deriving DecidableEq, Repr, Inhabited

/-- `ForwardRefRequirement` (:60-64) -/
structure FwdReq where
  height : Nat
  ref : Nat
  deriving DecidableEq, Repr

/-- `ForwardRef` (:131-136); the spec is not modelled (one signature per name) -/
structure FwdRef where
  name : String
  cell : Nat
  fulfilled : Bool
  deriving Repr

/-- literals (`LiteralInt` / `LiteralBool` / `LiteralString`) -/
inductive Lit where
  | int (n : Int)
  | bool (b : Bool)
  | str (s : String)
  deriving DecidableEq, Repr

/-! ### source language -/
mutual
  inductive SExpr where
    | lit (v : Lit)
    | ident (x : String)
    | call (f : SExpr) (args : List SExpr)
    | tup (es : List SExpr)
    | arr (es : List SExpr)
    | member (e : SExpr) (i : Nat)
    | lam (f : SFunc)
  inductive SParam where
    | mk (name : String) (dflt : Option SExpr)
  inductive SDecl where
    | letD (x : String) (e : SExpr)
    | fnD (name : String) (f : SFunc)
    | fwdD (name : String)
  inductive SFunc where
    | mk (params : List SParam) (decls : List SDecl) (out : SExpr)
end

/-! ### target: `XStaticExpr` (after parsing: identifiers, lambdas already compiled) and `XExpr`
(after compiling: `val`), `Declaration`, `StaticUserFunction` -/
mutual
  inductive XE where
    | lit (v : Lit)
    | ident (x : String)
    | lamF (f : CFunc)
    | val (i : Nat)
    | call (f : XE) (args : List XE)
    | bcall (name : String) (args : List XE)
    | tup (es : List XE)
    | arr (es : List XE)
    | member (e : XE) (i : Nat)
  inductive CDecl where
    | param (cell arg : Nat)
    | value (cell : Nat) (e : XE)
    | func (cell : Nat) (f : CFunc)
  inductive CFunc where
    | mk (paramLen : Nat) (cells : List Cell) (defaults : List XE) (decls : List CDecl) (out : XE)
        (freqs : List FwdReq)
end

def CFunc.cells : CFunc → List Cell | .mk _ c _ _ _ _ => c
def CFunc.freqs : CFunc → List FwdReq | .mk _ _ _ _ _ f => f
def CFunc.decls : CFunc → List CDecl | .mk _ _ _ d _ _ => d
def CFunc.paramLen : CFunc → Nat | .mk n _ _ _ _ _ => n
def CFunc.defaults : CFunc → List XE | .mk _ _ d _ _ _ => d
def CFunc.out : CFunc → XE | .mk _ _ _ _ o _ => o

structure Scope where
  cells : List Cell := []
  /-- the `forward_requirements` of the Variable cells that have any (cell ↦ requirements; first entry wins) -/
  reqs : List (Nat × List FwdReq) := []
  /-- `variables`, newest binding first -/
  vars : List (String × Nat) := []
  /-- `functions`: (name, cell of a static overload), oldest first -/
  funcs : List (String × Nat) := []
  forwards : List FwdRef := []
  fwdReqs : List FwdReq := []
  recName : Option String := none
  height : Nat := 0
  decls : List CDecl := []

inductive Err where
  | valueNotFound (x : String)
  | overloadedAsVariable (x : String)
  | ambiguous (x : String)
  | illegalShadowing (x : String)
  | missingForward (x : String)
  | panic (why : String)
  | fuel
  deriving Repr, DecidableEq

def lookup (x : String) : List (String × Nat) → Option Nat
  | [] => none
  | (y, k) :: rest => if x = y then some k else lookup x rest

def lookupReqs (k : Nat) : List (Nat × List FwdReq) → List FwdReq
  | [] => []
  | (j, r) :: rest => if k = j then r else lookupReqs k rest

def Scope.cellReqs (s : Scope) (k : Nat) : List FwdReq := lookupReqs k s.reqs

def Scope.hasVariable (s : Scope) (x : String) : Bool := (lookup x s.vars).isSome

def overloadCells (x : String) : List (String × Nat) → List Nat
  | [] => []
  | (y, k) :: rest => if x = y then k :: overloadCells x rest else overloadCells x rest

def Scope.hasOverloads (s : Scope) (x : String) : Bool := !(overloadCells x s.funcs).isEmpty

/-- `cells.ipush(c)`: appended at the end, the index is the old length -/
def Scope.push (s : Scope) (c : Cell) : Scope := { s with cells := s.cells ++ [c] }

/-- `forward_ref` (:515-518): the forward declaration a requirement names, seen from the head of `chain` -/
def forwardRef (chain : List Scope) (r : FwdReq) : Except Err FwdRef :=
  match chain with
  | [] => .error (.panic "forward_ref: no scope")
  | cur :: _ =>
    if cur.height < r.height then .error (.panic "forward_ref: height underflow")
    else match chain[cur.height - r.height]? with
      | none => .error (.panic "forward_ref: ancestor_at_depth unwrap")
      | some a => match a.forwards[r.ref]? with
        | none => .error (.panic "forward_ref: index")
        | some f => .ok f

/-- the recursion filter's test (:676-680): is any of the requirements an unfulfilled forward declaration of the
scope the function being defined is declared in (the parent of the body scope `chain.head`) -/
def anyUnfulfilled (chain : List Scope) : List FwdReq → Except Err Bool
  | [] => .ok false
  | r :: rest =>
    match forwardRef chain r with
    | .error e => .error e
    | .ok f =>
      if !f.fulfilled && (match chain with | cur :: _ => r.height + 1 == cur.height | [] => false) then .ok true
      else anyUnfulfilled chain rest

/-- one step of `unfulfilled_behind` (:538-559) at the requirement `r`, seen from the head of `chain`: is the forward
function fulfilled, and the requirements recorded on its cell in the scope that owns it (`owner.cells`) -/
def behindStep (chain : List Scope) (r : FwdReq) : Except Err (Bool × List FwdReq) :=
  match chain with
  | [] => .error (.panic "unfulfilled_behind: no scope")
  | cur :: _ =>
    if cur.height < r.height then .error (.panic "unfulfilled_behind: height underflow")
    else match chain[cur.height - r.height]? with
      | none => .error (.panic "unfulfilled_behind: ancestor_at_depth unwrap")
      | some owner => match owner.forwards[r.ref]? with
        | none => .error (.panic "unfulfilled_behind: index")
        | some f =>
          .ok (f.fulfilled, match owner.cells[f.cell]? with
                            | some .var => owner.cellReqs f.cell
                            | _ => [])

/-- enough iterations for the loop below: every forward declaration is expanded at most once and pushes at most the
requirements recorded in its owner's scope -/
def gateFuel (chain : List Scope) : Nat :=
  let f := (chain.map (fun s => s.forwards.length)).sum
  let r := (chain.map (fun s => (s.reqs.map (fun e => e.2.length)).sum)).sum
  2 + (f + 1) * (r + 2)

/-- the loop of `unfulfilled_behind`: `pending` is a stack (head = top), `seen` the set of visited requirements; the
unfulfilled forward functions are collected in the order they are met -/
def unfulfilledBehindAux : Nat → List Scope → List FwdReq → List FwdReq → Except Err (List FwdReq)
  | 0, _, _, _ => .error .fuel
  | _ + 1, _, [], _ => .ok []
  | n + 1, chain, r :: pending, seen =>
    if r ∈ seen then unfulfilledBehindAux n chain pending seen
    else match behindStep chain r with
      | .error e => .error e
      | .ok (false, _) => (unfulfilledBehindAux n chain pending (r :: seen)).map (fun l => r :: l)
      | .ok (true, more) => unfulfilledBehindAux n chain (more.reverse ++ pending) (r :: seen)

/-- `unfulfilled_behind`: the unfulfilled forward functions behind a requirement — the forward function itself or, once
it is implemented, every one its implementation (transitively) depends on -/
def unfulfilledBehind (chain : List Scope) (r : FwdReq) : Except Err (List FwdReq) :=
  unfulfilledBehindAux (gateFuel chain) chain [r] []

/-- a candidate: (height of the declaring scope, cell, forward requirements) -/
abbrev Cand := Nat × Nat × List FwdReq

inductive Item where
  | value (c : Cand)
  | overloads (cs : List Cand)

/-- `OverloadWithForwardReq::from_overload` (:109-128) for the cells of one name -/
def candsOf (s : Scope) : List Nat → Except Err (List Cand)
  | [] => .ok []
  | k :: rest =>
    match s.cells[k]? with
    | some .var => (candsOf s rest).map (fun r => (s.height, k, s.cellReqs k) :: r)
    | some .recur => (candsOf s rest).map (fun r => (s.height, k, []) :: r)
    | _ => .error (.panic "from_overload: not a Variable/Recourse cell")

/-- the recursion filter of `get_item` (:622-642): drop the parents' overloads that still wait for a
forward declaration (the function being defined fulfils it) -/
def dropUnfulfilled (chain : List Scope) : List Cand → Except Err (List Cand)
  | [] => .ok []
  | c :: rest =>
    match anyUnfulfilled chain c.2.2 with
    | .error e => .error e
    | .ok true => dropUnfulfilled chain rest
    | .ok false => (dropUnfulfilled chain rest).map (fun r => c :: r)

/-- `get_item` (:603-652) on the chain `cur :: parents` (types are not modelled) -/
def getItem : List Scope → String → Except Err (Option Item)
  | [], _ => .ok none
  | s :: ps, x =>
    match lookup x s.vars with
    | some k =>
      match s.cells[k]? with
      | some .var => .ok (some (.value (s.height, k, s.cellReqs k)))
      | _ => .error (.panic "get_item: unreachable (variable cell)")
    | none =>
      match overloadCells x s.funcs with
      | [] => getItem ps x
      | k :: ks =>
        match candsOf s (k :: ks) with
        | .error e => .error e
        | .ok mine =>
          match getItem ps x with
          | .error e => .error e
          | .ok (some (.overloads po)) =>
            if s.recName = some x then
              match dropUnfulfilled (s :: ps) po with
              | .error e => .error e
              | .ok kept => .ok (some (.overloads (mine ++ kept)))
            else .ok (some (.overloads (mine ++ po)))
          | .ok _ => .ok (some (.overloads mine))

/-- the inner loop of `require_forwards`: an unfulfilled function of this scope is the error, the others are recorded -/
def recordMissing (ps : List Scope) (cur : Scope) : List FwdReq → Except Err Scope
  | [] => .ok cur
  | m :: rest =>
    if m.height = cur.height then
      match forwardRef (cur :: ps) m with
      | .error e => .error e
      | .ok f => .error (.missingForward f.name)
    else recordMissing ps
      { cur with fwdReqs := if m ∈ cur.fwdReqs then cur.fwdReqs else cur.fwdReqs ++ [m] } rest

/-- `require_forwards` -/
def requireForwards (ps : List Scope) (cur : Scope) : List FwdReq → Except Err Scope
  | [] => .ok cur
  | r :: rest =>
    match unfulfilledBehind (cur :: ps) r with
    | .error e => .error e
    | .ok ms =>
      match recordMissing ps cur ms with
      | .error e => .error e
      | .ok cur1 => requireForwards ps cur1 rest

/-- the common tail of the `Ident` arm (:779-789) and of `prepare_return` (:1108-1119): the forward gate,
then the cell itself (same scope) or a new `Capture{height difference, cell}` -/
def useCand (ps : List Scope) (cur : Scope) (c : Cand) : Except Err (XE × Scope) :=
  match requireForwards ps cur c.2.2 with
  | .error e => .error e
  | .ok cur' =>
    if c.1 = cur'.height then .ok (.val c.2.1, cur')
    else .ok (.val cur'.cells.length, cur'.push (.cap (cur'.height - c.1) c.2.1))

/-- `compile` of `XStaticExpr::Ident` (:752-790) -/
def compileIdent (ps : List Scope) (cur : Scope) (x : String) : Except Err (XE × Scope) :=
  match getItem (cur :: ps) x with
  | .error e => .error e
  | .ok none => .error (.valueNotFound x)
  | .ok (some (.value c)) => useCand ps cur c
  | .ok (some (.overloads [c])) => useCand ps cur c
  | .ok (some (.overloads _)) => .error (.overloadedAsVariable x)

/-- `add_variable` (:344-372) -/
def addVariable (cur : Scope) (x : String) (e : XE) : Except Err Scope :=
  if cur.hasOverloads x then .error (.illegalShadowing x)
  else .ok { cur with
    cells := cur.cells ++ [.var], vars := (x, cur.cells.length) :: cur.vars,
    decls := cur.decls ++ [.value cur.cells.length e] }

/-- `add_parameter` (:374-404) -/
def addParameter (cur : Scope) (x : String) (argIdx : Nat) : Except Err Scope :=
  if cur.hasOverloads x then .error (.illegalShadowing x)
  else .ok { cur with
    cells := cur.cells ++ [.var], vars := (x, cur.cells.length) :: cur.vars,
    decls := cur.decls ++ [.param cur.cells.length argIdx] }

/-- `add_recourse` (:219-241) -/
def addRecourse (cur : Scope) (x : String) : Except Err Scope :=
  if cur.hasVariable x then .error (.illegalShadowing x)
  else .ok { cur with
    cells := cur.cells ++ [.recur], funcs := cur.funcs ++ [(x, cur.cells.length)], recName := some x }

def fulfil (x : String) : List FwdRef → Option (Nat × List FwdRef)
  | [] => none
  | f :: rest =>
    if !f.fulfilled && f.name = x then some (f.cell, { f with fulfilled := true } :: rest)
    else (fulfil x rest).map (fun (k, r) => (k, f :: r))

def unionReqs (a : List FwdReq) : List FwdReq → List FwdReq
  | [] => a
  | r :: rest => if r ∈ a then unionReqs a rest else unionReqs (a ++ [r]) rest

/-- `add_static_func` (:243-295) for a user function: fulfils a pending forward declaration of the
name (the cell keeps its requirements and gains the definition's), or allocates a new cell that carries
the function's forward requirements -/
def addStaticFunc (cur : Scope) (x : String) (f : CFunc) : Except Err Scope :=
  if cur.hasVariable x then .error (.illegalShadowing x)
  else match fulfil x cur.forwards with
    | some (k, fw) =>
      .ok { cur with forwards := fw, reqs := (k, unionReqs (cur.cellReqs k) f.freqs) :: cur.reqs,
                     decls := cur.decls ++ [.func k f] }
    | none =>
      .ok { cur with
        cells := cur.cells ++ [.var], reqs := (cur.cells.length, f.freqs) :: cur.reqs,
        funcs := cur.funcs ++ [(x, cur.cells.length)], decls := cur.decls ++ [.func cur.cells.length f] }

/-- `add_anonymous_func` (:297-309) -/
def addAnonymousFunc (cur : Scope) (f : CFunc) : XE × Scope :=
  (.val cur.cells.length,
   { cur with cells := cur.cells ++ [.var], decls := cur.decls ++ [.func cur.cells.length f] })

/-- `add_forward_func` (:474-513) -/
def addForwardFunc (cur : Scope) (x : String) : Except Err Scope :=
  if cur.hasVariable x then .error (.illegalShadowing x)
  else .ok { cur with
    cells := cur.cells ++ [.var],
    reqs := (cur.cells.length, [{ height := cur.height, ref := cur.forwards.length }]) :: cur.reqs,
    forwards := cur.forwards ++ [{ name := x, cell := cur.cells.length, fulfilled := false }],
    funcs := cur.funcs ++ [(x, cur.cells.length)] }

/-- the loop of `into_static_ud` (:561-584): a capture deeper than one level becomes `Capture{1, n}` where
`n` is the index the request `Capture{depth-1, cell}` will get in the parent (`parent_new_cell_idx`) -/
def threadCells : List Cell → Nat → List Cell × List Cell
  | [], _ => ([], [])
  | .cap d k :: rest, n =>
    if d > 1 then
      let r := threadCells rest (n + 1)
      (.cap 1 n :: r.1, .cap (d - 1) k :: r.2)
    else
      let r := threadCells rest n
      (.cap d k :: r.1, r.2)
  | c :: rest, n =>
    let r := threadCells rest n
    (c :: r.1, r.2)

/-- `into_static_ud` (:540-601) of a scope that has a parent with `parentLen` cells -/
def intoStaticUd (s : Scope) (defaults : List XE) (paramLen : Nat) (out : XE) (parentLen : Nat) :
    CFunc × List Cell :=
  let r := threadCells s.cells parentLen
  (.mk paramLen r.1 defaults s.decls out s.fwdReqs, r.2)

/-- `from_parent_lambda` (:187-201): a fresh scope one level up, the parameters first -/
def addParams (s : Scope) : List String → Nat → Except Err Scope
  | [], _ => .ok s
  | x :: rest, i =>
    match addParameter s x i with
    | .error e => .error e
    | .ok s' => addParams s' rest (i + 1)

def fromParentLambda (parent : Scope) (names : List String) : Except Err Scope :=
  addParams { height := parent.height + 1 } names 0

/-- `from_parent` (:203-217) -/
def fromParent (parent : Scope) (names : List String) (recName : String) : Except Err Scope :=
  match fromParentLambda parent names with
  | .error e => .error e
  | .ok s => addRecourse s recName

def SParam.name : SParam → String | .mk n _ => n

mutual
  /-- `parse_expr` (parser.rs :510-879): builds the static expression; a lambda is compiled on the spot -/
  def parseExpr (fuel : Nat) (ps : List Scope) (cur : Scope) (e : SExpr) : Except Err (XE × Scope) :=
    match fuel with
    | 0 => .error .fuel
    | fuel + 1 =>
      match e with
      | .lit v => .ok (.lit v, cur)
      | .ident x => .ok (.ident x, cur)
      | .call f args =>
        match parseExpr fuel ps cur f with
        | .error e => .error e
        | .ok (f', cur1) =>
          match parseList fuel ps cur1 args with
          | .error e => .error e
          | .ok (args', cur2) => .ok (.call f' args', cur2)
      | .tup es =>
        match parseList fuel ps cur es with
        | .error e => .error e
        | .ok (es', cur1) => .ok (.tup es', cur1)
      | .arr es =>
        match parseList fuel ps cur es with
        | .error e => .error e
        | .ok (es', cur1) => .ok (.arr es', cur1)
      | .member e i =>
        match parseExpr fuel ps cur e with
        | .error e => .error e
        | .ok (e', cur1) => .ok (.member e' i, cur1)
      | .lam f =>
        match closeFunc fuel ps cur none f with
        | .error e => .error e
        | .ok (cf, cur1) => .ok (.lamF cf, cur1)

  def parseList (fuel : Nat) (ps : List Scope) (cur : Scope) (es : List SExpr) : Except Err (List XE × Scope) :=
    match fuel with
    | 0 => .error .fuel
    | fuel + 1 =>
      match es with
      | [] => .ok ([], cur)
      | e :: rest =>
        match parseExpr fuel ps cur e with
        | .error e => .error e
        | .ok (e', cur1) =>
          match parseList fuel ps cur1 rest with
          | .error e => .error e
          | .ok (rest', cur2) => .ok (e' :: rest', cur2)

  /-- `parse_param_specs` (:881-924): the default expressions are parsed in the enclosing scope -/
  def parseDefaults (fuel : Nat) (ps : List Scope) (cur : Scope) (params : List SParam) : Except Err (List XE × Scope) :=
    match fuel with
    | 0 => .error .fuel
    | fuel + 1 =>
      match params with
      | [] => .ok ([], cur)
      | .mk _ none :: rest => parseDefaults fuel ps cur rest
      | .mk _ (some d) :: rest =>
        match parseExpr fuel ps cur d with
        | .error e => .error e
        | .ok (d', cur1) =>
          match parseDefaults fuel ps cur1 rest with
          | .error e => .error e
          | .ok (rest', cur2) => .ok (d' :: rest', cur2)

  /-- `compile` (:666-913) of a static expression; arguments before the callee -/
  def compileExpr (fuel : Nat) (ps : List Scope) (cur : Scope) (e : XE) : Except Err (XE × Scope) :=
    match fuel with
    | 0 => .error .fuel
    | fuel + 1 =>
      match e with
      | .lit v => .ok (.lit v, cur)
      | .val _ => .error (.panic "compile: not a static expression")
      | .bcall _ _ => .error (.panic "compile: not a static expression")
      | .ident x => compileIdent ps cur x
      | .lamF f =>
        match requireForwards ps cur f.freqs with
        | .error e => .error e
        | .ok cur1 => .ok (addAnonymousFunc cur1 f)
      | .tup es =>
        match compileList fuel ps cur es with
        | .error e => .error e
        | .ok (es', cur1) => .ok (.tup es', cur1)
      | .arr es =>
        match compileList fuel ps cur es with
        | .error e => .error e
        | .ok (es', cur1) => .ok (.arr es', cur1)
      | .member e i =>
        match compileExpr fuel ps cur e with
        | .error e => .error e
        | .ok (e', cur1) => .ok (.member e' i, cur1)
      | .call f args =>
        match compileList fuel ps cur args with
        | .error e => .error e
        | .ok (args', cur1) =>
          let general : Except Err (XE × Scope) :=
            match compileExpr fuel ps cur1 f with
            | .error e => .error e
            | .ok (f', cur2) => .ok (.call f' args', cur2)
          match f with
          | .ident x =>
            match getItem (cur1 :: ps) x with
            | .error e => .error e
            | .ok none => .ok (.bcall x args', cur1)
            | .ok (some (.overloads [c])) =>
              match useCand ps cur1 c with
              | .error e => .error e
              | .ok (f', cur2) => .ok (.call f' args', cur2)
            | .ok (some (.overloads _)) => .error (.ambiguous x)
            | .ok (some (.value _)) => general
          | _ => general

  def compileList (fuel : Nat) (ps : List Scope) (cur : Scope) (es : List XE) : Except Err (List XE × Scope) :=
    match fuel with
    | 0 => .error .fuel
    | fuel + 1 =>
      match es with
      | [] => .ok ([], cur)
      | e :: rest =>
        match compileExpr fuel ps cur e with
        | .error e => .error e
        | .ok (e', cur1) =>
          match compileList fuel ps cur1 rest with
          | .error e => .error e
          | .ok (rest', cur2) => .ok (e' :: rest', cur2)

  /-- a function or lambda, from its header to `into_static_ud` (parser.rs :234-288, :808-869): defaults
  parsed and compiled in the enclosing scope `cur`; the body in a sub-scope; the sub-scope closed and the
  parent's capture requests pushed into `cur` -/
  def closeFunc (fuel : Nat) (ps : List Scope) (cur : Scope) (recName : Option String) (f : SFunc) :
      Except Err (CFunc × Scope) :=
    match fuel with
    | 0 => .error .fuel
    | fuel + 1 =>
      match f with
      | .mk params decls out =>
        match parseDefaults fuel ps cur params with
        | .error e => .error e
        | .ok (ds, cur1) =>
          match compileList fuel ps cur1 ds with
          | .error e => .error e
          | .ok (defaults, cur2) =>
            let names := params.map SParam.name
            match (match recName with
                   | some r => fromParent cur2 names r
                   | none => fromParentLambda cur2 names) with
            | .error e => .error e
            | .ok sub =>
              match feedDecls fuel (cur2 :: ps) sub decls with
              | .error e => .error e
              | .ok sub1 =>
                match parseExpr fuel (cur2 :: ps) sub1 out with
                | .error e => .error e
                | .ok (o, sub2) =>
                  match compileExpr fuel (cur2 :: ps) sub2 o with
                  | .error e => .error e
                  | .ok (o', sub3) =>
                    let r := intoStaticUd sub3 defaults params.length o' cur2.cells.length
                    .ok (r.1, { cur2 with cells := cur2.cells ++ r.2 })

  /-- `feed` (parser.rs :169-355) for `Rule::value`, `Rule::function`, `Rule::forward_ref` -/
  def feedDecls (fuel : Nat) (ps : List Scope) (cur : Scope) (ds : List SDecl) : Except Err Scope :=
    match fuel with
    | 0 => .error .fuel
    | fuel + 1 =>
      match ds with
      | [] => .ok cur
      | .letD x e :: rest =>
        match parseExpr fuel ps cur e with
        | .error e => .error e
        | .ok (p, cur1) =>
          match compileExpr fuel ps cur1 p with
          | .error e => .error e
          | .ok (c, cur2) =>
            match addVariable cur2 x c with
            | .error e => .error e
            | .ok cur3 => feedDecls fuel ps cur3 rest
      | .fnD name f :: rest =>
        match closeFunc fuel ps cur (some name) f with
        | .error e => .error e
        | .ok (cf, cur1) =>
          match addStaticFunc cur1 name cf with
          | .error e => .error e
          | .ok cur2 => feedDecls fuel ps cur2 rest
      | .fwdD name :: rest =>
        match addForwardFunc cur name with
        | .error e => .error e
        | .ok cur1 => feedDecls fuel ps cur1 rest
end

/-- a whole program, compiled into an empty root scope -/
def compileProgram (fuel : Nat) (ds : List SDecl) : Except Err Scope :=
  feedDecls fuel [] {} ds

/-! ### reading a capture: at run time (`from_spec` + `scope_ancestor_and_cell`: a `Capture{d, k}` of a
function reads cell `k` of the scope `d` levels up, which may again be a capture) and at compile time
(`type_of`'s loop).  `chain` = the cell lists of a scope and its ancestors, innermost first.  The result
is the (distance, cell) of the Variable/Recourse cell the chain ends in. -/
def resolve : Nat → List (List Cell) → Nat → Option (Nat × Nat)
  | 0, _, _ => none
  | _ + 1, [], _ => none
  | fuel + 1, cs :: rest, i =>
    match cs[i]? with
    | none => none
    | some .var => some (0, i)
    | some .recur => some (0, i)
    | some (.cap d k) =>
      if d = 0 then none
      else match resolve fuel (rest.drop (d - 1)) k with
        | none => none
        | some (d', k') => some (d + d', k')

/-- the host-side gate (`root_runtime_scope.rs` :92-140, `get_user_defined_function`) -/
inductive HostGet where
  | notFound
  | overloaded
  | forwardRef (unmet : List String)
  | ok (cell : Nat)
  | panic
  deriving Repr, DecidableEq

def namesOf (root : Scope) : List FwdReq → Option (List String)
  | [] => some []
  | m :: rest =>
    match forwardRef [root] m with
    | .error _ => none
    | .ok f => (namesOf root rest).map (fun l => f.name :: l)

def unmetNames (root : Scope) : List FwdReq → Option (List String)
  | [] => some []
  | r :: rest =>
    match unfulfilledBehind [root] r with
    | .error _ => none
    | .ok ms =>
      match namesOf root ms, unmetNames root rest with
      | some a, some b => some (a ++ b)
      | _, _ => none

def hostGet (root : Scope) (x : String) : HostGet :=
  match overloadCells x root.funcs with
  | [] => .notFound
  | [k] =>
    match unmetNames root (root.cellReqs k) with
    | none => .panic
    | some [] => .ok k
    | some l => .forwardRef l
  | _ => .overloaded

end XrayModel.Scope
