/-
Text conversion of integers, over `List Char`.

* `natToStr r n`         : `format!("{n}")`, `{:b}`, `{:o}`, `{:x}` of an unsigned value resp.
                           `BigUint::to_str_radix(r)` (lower-case digits, no leading zeros, "0" for zero)
* `LB.toStr`             : `impl Display for LazyBigint` (the `to_str` builtin, int.rs `add_int_to_str`)
* `LB.magnitudeToStr`    : `LazyBigint::magnitude_to_str` (lazy_bigint.rs:109)
* `parseI128`            : `i128::from_str_radix` (core::num, checked loop; the unchecked fast path computes the same)
* `parseBig`             : `BigInt::from_str_radix` of num-bigint 0.4.3 on a text without `_`
* `LB.fromStrRadix`      : `LazyBigint::from_str_radix` (lazy_bigint.rs:78)
* `IntB.toInt`           : the `to_int(str, base)` builtin (str.rs `add_str_to_int`)
* `IntB.format`          : the int `format` builtin (int.rs `add_int_format`) on a *parsed* format spec
                           (`XFormatting`; the regex that parses the spec text is not modelled)
-/
import XrayModel.LazyInt
import XrayModel.IntBuiltins
namespace XrayModel

def I128_MIN : Int := -170141183460469231731687303715884105728
def I128_MAX : Int := 170141183460469231731687303715884105727

/-- digit `d < 36` as a lower-case character -/
def digitChar (d : Nat) : Char := if d < 10 then Char.ofNat (48 + d) else Char.ofNat (87 + d)

/-- digits of `n` in base `r`, most significant first, prepended to `acc`; fuel `n` suffices for `r ≥ 2` -/
def natDigitsAux : Nat → Nat → Nat → List Nat → List Nat
  | 0, _, _, acc => acc
  | fuel + 1, r, n, acc => if n = 0 then acc else natDigitsAux fuel r (n / r) (n % r :: acc)

def natDigits (r n : Nat) : List Nat := if n = 0 then [0] else natDigitsAux n r n []

def natToStr (r n : Nat) : List Char := (natDigits r n).map digitChar

/-- value of an ASCII digit or letter (both cases), as in `char::to_digit` -/
def charVal (c : Char) : Option Nat :=
  let v := c.toNat
  if 48 ≤ v ∧ v ≤ 57 then some (v - 48)
  else if 97 ≤ v ∧ v ≤ 122 then some (v - 87)
  else if 65 ≤ v ∧ v ≤ 90 then some (v - 55)
  else none

/-- `char::to_digit(radix)` -/
def charDigit (c : Char) (radix : Nat) : Option Nat :=
  match charVal c with
  | some d => if d < radix then some d else none
  | none => none

inductive ParseI128 where
  | ok (v : Int)
  | empty
  | invalid
  | posOverflow
  | negOverflow
  deriving Repr, DecidableEq, Inhabited

/-- the checked loop of `from_ascii_radix` (`neg` = accumulate with `checked_sub`) -/
def i128Loop (neg : Bool) (radix : Nat) : List Char → Int → ParseI128
  | [], acc => .ok acc
  | c :: rest, acc =>
    let mul := acc * radix
    match charDigit c radix with
    | none => .invalid
    | some x =>
      if mul < I128_MIN ∨ I128_MAX < mul then (if neg then .negOverflow else .posOverflow)
      else
        let r := if neg then mul - x else mul + x
        if r < I128_MIN ∨ I128_MAX < r then (if neg then .negOverflow else .posOverflow)
        else i128Loop neg radix rest r

/-- `i128::from_str_radix` -/
def parseI128 (s : List Char) (radix : Nat) : ParseI128 :=
  match s with
  | [] => .empty
  | c :: rest =>
    if c = '+' ∨ c = '-' then
      if rest = [] then .invalid else i128Loop (c == '-') radix rest 0
    else i128Loop false radix s 0

/-- digit values of `BigUint::from_str_radix` (byte classes `0-9`, `a-z`, `A-Z`, then `d < radix`; `_` never
reaches this point, see `fromStrRadix`) -/
def bigDigit (c : Char) (radix : Nat) : Option Nat :=
  let v := c.toNat
  let d : Option Nat :=
    if 48 ≤ v ∧ v ≤ 57 then some (v - 48)
    else if 97 ≤ v ∧ v ≤ 122 then some (v - 97 + 10)
    else if 65 ≤ v ∧ v ≤ 90 then some (v - 65 + 10)
    else none
  match d with
  | some d => if d < radix then some d else none
  | none => none

/-- a leading `+` is dropped unless another `+` follows -/
def stripPlus : List Char → List Char
  | '+' :: tail => (match tail with | '+' :: _ => '+' :: tail | _ => tail)
  | s => s

/-- `BigUint::from_str_radix`: optional `+` (not followed by another `+`), at least one digit -/
def parseBigU (s : List Char) (radix : Nat) : Option Nat :=
  let s := stripPlus s
  if s = [] then none
  else match s.mapM (fun c => bigDigit c radix) with
    | none => none
    | some ds => some (ds.foldl (fun a d => a * radix + d) 0)

/-- after a leading `-`: the tail, unless it starts with `+` (then the whole text is kept, and fails) -/
def afterMinus (s tail : List Char) : List Char :=
  match tail with
  | '+' :: _ => s
  | _ => tail

/-- `BigInt::from_str_radix`: optional `-` (kept when followed by `+`, which then fails) -/
def parseBig (s : List Char) (radix : Nat) : Option Int :=
  match s with
  | '-' :: tail => (parseBigU (afterMinus s tail) radix).map (fun n => -(Int.ofNat n))
  | _ => (parseBigU s radix).map Int.ofNat

/-- sign and magnitude in base `r` -/
def toStrRadix (v : Int) (r : Nat) : List Char :=
  (if v < 0 then ['-'] else []) ++ natToStr r v.natAbs

namespace LB

/-- `impl Display` -/
def toStr (a : LB) : List Char := toStrRadix a.den 10

/-- `magnitude_to_str` (:109): `Short` supports the four format radices only (`panic!()` otherwise),
`Long` is `BigUint::to_str_radix`, which asserts `2 ≤ radix ≤ 36` -/
def magnitudeToStr (a : LB) (radix : Nat) : Except String (List Char) :=
  match a with
  | short s =>
    if radix = 2 ∨ radix = 8 ∨ radix = 10 ∨ radix = 16 then .ok (natToStr radix s.natAbs)
    else .error "panic:magnitude_to_str"
  | long b =>
    if 2 ≤ radix ∧ radix ≤ 36 then .ok (natToStr radix b.natAbs) else .error "panic:to_str_radix"

/-- `LazyBigint::from_str_radix` (:78); `none` = an error (`Err(Left _)` / `Err(Right _)`) -/
def fromStrRadix (s : List Char) (radix : Nat) : Option LB :=
  match parseI128 s radix with
  | .ok v => some (ofInt v)
  | .posOverflow | .negOverflow =>
    if s.contains '_' then none
    else (parseBig s radix).map ofInt
  | _ => none

end LB

inductive XS where
  | str (s : List Char)
  | int (v : LB)
  | err (msg : String)
  | panic (why : String)
  deriving Repr, DecidableEq, Inhabited

namespace IntB

/-- `to_str(int)` -/
def toStr (a : LB) : XS := .str (LB.toStr a)

/-- `to_int(str, base)` (str.rs:338) -/
def toInt (s : List Char) (base : LB) : XS :=
  if LB.cmp base (LB.short 1) != .gt then .err "base must be larger than 1"
  else if LB.cmp base (LB.short 36) == .gt then .err "base must be lower than 36"
  else match LB.fromStrRadix s base.den.toNat with
    | some v => .int v
    | none => .err "parse error"

inductive Align where | left | center | right | rightWithSign
  deriving Repr, DecidableEq, Inhabited
inductive SignMode where | positive | negative | whitespace
  deriving Repr, DecidableEq, Inhabited

/-- `XFormatting` (util/xformatter.rs), already parsed.  `width = none` ⇒ no `fill_specs` at all. -/
structure FmtSpec where
  fill : Option Char := none
  align : Option Align := none
  sign : Option SignMode := none
  alt : Bool := false
  zeroPad : Bool := false
  width : Option Nat := none
  grouping : Option Char := none
  precision : Bool := false
  ty : Option Char := none
  deriving Repr, DecidableEq, Inhabited

/-- chunks of three from the right (`rchunks(3).rev()`) -/
def rchunks3 (s : List Char) : List (List Char) :=
  let rec go : Nat → List Char → List (List Char) → List (List Char)
    | 0, _, acc => acc
    | fuel + 1, rev, acc =>
      match rev with
      | [] => acc
      | a :: b :: c :: rest => go fuel rest ([c, b, a] :: acc)
      | [a, b] => [b, a] :: acc
      | [a] => [a] :: acc
  go (s.length + 1) s.reverse []

/-- `group_str` -/
def groupStr (s : List Char) (g : Char) : List Char :=
  match rchunks3 s with
  | [] => []
  | c :: cs => c ++ (cs.map (fun x => g :: x)).flatten

/-- `add_int_format` (int.rs) on a parsed spec -/
def format (a : LB) (sp : FmtSpec) : XS :=
  if sp.precision then .err "int cannot be formatted with precision"
  else
    let radix : Option Nat := match sp.ty with
      | none => some 10
      | some 'x' | some 'X' => some 16
      | some 'o' | some 'O' => some 8
      | some 'b' | some 'B' => some 2
      | some _ => none
    match radix with
    | none => .err "unrecognized int type"
    | some radix =>
      match LB.magnitudeToStr a radix with
      | .error e => .panic e
      | .ok s =>
        let body := match sp.grouping with | some g => groupStr s g | none => s
        let signParts : List Char :=
          if LB.isNegative a then ['-']
          else match sp.sign with
            | some .positive => ['+']
            | some .whitespace => [' ']
            | _ => []
        let signParts? : Option (List Char) :=
          if sp.alt then (match sp.ty with | some t => some (signParts ++ ['0', t]) | none => none)
          else some signParts
        match signParts? with
        | none => .err "missing type for alt"
        | some signParts =>
          let cur := body.length + signParts.length
          let (prefix_, infix_, postfix_) : List Char × List Char × List Char :=
            match sp.width with
            | none => ([], [], [])
            | some w =>
              if w < cur then ([], [], [])
              else
                let pad := w - cur
                let fc : Char := match sp.fill with | some c => c | none => if sp.zeroPad then '0' else ' '
                let al : Align := match sp.align with
                  | some al => al
                  | none => if sp.zeroPad then .rightWithSign else .right
                match al with
                | .left => ([], [], List.replicate pad fc)
                | .right => (List.replicate pad fc, [], [])
                | .rightWithSign => ([], List.replicate pad fc, [])
                | .center => (List.replicate (pad / 2) fc, [], List.replicate (pad - pad / 2) fc)
          .str (prefix_ ++ signParts ++ infix_ ++ body ++ postfix_)

end IntB
end XrayModel
