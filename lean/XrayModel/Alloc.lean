/-
C09 — model of the size accounting of a runtime.

* `St`: the accounted total (`RuntimeStats.size`, `runtime.rs:68`) and the configured `size_limit`.
* `allocate` mirrors `Runtime::allocate` (`runtime.rs:165-189`): no limit ⇒ nothing is recorded (`Ok(0)`);
  otherwise **add, then check**; on failure the violation `AllocationLimitReached` is returned and — in the repaired
  code — the bytes are given back first.  Whether the code rolls back is *read from the source* by
  `/verif/translate/size_uses.py` (`Generated.SizeLimitUses.allocShape`), so the theorems that need the roll-back stop
  elaborating if it disappears.
* `deallocate` mirrors `Runtime::deallocate` (`:191-195`): subtract the recorded size if it is non-zero; `usize`
  underflow is a panic in the dev profile and is modelled as such.
* `canAllocate` mirrors `can_allocate_by` (`:115-126`): the prospective size is added with `saturating_add`, so a
  request near `usize::MAX` is an allocation violation, not an overflow.
* `Ev`/`step`/`run`: an evaluation as the trace of `ManagedXValue::new` / `ManagedXError::new` (alloc), last-reference
  drops and pre-flight checks it performs.  `Rc`'s "dropped exactly once" is the `live` map: a drop of something that is
  not live does nothing.  A failed allocation creates no value (`xvalue.rs:173-180`), so nothing is recorded for it.
* `Val.size`: `XValue::size` (`xvalue.rs:127-139`) over value shapes, with the platform's `size_of` constants as parameters.
-/
namespace XrayModel.Alloc

/-- what the translator reads off `fn allocate` -/
structure AllocShape where
  recognised : Bool        -- the function still has the modelled text (add, then check, …)
  rollsBack : Bool         -- `stats.size -= size` before `Err(AllocationLimitReached)`
deriving DecidableEq, Repr

structure St where
  size : Nat
  limit : Option Nat
deriving DecidableEq, Repr

inductive Out
  | ok (recorded : Nat)
  | violation
  | panic
deriving DecidableEq, Repr

def usizeBound : Nat := 2 ^ 64

/-- `Runtime::allocate` for a value of `bytes` bytes -/
def allocate (sh : AllocShape) (s : St) (bytes : Nat) : St × Out :=
  match s.limit with
  | none => (s, .ok 0)
  | some L =>
    if s.size + bytes > L then
      (if sh.rollsBack then s else { s with size := s.size + bytes }, .violation)
    else
      ({ s with size := s.size + bytes }, .ok bytes)

/-- `Runtime::deallocate` -/
def deallocate (s : St) (recorded : Nat) : St × Out :=
  if recorded = 0 then (s, .ok 0)
  else if recorded ≤ s.size then ({ s with size := s.size - recorded }, .ok 0)
  else (s, .panic)

/-- `Runtime::can_allocate(n)` -/
def canAllocate (s : St) (n : Nat) : Out :=
  match s.limit with
  | none => .ok 0
  | some L =>
    if min (s.size + n) (usizeBound - 1) > L then .violation
    else .ok 0

inductive Ev
  | alloc (id : Nat) (bytes : Nat)
  | drop (id : Nat)
  | preflight (n : Nat)
deriving DecidableEq, Repr

structure Run where
  st : St
  live : List (Nat × Nat)       -- id ↦ recorded size of every live managed value
  viols : Nat                   -- violations returned so far
  underflows : Nat              -- `usize` underflow panics in `deallocate`
deriving DecidableEq, Repr

def eraseId (id : Nat) : List (Nat × Nat) → List (Nat × Nat)
  | [] => []
  | (i, r) :: t => if i = id then t else (i, r) :: eraseId id t

def step (sh : AllocShape) (r : Run) : Ev → Run
  | .alloc id bytes =>
    match allocate sh r.st bytes with
    | (s', .ok rec) => { r with st := s', live := (id, rec) :: r.live }
    | (s', .violation) => { r with st := s', viols := r.viols + 1 }
    | (s', .panic) => { r with st := s' }
  | .drop id =>
    match r.live.lookup id with
    | none => r
    | some rec =>
      match deallocate r.st rec with
      | (s', .panic) => { r with st := s', live := eraseId id r.live, underflows := r.underflows + 1 }
      | (s', _) => { r with st := s', live := eraseId id r.live }
  | .preflight n =>
    match canAllocate r.st n with
    | .ok _ => r
    | .violation => { r with viols := r.viols + 1 }
    | .panic => r

def run (sh : AllocShape) (r : Run) (evs : List Ev) : Run := evs.foldl (step sh) r

/-- a runtime whose accounted total is `base` (0 for a fresh one) and that holds no value yet -/
def startAt (base : Nat) (limit : Option Nat) : Run :=
  { st := { size := base, limit := limit }, live := [], viols := 0, underflows := 0 }

def fresh (limit : Option Nat) : Run := { st := { size := 0, limit := limit }, live := [], viols := 0, underflows := 0 }

def liveSum (l : List (Nat × Nat)) : Nat := (l.map (·.2)).sum

/-! ### the size of values (`XValue::size`) -/

/-- `size_of` constants of the platform (reported by the harness) -/
structure Consts where
  xvalue : Nat
  bigint : Nat
  fencedString : Nat
  usize : Nat
  rc : Nat            -- `size_of::<Rc<ManagedXValue>>()`
  vec : Nat           -- `size_of::<Vec<_>>()` (a bucket header)

/-- value shapes as far as `XValue::size` looks at them -/
inductive Val
  | intShort
  | intLong (digits64 : Nat)                       -- number of 64-bit digits of the magnitude
  | float
  | bool
  | string (bytes : Nat) (charStarts : Nat)        -- buffer length; entries of the char-start table (0 for ASCII)
  | userFunction (cells : Nat)
  | nativeFunction
  | structInstance (fields : Nat)
  | unionInstance
  | native (staticSize dynSize : Nat)
deriving DecidableEq, Repr

def Val.size (c : Consts) : Val → Nat
  | .intShort => c.xvalue
  | .intLong d => c.xvalue + (c.bigint + d * 8)
  | .string b cs => c.xvalue + (c.fencedString + b + cs * c.usize)
  | .userFunction cells => c.xvalue + (c.usize + cells * c.usize)
  | .structInstance n => c.xvalue + n * c.usize
  | .native st dyn => c.xvalue + (c.usize + (st + dyn))
  | _ => c.xvalue

/-- the bytes a value occupies beyond its own enum cell -/
def Val.payload (c : Consts) : Val → Nat
  | .intLong d => d * 8
  | .string b cs => b + cs * c.usize
  | .userFunction cells => cells * c.usize
  | .structInstance n => n * c.usize
  | .native _ dyn => dyn
  | _ => 0

/-! ### the dynamic part of native containers (`XNativeValue::dyn_size`) -/

/-- native container shapes as far as their `dyn_size` impls look at them
    (`sequence.rs:581-593`, `stack.rs:120-137`, `mapping.rs:225-231`, `set.rs:147-151`, `generators.rs:97-106`,
    `optional.rs:45-49`) -/
inductive Native
  | seqArray (n : Nat)                  -- `XSequence::Array`: n element pointers
  | seqZip (n : Nat)                    -- `XSequence::Zip` of n sequences
  | seqChain (parts : Nat)              -- `XSequence::Chain`: parts pointers + (parts - 1) midpoints
  | seqOther                            -- every lazy variant (range, map, filter, …): 0
  | stack (owned : Nat) (reachesEnd : Bool)   -- nodes from the head that nobody else references; did the walk reach the end
  | mapping (buckets len : Nat)         -- `XMapping` with `Rc` values: bucket headers + key pointers + value pointers
  | set (buckets len : Nat)
  | genZip (n : Nat)
  | genChain (n : Nat)
  | genOther
  | optional
deriving DecidableEq, Repr

def Native.dynSize (c : Consts) : Native → Nat
  | .seqArray n => n * c.rc
  | .seqZip n => n * c.rc
  | .seqChain parts => parts * c.rc + (parts - 1) * c.usize
  | .seqOther => 0
  | .stack owned reachesEnd => ((owned + if reachesEnd then 1 else 0) + 1) * c.rc
  | .mapping buckets len => buckets * c.vec + len * c.rc + len * c.rc
  | .set buckets len => (len + buckets + 2) * c.rc
  | .genZip n => n * c.rc
  | .genChain n => n * c.rc
  | .genOther => 0
  | .optional => 0

/-- the value pointers the container itself holds (its payload in machine words) -/
def Native.entries : Native → Nat
  | .seqArray n => n
  | .seqZip n => n
  | .seqChain parts => parts
  | .stack owned _ => owned
  | .mapping _ len => 2 * len
  | .set _ len => len
  | .genZip n => n
  | .genChain n => n
  | _ => 0

/-! ### reads of the limit (`Generated.SizeLimitUses`) -/

/-- the syntactic form of a use of the bound limit variable -/
inductive UseForm
  | sizeGt            -- `usize::from(stats.size) > L`
  | sizePlusGt        -- `usize::from(stat.size) + n > L`
  | sizeSatPlusGt     -- `usize::from(stat.size).saturating_add(n) > L`
  | other (text : String)
deriving DecidableEq, Repr

structure LimitUse where
  file : String
  line : Nat
  fn : String
  form : UseForm
deriving DecidableEq, Repr

def LimitUse.monotone (u : LimitUse) : Bool :=
  match u.form with
  | .sizeGt => true
  | .sizePlusGt => true
  | .sizeSatPlusGt => true
  | .other _ => false

/-- a write to the accounted total -/
inductive MutForm
  | addInAllocate | rollBackInAllocate | subInDeallocate | other (text : String)
deriving DecidableEq, Repr

structure SizeMutation where
  file : String
  line : Nat
  fn : String
  form : MutForm
deriving DecidableEq, Repr

end XrayModel.Alloc
