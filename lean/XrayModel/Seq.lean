/-
C15 — executable model of `XSequence` (/repo/src/builtin/sequence.rs) and of the sequence functions
written in xray (/repo/src/builtin/include.rs: count/2, enumerate, reverse, repeat, mul).

The model mirrors the Rust code arm for arm.  `usize` values are `Nat`; the places where the Rust code
does unchecked `usize`/`i64` arithmetic are either shown overflow-free for well-formed representations
(`Rep.wf`, theorems in Props/C15.lean) or are explicit `panic` outcomes.  Core Lean only.
-/
namespace XrayModel
namespace Seq

/-- 2^64: `usize::MAX + 1` on the 64-bit targets the harness builds for -/
def USIZE : Nat := 18446744073709551616

def inI64 (v : Int) : Bool := decide (-9223372036854775808 ≤ v) && decide (v < 9223372036854775808)

/-- outcome of a native call: a value, an error VALUE (`Ok(Err(..))`), or a Rust panic -/
inductive Res (α : Type) where
  | ok (a : α)
  | err (msg : String)
  | panic (msg : String)
  deriving Repr, BEq, Inhabited

/-- runtime values that occur as sequence elements in the modelled fragment -/
inductive Val where
  | int (v : Int)
  | tup (vs : List Val)
  deriving Repr, BEq, Inhabited

/-- the functions stored in `XSequence::Map(seq, func)` by the modelled callers, on plain elements -/
inductive PFn where
  /-- `(x: int)->{x*a+b}` (`count(start, offset)` in include.rs:103, and the check's `map`) -/
  | affine (a b : Int)
  /-- the native closure of `unzip`: `t0[i]` (sequence.rs:1713-1718) -/
  | proj (i : Nat)
  deriving Repr, BEq, Inhabited

/-- index arithmetic of the closures `(idx: int)->{a[..idx..]}` in include.rs -/
inductive IFn where
  /-- `a[offset-1-idx]` (reverse, include.rs:534-537) -/
  | rev (offset : Int)
  /-- `a[idx%length]` (repeat, include.rs:518-532) -/
  | mod (length : Int)
  deriving Repr, BEq, Inhabited

def PFn.app : PFn → Val → Res Val
  | .affine a b, .int x => .ok (.int (x * a + b))
  | .affine _ _, .tup _ => .panic "to_primitive: not an int"
  | .proj i, .tup vs => match vs[i]? with
      | some v => .ok v
      | none => .panic "index out of bounds"
  | .proj _, .int _ => .panic "to_primitive: not a struct"

def IFn.app : IFn → Int → Res Int
  | .rev offset, idx => .ok (offset - 1 - idx)
  | .mod length, idx => if length = 0 then .err "Modulo by zero" else .ok (Int.fmod idx length)

/-- `XSequence<W,R,T>` (sequence.rs:68-88) -/
inductive Rep where
  | empty
  | array (xs : List Val)
  | range (s e st : Int)
  | map (r : Rep) (f : PFn)
  /-- `Map(r, (idx)->{base[g idx]})`: the closure captures another sequence -/
  | mapGet (r : Rep) (base : Rep) (g : IFn)
  | zip (rs : List Rep)
  | chain (parts : List Rep) (mids : List Nat)
  | slice (r : Rep) (a : Nat) (b : Option Nat)
  | count
  deriving Repr, Inhabited

/-- `Option<usize>` result of `len`, plus the panics of `len` itself (assert!, unwrap, usize underflow) -/
inductive Len where
  | fin (n : Nat)
  | inf
  | panic (msg : String)
  deriving Repr, BEq, Inhabited

/-- number of elements of `Range(start,end,step)` as computed at sequence.rs:103-110 (after the fix: in i128,
which cannot overflow for i64 operands; the result is below 2^64 and fits `usize`) -/
def rangeLen (s e st : Int) : Len :=
  if 0 < st ∧ s < e then .fin (1 + (e - 1 - s) / st).toNat
  else if st < 0 ∧ e < s then .fin (1 + (s - 1 - e) / (-st)).toNat
  else .panic "assertion failed: step.is_negative() && start > end"

/-- `.filter_map(|seq| seq.len()).min()` over already computed lengths (a panic inside wins) -/
def minLen : List Len → Len
  | [] => .inf
  | .panic m :: _ => .panic m
  | .inf :: ls => minLen ls
  | .fin n :: ls => match minLen ls with
      | .fin m => .fin (min n m)
      | .inf => .fin n
      | .panic m => .panic m

mutual
/-- `XSequence::len` (sequence.rs:99-124) -/
def Rep.len : Rep → Len
  | .empty => .fin 0
  | .array xs => .fin xs.length
  | .range s e st => rangeLen s e st
  | .map r _ => r.len
  | .mapGet r _ _ => r.len
  | .zip rs => minLen (lens rs)
  | .slice _ a b => match b with
      | none => .inf
      | some e => if e < a then .panic "attempt to subtract with overflow" else .fin (e - a)
  | .count => .inf
  | .chain parts mids => match lastLen parts, mids.getLast? with
      | .panic m, _ => .panic m
      | _, none => .panic "unwrap on None"
      | .inf, _ => .inf
      | .fin l, some m => .fin (l + m)
def lens : List Rep → List Len
  | [] => []
  | r :: rs => r.len :: lens rs
/-- `to_native!(parts.last().unwrap()).len()` -/
def lastLen : List Rep → Len
  | [] => .panic "unwrap on None"
  | [r] => r.len
  | _ :: r :: rs => lastLen (r :: rs)
end

/-- `slice::partition_point(|x| *x <= idx)` on a sorted slice: number of leading elements `≤ idx` -/
def partitionPoint : List Nat → Nat → Nat
  | [], _ => 0
  | m :: ms, idx => if m ≤ idx then 1 + partitionPoint ms idx else 0

/-- `value_to_idx` (sequence.rs:481-498) on an already computed length -/
def valueToIdx (len : Len) (i : Int) : Res Nat :=
  match len with
  | .panic m => .panic m
  | .inf =>
    if i < 0 then .err "cannot get negative index of infinite sequence"
    else if i.toNat < USIZE then .ok i.toNat else .err "index out of bounds"
  | .fin n =>
    let j := if i < 0 then i + n else i
    if j < 0 then .err "index too low"
    else if j.toNat < USIZE then
      (if j.toNat ≥ n then .err "index out of bounds" else .ok j.toNat)
    else .err "index out of bounds"

mutual
/-- `XSequence::get` (sequence.rs:126-168); the caller guarantees `idx < len` -/
def Rep.get : Rep → Nat → Res Val
  | .empty, _ => .panic "unreachable"
  | .array xs, i => match xs[i]? with
      | some v => .ok v
      | none => .panic "index out of bounds"
  | .range s _ st, i => .ok (.int (s + i * st))
  | .map r f, i => match r.get i with
      | .ok v => f.app v
      | .err m => .err m
      | .panic m => .panic m
  | .mapGet r base g, i => match r.get i with
      | .ok (.int x) => (match g.app x with
          | .ok j => (match valueToIdx base.len j with
              | .ok k => base.get k
              | .err m => .err m
              | .panic m => .panic m)
          | .err m => .err m
          | .panic m => .panic m)
      | .ok (.tup _) => .panic "to_primitive: not an int"
      | .err m => .err m
      | .panic m => .panic m
  | .zip rs, i => match getAll rs i with
      | .ok vs => .ok (.tup vs)
      | .err m => .err m
      | .panic m => .panic m
  | .slice r a _, i => if i + a < USIZE then r.get (i + a) else .err "index out of bounds"
  | .count, i => .ok (.int i)
  | .chain parts mids, i =>
      let p := partitionPoint mids i
      let off := if p = 0 then 0 else mids.getD (p - 1) 0
      if off > i then .panic "attempt to subtract with overflow" else getPart parts p (i - off)
/-- `.map(|seq| seq.get(idx)).collect::<Result<Result<Vec<_>,_>,_>>()`: left to right, the first failure wins -/
def getAll : List Rep → Nat → Res (List Val)
  | [], _ => .ok []
  | r :: rs, i => match r.get i with
      | .ok v => (match getAll rs i with
          | .ok vs => .ok (v :: vs)
          | .err m => .err m
          | .panic m => .panic m)
      | .err m => .err m
      | .panic m => .panic m
/-- `to_native!(parts[part_idx]).get(internal_idx)` -/
def getPart : List Rep → Nat → Nat → Res Val
  | [], _, _ => .panic "index out of bounds"
  | r :: _, 0, i => r.get i
  | _ :: rs, p + 1, i => getPart rs p i
end

/-- `is_empty` (sequence.rs; after the fix: `self.len() == Some(0)`, so that lazily empty sequences count) -/
def Rep.isEmpty (r : Rep) : Bool :=
  match r.len with
  | .fin 0 => true
  | _ => false

/-- `XSequence::array` (sequence.rs:91-97) -/
def Rep.mkArray (xs : List Val) : Rep := if xs.isEmpty then .empty else .array xs

/-- the last `match` of `XSequence::slice` (sequence.rs:210-217): a slice of a slice addresses the origin directly
(after the fix: only when the shifted bounds still fit `usize`) -/
def Rep.sliceOf (base : Rep) (start : Nat) (end2 : Option Nat) : Rep :=
  match base with
  | .slice origin oldStart _ =>
      if decide (oldStart + start < USIZE) &&
          (match end2 with | some e => decide (oldStart + e < USIZE) | none => true) then
        .slice origin (oldStart + start) (end2.map (fun e => oldStart + e))
      else .slice base start end2
  | _ => .slice base start end2

/-- `XSequence::slice` (sequence.rs:193-218).  `.ok none` = "the whole sequence, return the same object". -/
def Rep.mkSlice (base : Rep) (start : Nat) (end_ : Option Nat) : Res (Option Rep) :=
  match base.len with
  | .panic m => .panic m
  | len =>
    -- `if end.map_or(true, |end| len.map_or(false, |len| end >= len))`
    let whole : Bool := match end_, len with
      | none, _ => true
      | some e, .fin n => decide (e ≥ n)
      | some _, _ => false
    if whole ∧ start = 0 then .ok none else
    let end2 : Option Nat := if whole then (match len with | .fin n => some n | _ => none) else end_
    let emptyRes : Bool :=
      (match end2 with | some e => decide (start ≥ e) | none => false) ||
      (match len with | .fin n => decide (start ≥ n) | _ => false)
    if emptyRes then .ok (some .empty) else .ok (some (base.sliceOf start end2))

/-- result of `XSequence::chain`: `Ok(Ok(new))`, `Ok(Err(&base0|&base1))`, `Err(msg)` -/
inductive ChainR where
  | new (r : Rep)
  | left
  | right
  | err (msg : String)
  | panic (msg : String)
  deriving Repr, Inhabited

/-- the four arms of `XSequence::chain` (sequence.rs:237-293): parts are spliced, midpoints of the right operand
are shifted by the length of the left one -/
def Rep.chainOf (a b : Rep) (len0 : Nat) : Rep :=
  match a, b with
  | .chain parts0 mids0, .chain parts1 mids1 =>
      .chain (parts0 ++ parts1) (mids0 ++ [len0] ++ mids1.map (· + len0))
  | .chain parts0 mids0, _ => .chain (parts0 ++ [b]) (mids0 ++ [len0])
  | _, .chain parts1 mids1 => .chain (a :: parts1) (len0 :: mids1.map (· + len0))
  | _, _ => .chain [a, b] [len0]

/-- the finite parts in front of the infinite last part of a chain (its last midpoint); 0 for other shapes -/
def Rep.finPrefix : Rep → Nat
  | .chain _ mids => mids.getLast?.getD 0
  | _ => 0

/-- `XSequence::chain` (sequence.rs:221-298); after the fix the total length is checked against `usize` -/
def Rep.mkChain (a b : Rep) : ChainR :=
  match a.len, b.len with
  | .panic m, _ => .panic m
  | _, .panic m => .panic m
  | _, _ =>
  if a.isEmpty then (if b.isEmpty then .new .empty else .right)
  else if b.isEmpty then .left
  else match a.len with
  | .panic m => .panic m
  | .inf => .err "first sequence is infinite"
  | .fin len0 =>
    match b.len with
    | .panic m => .panic m
    | lb =>
    if (match lb with
        | .fin len1 => decide (len0 + len1 ≥ USIZE)
        | _ => decide (len0 + b.finPrefix ≥ USIZE)) then .err "sequence is too long" else
    .new (Rep.chainOf a b len0)

/-- `seq.iter(..)` restricted to `count` elements from `start`, collected with
`collect::<Result<Result<Vec<_>,_>,_>>()` / `try_extend`: the first failing element wins -/
def collectFrom (r : Rep) : Nat → Nat → Res (List Val)
  | _, 0 => .ok []
  | i, n + 1 => match r.get i with
      | .ok v => (match collectFrom r (i + 1) n with
          | .ok vs => .ok (v :: vs)
          | .err m => .err m
          | .panic m => .panic m)
      | .err m => .err m
      | .panic m => .panic m

/-- all elements of a finite sequence (`diter`: arrays are iterated directly) -/
def Rep.collect (r : Rep) (n : Nat) : Res (List Val) :=
  match r with
  | .array xs => .ok xs
  | _ => collectFrom r 0 n

/-! ## language-level values and builtins -/

inductive V where
  | seq (r : Rep)
  | val (v : Val)
  | bool (b : Bool)
  | opt (o : Option Val)
  /-- an `XStack`, bottom first -/
  | stack (vs : List Val)
  /-- a value the model does not compute (operations outside the modelled fragment) -/
  | opaque
  | err (msg : String)
  | panic (msg : String)
  deriving Repr, Inhabited

def infErr : V := .err "sequence is infinite"

/-- `get` (sequence.rs:573-589) -/
def getB (r : Rep) (i : Int) : V :=
  match valueToIdx r.len i with
  | .ok k => (match r.get k with | .ok v => .val v | .err m => .err m | .panic m => .panic m)
  | .err m => .err m
  | .panic m => .panic m

/-- `len` (sequence.rs:591-606) -/
def lenB (r : Rep) : V :=
  match r.len with
  | .fin n => .val (.int n)
  | .inf => infErr
  | .panic m => .panic m

def isInfiniteB (r : Rep) : V :=
  match r.len with
  | .fin _ => .bool false
  | .inf => .bool true
  | .panic m => .panic m

/-- `add` (sequence.rs:625-645) -/
def addB (a b : Rep) : V :=
  match Rep.mkChain a b with
  | .new r => .seq r
  | .left => .seq a
  | .right => .seq b
  | .err m => .err m
  | .panic m => .panic m

def sliceB (r : Rep) (start : Nat) (end_ : Option Nat) : V :=
  match Rep.mkSlice r start end_ with
  | .ok none => .seq r
  | .ok (some s) => .seq s
  | .err m => .err m
  | .panic m => .panic m

/-- `LazyBigint::to_usize` -/
def toUsize (i : Int) : Option Nat := if 0 ≤ i ∧ i.toNat < USIZE then some i.toNat else none

/-- `take` (sequence.rs:1328-1347) -/
def takeB (r : Rep) (n : Int) : V :=
  match toUsize n with
  | none => .err "index too large"
  | some e => sliceB r 0 (some e)

/-- `skip` (sequence.rs:1349-1368) -/
def skipB (r : Rep) (n : Int) : V :=
  match toUsize n with
  | none => .err "index too large"
  | some s => sliceB r s none

def liftList (x : Res (List Val)) (k : List Val → V) : V :=
  match x with
  | .ok vs => k vs
  | .err m => .err m
  | .panic m => .panic m

/-- `to_array` (sequence.rs:936-959) -/
def toArrayB (r : Rep) : V :=
  match r with
  | .array _ => .seq r
  | _ => match r.len with
    | .panic m => .panic m
    | .inf => infErr
    | .fin n => liftList (r.collect n) fun vs => .seq (Rep.mkArray vs)

/-- `push` (sequence.rs:715-737) -/
def pushB (r : Rep) (x : Val) : V :=
  match r.len with
  | .panic m => .panic m
  | .inf => infErr
  | .fin n => liftList (r.collect n) fun vs => .seq (Rep.mkArray (vs ++ [x]))

/-- `rpush` (sequence.rs:739-759) -/
def rpushB (r : Rep) (x : Val) : V :=
  match r.len with
  | .panic m => .panic m
  | .inf => infErr
  | .fin n => liftList (r.collect n) fun vs => .seq (Rep.mkArray (x :: vs))

/-- index of `insert`: after the fix `idx == len` appends; everything else goes through `value_to_idx` -/
def insertIdx (len : Len) (n : Nat) (i : Int) : Res Nat :=
  if i = n then .ok n else valueToIdx len i

/-- `insert` (sequence.rs:761-788) -/
def insertB (r : Rep) (i : Int) (x : Val) : V :=
  match r.len with
  | .panic m => .panic m
  | .inf => infErr
  | .fin n => match insertIdx (.fin n) n i with
    | .err m => .err m
    | .panic m => .panic m
    | .ok idx =>
      liftList (collectFrom r 0 idx) fun pre =>
      liftList (collectFrom r idx (n - idx)) fun post => .seq (Rep.mkArray (pre ++ [x] ++ post))

/-- `pop` (sequence.rs:790-818); after the fix the allocation pre-flight uses `saturating_sub` -/
def popB (r : Rep) (i : Int) : V :=
  match r.len with
  | .panic m => .panic m
  | .inf => infErr
  | .fin n => match valueToIdx (.fin n) i with
    | .err m => .err m
    | .panic m => .panic m
    | .ok idx =>
      if n = 1 then .seq .empty else
      liftList (collectFrom r 0 idx) fun pre =>
      liftList (collectFrom r (idx + 1) (n - (idx + 1))) fun post => .seq (Rep.mkArray (pre ++ post))

/-- `set` (sequence.rs:820-847) -/
def setB (r : Rep) (i : Int) (x : Val) : V :=
  match r.len with
  | .panic m => .panic m
  | .inf => infErr
  | .fin n => match valueToIdx (.fin n) i with
    | .err m => .err m
    | .panic m => .panic m
    | .ok idx =>
      liftList (collectFrom r 0 idx) fun pre =>
      liftList (collectFrom r (idx + 1) (n - (idx + 1))) fun post => .seq (Rep.mkArray (pre ++ [x] ++ post))

/-- `swap` (sequence.rs:849-886) -/
def swapB (r : Rep) (i j : Int) : V :=
  match r.len with
  | .panic m => .panic m
  | .inf => infErr
  | .fin n => match valueToIdx (.fin n) i with
    | .err m => .err m
    | .panic m => .panic m
    | .ok i1 => match valueToIdx (.fin n) j with
      | .err m => .err m
      | .panic m => .panic m
      | .ok i2 =>
        if i1 = i2 then .seq r else
        let lo := min i1 i2
        let hi := max i1 i2
        liftList (collectFrom r 0 lo) fun pre =>
        match r.get hi with
        | .err m => .err m
        | .panic m => .panic m
        | .ok vhi =>
        liftList (collectFrom r (lo + 1) (hi - (lo + 1))) fun mid =>
        match r.get lo with
        | .err m => .err m
        | .panic m => .panic m
        | .ok vlo =>
        liftList (collectFrom r (hi + 1) (n - (hi + 1))) fun post =>
          .seq (Rep.mkArray (pre ++ [vhi] ++ mid ++ [vlo] ++ post))

/-- `range` (sequence.rs:1141-1177): `none` = argument absent -/
def rangeB (args : List Int) : V :=
  let mk (start end_ step : Int) : V :=
    if step = 0 then .err "invalid range, step size cannot be zero"
    else if (0 < step ∧ start ≥ end_) ∨ (step < 0 ∧ start ≤ end_) then .seq .empty
    else .seq (.range start end_ step)
  match args with
  | [e] => if inI64 e then mk 0 e 1 else .err "end out of bounds"
  | [s, e] =>
    if !inI64 s then .err "start out of bounds" else
    if !inI64 e then .err "end out of bounds" else mk s e 1
  | [s, e, st] =>
    if !inI64 s then .err "start out of bounds" else
    if !inI64 e then .err "end out of bounds" else
    if !inI64 st then .err "step out of bounds" else mk s e st
  | _ => .panic "arity"

/-- `map` (sequence.rs:910-934) -/
def mapB (r : Rep) (f : PFn) : V := .seq (.map r f)

/-- `count(start, offset)` (include.rs:103-105) -/
def count2 (start offset : Int) : Rep := .map .count (.affine offset start)

/-- `zip` (sequence.rs:1650-1687): arguments left to right, the first `Empty` one short-circuits -/
def zipB (rs : List Rep) : V :=
  if rs.any Rep.isEmpty then .seq .empty else .seq (.zip rs)

/-- `enumerate` (include.rs:453-455) -/
def enumerateB (r : Rep) (start offset : Int) : V := zipB [count2 start offset, r]

/-- `unzip()::item<i>` (sequence.rs:1689-1730) -/
def unzipB (r : Rep) (i : Nat) : V := .seq (.map r (.proj i))

/-- `reverse` (include.rs:534-537): `let offset = a.len(); range(offset).map(idx -> a[offset-1-idx])`; an
erroring `a.len()` makes `range(offset)` that error -/
def reverseOf (r : Rep) (n : Nat) (rg : V) : V :=
  match rg with
  | .seq rg => .seq (.mapGet rg r (.rev n))
  | v => v

def reverseB (r : Rep) : V :=
  match r.len with
  | .panic m => .panic m
  | .inf => infErr
  | .fin n => reverseOf r n (rangeB [(n : Int)])

/-- `repeat(a)` (include.rs:518-524): `if(is_error(a.len()), a, count().map(idx -> a[idx%length]))` -/
def repeatB (r : Rep) : V :=
  match r.len with
  | .panic m => .panic m
  | .inf => .seq r
  | .fin n => .seq (.mapGet .count r (.mod n))

/-- `repeat(a, n)` (include.rs:526-532), also `mul` (include.rs:1379-1381) -/
def repeatNB (r : Rep) (k : Int) : V :=
  match r.len with
  | .panic m => .panic m
  | .inf => .seq r
  | .fin n => takeB (.mapGet .count r (.mod n)) (k * n)

/-- `(0..len)` is exhausted (never, for an infinite sequence) -/
def atEnd (limit : Option Nat) (i : Nat) : Bool :=
  match limit with
  | some n => decide (i ≥ n)
  | none => false

/-- first index `i ≥ from` (at most `fuel` steps) whose element fails (`stopOn = false`) / satisfies
(`stopOn = true`) the predicate `x < c`; `none` = no such index below `limit` -/
def scanLt (r : Rep) (c : Int) (stopOn : Bool) (limit : Option Nat) : Nat → Nat → Res (Option Nat)
  | _, 0 => .panic "out of fuel"
  | i, fuel + 1 =>
    if atEnd limit i then .ok none else
    match r.get i with
    | .ok (.int x) => if decide (x < c) = stopOn then .ok (some i) else scanLt r c stopOn limit (i + 1) fuel
    | .ok (.tup _) => .panic "to_primitive: not an int"
    | .err m => .err m
    | .panic m => .panic m

def lenOpt : Len → Option Nat
  | .fin n => some n
  | _ => none

/-- `take_while(s, (x:int)->{x < c})` (sequence.rs:1233-1278) -/
def takeWhileLtB (r : Rep) (c : Int) (fuel : Nat) : V :=
  match r.len with
  | .panic m => .panic m
  | len =>
    match scanLt r c false (lenOpt len) 0 fuel with
    | .ok (some i) => sliceB r 0 (some i)
    | .ok none => sliceB r 0 (lenOpt len)
    | .err m => .err m
    | .panic m => .panic m

/-- `skip_until(s, (x:int)->{x < c})` (sequence.rs:1280-1326) -/
def skipUntilLtB (r : Rep) (c : Int) (fuel : Nat) : V :=
  match r.len with
  | .panic m => .panic m
  | len =>
    match scanLt r c true (lenOpt len) 0 fuel with
    | .ok (some i) => sliceB r i none
    | .ok none => sliceB r ((lenOpt len).getD 0) none
    | .err m => .err m
    | .panic m => .panic m


/-! ## searching, comparison, conversion -/

/-- the forward scan of `nth` (sequence.rs:1179-1231) with the predicate `(x:int)->{x < c}`: `left` matches are
still to be skipped; `limit` = length of a finite sequence -/
def nthFwd (r : Rep) (c : Int) (limit : Option Nat) : Nat → Nat → Nat → V
  | _, _, 0 => .panic "out of fuel"
  | i, left, fuel + 1 =>
    if atEnd limit i then .opt none else
    match r.get i with
    | .ok (.int x) =>
        if x < c then (if left = 0 then .opt (some (.int x)) else nthFwd r c limit (i + 1) (left - 1) fuel)
        else nthFwd r c limit (i + 1) left fuel
    | .ok (.tup _) => .panic "to_primitive: not an int"
    | .err m => .err m
    | .panic m => .panic m

/-- the reversed scan (`diter().rev()`): elements `k-1, k-2, …, 0` -/
def nthBwd (r : Rep) (c : Int) : Nat → Nat → V
  | 0, _ => .opt none
  | k + 1, left =>
    match r.get k with
    | .ok (.int x) =>
        if x < c then (if left = 0 then .opt (some (.int x)) else nthBwd r c k (left - 1))
        else nthBwd r c k left
    | .ok (.tup _) => .panic "to_primitive: not an int"
    | .err m => .err m
    | .panic m => .panic m

/-- `nth(s, n, (x:int)->{x < c})`; `first` = `nth(0, ·)`, `last` = `nth(-1, ·)` (include.rs:461-467) -/
def nthLtB (r : Rep) (n : Int) (c : Int) (fuel : Nat) : V :=
  match r.len with
  | .panic m => .panic m
  | len =>
    if n < 0 then
      (match len with
       | .fin k => nthBwd r c k (-n - 1).toNat
       | _ => .err "negative match index cannot be used with infinite sequence")
    else nthFwd r c (lenOpt len) 0 n.toNat fuel

/-- element-wise comparison loop of the dynamic `eq` (sequence.rs:1420-1482) -/
def eqScan (a b : Rep) (limit : Option Nat) : Nat → Nat → V
  | _, 0 => .panic "out of fuel"
  | i, fuel + 1 =>
    if atEnd limit i then .bool true else
    match a.get i with
    | .err m => .err m
    | .panic m => .panic m
    | .ok x =>
      match b.get i with
      | .err m => .err m
      | .panic m => .panic m
      | .ok y => if x == y then eqScan a b limit (i + 1) fuel else .bool false

/-- `seq0.len() != seq1.len()` on `Option<usize>` -/
def Len.same : Len → Len → Bool
  | .fin a, .fin b => a == b
  | .inf, .inf => true
  | _, _ => false

/-- `eq` of two sequences -/
def eqB (a b : Rep) (fuel : Nat) : V :=
  match a.len, b.len with
  | .panic m, _ => .panic m
  | _, .panic m => .panic m
  | la, lb => if Len.same la lb then eqScan a b (lenOpt la) 0 fuel else .bool false

/-- `to_stack` (sequence.rs:888-908) -/
def toStackB (r : Rep) : V :=
  match r.len with
  | .panic m => .panic m
  | .inf => infErr
  | .fin n => match r.collect n with
    | .ok vs => .stack vs
    | .err m => .err m
    | .panic m => .panic m

end Seq
end XrayModel
