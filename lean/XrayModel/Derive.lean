/-
C19 — the derived eq / cmp / hash / to_str of tuples, sequences, optionals, stacks, the hash of sets
and mappings, and the relational operators derived from eq / cmp, as higher-order functions of the
component functions (which may answer an error value: `Except String`).

Mirrors: tuple.rs:31-233, sequence.rs:1420-1480 and :1732-1906, optional.rs:253-384,
stack.rs:276-377, set.rs:375-397, mapping.rs:600-645, generic.rs:173-205 / :265-413 / :613-721 and
`min` / `max` of include.rs.  Core Lean only.
-/
namespace XrayModel.Derive

abbrev R := Except String

/-! ### the hasher (`DefaultHasher`): abstract in the theorems, SipHash-1-3 in the driver -/
structure Hasher (σ : Type) where
  init : σ
  /-- `write_u64` -/
  write : σ → Nat → σ
  finish : σ → Nat

def U64 : Nat := 18446744073709551616

/-- `to_primitive!(hash, Int).to_u64()` or the error value "hash out of bounds" -/
def toU64 (h : Int) : R Nat :=
  if 0 ≤ h ∧ h < (U64 : Int) then .ok h.toNat else .error "hash out of bounds"

/-! ### tuples (one component function per position) -/

/-- tuple.rs:62-77 -/
def tupleEq : List (α → α → R Bool) → List α → List α → R Bool
  | f :: fs, a :: as, b :: bs => do
    let e ← f a b
    if !e then pure false else tupleEq fs as bs
  | _, _, _ => pure true

/-- tuple.rs:116-130: the first non-zero component comparison is returned AS IS, else 0 -/
def tupleCmp : List (α → α → R Int) → List α → List α → R Int
  | f :: fs, a :: as, b :: bs => do
    let c ← f a b
    if c ≠ 0 then pure c else tupleCmp fs as bs
  | _, _, _ => pure 0

def hashFold (H : Hasher σ) : σ → List (R Int) → R Int
  | s, [] => pure (H.finish s : Int)
  | s, h :: hs => do
    let v ← h
    let u ← toU64 v
    hashFold H (H.write s u) hs

/-- tuple.rs:163-176 -/
def tupleHash (H : Hasher σ) : List (α → R Int) → List α → R Int
  | fs, as => hashFold H H.init (List.zipWith (fun f a => f a) fs as)

def joinStr (sep : String) : List String → String
  | [] => ""
  | [s] => s
  | s :: rest => s ++ sep ++ joinStr sep rest

/-- tuple.rs:209-229 -/
def tupleToStr (fs : List (α → R String)) (as : List α) : R String := do
  let parts ← (List.zipWith (fun f a => f a) fs as).mapM id
  pure ("(" ++ joinStr ", " parts ++ ")")

/-! ### sequences -/

def zipEq (f : α → α → R Bool) : List α → List α → R Bool
  | a :: as, b :: bs => do
    let e ← f a b
    if !e then pure false else zipEq f as bs
  | _, _ => pure true

/-- sequence.rs:1447-1477 -/
def seqEq (f : α → α → R Bool) (l0 l1 : List α) : R Bool :=
  if l0.length ≠ l1.length then pure false else zipEq f l0 l1

def zipCmp (f : α → α → R Int) (tie : Int) : List α → List α → R Int
  | a :: as, b :: bs => do
    let c ← f a b
    if c ≠ 0 then pure c else zipCmp f tie as bs
  | _, _ => pure tie

/-- sequence.rs:1865-1900: the tie breaker is computed from the lengths first -/
def seqCmp (f : α → α → R Int) (l0 l1 : List α) : R Int :=
  let tie : Int := if l0.length < l1.length then -1 else if l0.length > l1.length then 1 else 0
  zipCmp f tie l0 l1

/-- sequence.rs:1811-1832 -/
def seqHash (H : Hasher σ) (f : α → R Int) (l : List α) : R Int :=
  hashFold H H.init (l.map f)

/-- sequence.rs:1752-1782 -/
def seqToStr (f : α → R String) (l : List α) : R String := do
  let parts ← l.mapM f
  pure ("[" ++ joinStr ", " parts ++ "]")

/-! ### optionals (no `cmp` is derived for optionals) -/

/-- optional.rs:279-299 -/
def optEq (f : α → α → R Bool) : Option α → Option α → R Bool
  | some a, some b => f a b
  | o0, o1 => pure (o0.isSome == o1.isSome)

/-- optional.rs:325-337 -/
def optHash (f : α → R Int) : Option α → R Int
  | some a => f a
  | none => pure 0

/-- optional.rs:363-379 -/
def optToStr (f : α → R String) : Option α → R String
  | some a => f a
  | none => pure "None"

/-! ### stacks (iterated from the top; no `cmp`, no `to_str`) -/

/-- stack.rs:302-328 -/
def stackEq (f : α → α → R Bool) (s0 s1 : List α) : R Bool :=
  if s0.length ≠ s1.length then pure false else zipEq f s0 s1

/-- stack.rs:357-373 -/
def stackHash (H : Hasher σ) (f : α → R Int) (s : List α) : R Int :=
  hashFold H H.init (s.map f)

/-! ### sets and mappings: XOR over the buckets of `hash_key.wrapping_add(bucket.len())`

A bucket is `(hash_key, entries)`; the iteration order is `HashMap`'s.  (The buckets are non-empty:
`remove` / `discard` / `pop` drop a bucket that becomes empty — the C17 `fix:` commit.) -/
def xor64 (a b : Nat) : Nat := Nat.xor a b

/-- set.rs:386-393 -/
def setHash (buckets : List (Nat × List α)) : Nat :=
  buckets.foldl (fun acc b => xor64 acc ((b.1 + b.2.length) % U64)) 0

/-- mapping.rs:626-641: additionally XORs the hash of every value -/
def mapHashBucket (f : β → R Int) : Nat → List (α × β) → R Nat
  | acc, [] => pure acc
  | acc, (_, v) :: rest => do
    let h ← f v
    let u ← toU64 h
    mapHashBucket f (xor64 acc u) rest

def mapHash (f : β → R Int) : Nat → List (Nat × List (α × β)) → R Nat
  | acc, [] => pure acc
  | acc, b :: rest => do
    let acc' ← mapHashBucket f (xor64 acc ((b.1 + b.2.length) % U64)) b.2
    mapHash f acc' rest

/-! ### relational operators (generic.rs) and min / max (include.rs:8-14) -/

def ne (eq : α → α → R Bool) (a b : α) : R Bool := do pure (!(← eq a b))
def lt (cmp : α → α → R Int) (a b : α) : R Bool := do pure (decide ((← cmp a b) < 0))
def gt (cmp : α → α → R Int) (a b : α) : R Bool := do pure (decide ((← cmp a b) > 0))
def ge (cmp : α → α → R Int) (a b : α) : R Bool := do pure (!decide ((← cmp a b) < 0))
def le (cmp : α → α → R Int) (a b : α) : R Bool := do pure (!decide ((← cmp a b) > 0))
/-- `fn max(a, b, lt) { if(lt(a,b), b, a) }` -/
def max (lt : α → α → R Bool) (a b : α) : R α := do if (← lt a b) then pure b else pure a
/-- `fn min(a, b, lt) { if(lt(b,a), b, a) }` -/
def min (lt : α → α → R Bool) (a b : α) : R α := do if (← lt b a) then pure b else pure a

/-! ### a universal value type for the driver: the derivations composed along a value's type -/
inductive V where
  | int (i : Int)
  | bool (b : Bool)
  | str (s : String)
  /-- IEEE binary64 (never NaN / infinite in xray); driver only, no theorem mentions a float value -/
  | float (f : Float)
  | tuple (l : List V)
  | seq (l : List V)
  | opt (o : Option V)
  | stack (l : List V)
  deriving Repr, Inhabited

/-- int.rs `hash`: the value itself when it fits `u64`, else `first_u64_digit()` — for a small
(i64) negative number its two's complement, for a big number the lowest 64 bits of the magnitude -/
def intHash (i : Int) : Int :=
  if 0 ≤ i ∧ i < (U64 : Int) then i
  else if -9223372036854775808 ≤ i ∧ i < 0 then i % (U64 : Int)
  else (i.natAbs % U64 : Nat)

def sign (i : Int) : Int := if i < 0 then -1 else if i > 0 then 1 else 0

/-- code-point order of strings (`str` `cmp`) -/
def strCmp (a b : String) : Int :=
  if a.toList < b.toList then -1 else if b.toList < a.toList then 1 else 0

mutual
def V.eq : V → V → R Bool
  | .int a, .int b => pure (a == b)
  | .bool a, .bool b => pure (a == b)
  | .str a, .str b => pure (a == b)
  | .float a, .float b => pure (a == b)      -- floats.rs:115-121: IEEE `==` (so -0.0 == 0.0)
  | .tuple a, .tuple b => V.eqTuple a b
  | .seq a, .seq b => if a.length ≠ b.length then pure false else V.eqZip a b
  | .stack a, .stack b => if a.length ≠ b.length then pure false else V.eqZip a b
  | .opt (some a), .opt (some b) => V.eq a b
  | .opt a, .opt b => pure (a.isSome == b.isSome)
  | _, _ => .error "type"
def V.eqTuple : List V → List V → R Bool
  | a :: as, b :: bs => do
    let e ← V.eq a b
    if !e then pure false else V.eqTuple as bs
  | _, _ => pure true
def V.eqZip : List V → List V → R Bool
  | a :: as, b :: bs => do
    let e ← V.eq a b
    if !e then pure false else V.eqZip as bs
  | _, _ => pure true
end

mutual
def V.cmp : V → V → R Int
  | .int a, .int b => pure (sign (a - b))
  | .bool a, .bool b => pure (sign ((if a then 1 else 0) - (if b then 1 else 0)))
  | .str a, .str b => pure (strCmp a b)
  | .float a, .float b => pure (if a < b then -1 else if a > b then 1 else 0)   -- `xcmp`
  | .tuple a, .tuple b => V.cmpZip 0 a b
  | .seq a, .seq b =>
    V.cmpZip (if a.length < b.length then -1 else if a.length > b.length then 1 else 0) a b
  | _, _ => .error "type"
def V.cmpZip (tie : Int) : List V → List V → R Int
  | a :: as, b :: bs => do
    let c ← V.cmp a b
    if c ≠ 0 then pure c else V.cmpZip tie as bs
  | _, _ => pure tie
end

mutual
def V.hash (H : Hasher σ) : V → R Int
  | .int a => pure (intHash a)
  | .bool a => pure (if a then 1 else 0)
  | .str _ => .error "str-hash"   -- `Hash for str` is not modelled
  | .float _ => .error "float-hash"   -- the library defines no `hash` for floats
  | .tuple l => V.hashFold H H.init l
  | .seq l => V.hashFold H H.init l
  | .stack l => V.hashFold H H.init l
  | .opt (some a) => V.hash H a
  | .opt none => pure 0
def V.hashFold (H : Hasher σ) : σ → List V → R Int
  | s, [] => pure (H.finish s : Int)
  | s, a :: rest => do
    let v ← V.hash H a
    let u ← toU64 v
    V.hashFold H (H.write s u) rest
end

mutual
def V.toStr : V → R String
  | .int a => pure (toString a)
  | .bool a => pure (if a then "true" else "false")
  | .str s => pure s
  | .float _ => .error "float-to_str"   -- `{:?}` of an f64 is not modelled
  | .tuple l => do pure ("(" ++ joinStr ", " (← V.toStrs l) ++ ")")
  | .seq l => do pure ("[" ++ joinStr ", " (← V.toStrs l) ++ "]")
  | .opt (some a) => V.toStr a
  | .opt none => pure "None"
  | .stack _ => .error "type"
def V.toStrs : List V → R (List String)
  | [] => pure []
  | a :: rest => do
    let s ← V.toStr a
    let ss ← V.toStrs rest
    pure (s :: ss)
end

/-! ### SipHash-1-3 with zero keys, fed with `write_u64` only (`DefaultHasher::new()`) -/
structure Sip where
  v0 : UInt64
  v1 : UInt64
  v2 : UInt64
  v3 : UInt64
  len : Nat

def rotl (x : UInt64) (b : UInt64) : UInt64 := (x <<< b) ||| (x >>> (64 - b))

def sipRound (s : Sip) : Sip :=
  let v0 := s.v0 + s.v1
  let v1 := rotl s.v1 13
  let v1 := v1 ^^^ v0
  let v0 := rotl v0 32
  let v2 := s.v2 + s.v3
  let v3 := rotl s.v3 16
  let v3 := v3 ^^^ v2
  let v0 := v0 + v3
  let v3 := rotl v3 21
  let v3 := v3 ^^^ v0
  let v2 := v2 + v1
  let v1 := rotl v1 17
  let v1 := v1 ^^^ v2
  let v2 := rotl v2 32
  { s with v0 := v0, v1 := v1, v2 := v2, v3 := v3 }

def sipHasher : Hasher Sip where
  init := { v0 := 0x736f6d6570736575, v1 := 0x646f72616e646f6d, v2 := 0x6c7967656e657261,
            v3 := 0x7465646279746573, len := 0 }
  write := fun s m =>
    let m64 := UInt64.ofNat m
    let s := { s with v3 := s.v3 ^^^ m64 }
    let s := sipRound s
    { s with v0 := s.v0 ^^^ m64, len := s.len + 8 }
  finish := fun s =>
    let b : UInt64 := (UInt64.ofNat (s.len % 256)) <<< 56
    let s := { s with v3 := s.v3 ^^^ b }
    let s := sipRound s
    let s := { s with v0 := s.v0 ^^^ b, v2 := s.v2 ^^^ 0xff }
    let s := sipRound (sipRound (sipRound s))
    (s.v0 ^^^ s.v1 ^^^ s.v2 ^^^ s.v3).toNat

end XrayModel.Derive
