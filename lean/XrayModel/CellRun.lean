/-
Cell-level run-time model: the literal reading of `src/runtime_scope.rs` over the compiled form that
`XrayModel/Scope.lean` produces (`XE` with `Value(idx)`, `CDecl`, `CFunc` with cell specs).

* `ECell` = `EvaluationCell` (`Uninitialized | Value | PendingCapture | LocalRecourse | Recourse`, :46-60);
  `fromSpec` = `from_spec` (:63-96): a `Capture{d, k}` is resolved when the closure is created, against the
  creating activation (`scope_ancestor_and_cell(d - 1, k)` of the parent);
* `Tmpl` = `RuntimeScopeTemplate` (:99-107): id, parent id, cells, declarations, parameter count, the default
  *values*, the output expression; `mkTemplate` = `from_specs` (:118-169) — the defaults are evaluated there, in the
  scope parent.  The id of a function is the id of the declaring scope extended with the cell of its
  `Declaration::Function` (the compiler's `NEXT_ID` counter is not modelled; ids are only compared for equality);
* `RFrame` = `RuntimeScope` (:172-177): `TCell` = `TemplatedEvaluationCell` (`Owned | FromTemplate`), height, scope
  parent, template; `fromTemplate` (:180-263): scope-parent search by id from the *caller* (:186-199), depth check,
  the declarations in order (`Parameter`: argument or default value by `argument_idx`; `Value`; `Function`);
* `eval` (:265-387): `Value(idx)` with the `PendingCapture` loop (:333-357), the tail special case for a callee
  cell that is `LocalRecourse` (:365-378), calls (`eval_func_with_expressions` / `eval_func_with_values` with the
  call counter and the trampoline, :389-454); natives as in `XrayModel/Core.lean` (same strict primitives, same
  short-circuiting ones that forward the tail slot).
* Frames are immutable snapshots: a frame handed to a callee or to a closure under construction is the
  activation as it is at that moment.
* Rust panics (`unwrap`, index, "access to uninitialized cell", "ran out of scope parents", "attempted to write to
  templated cell", "expected a function") are `CRes.stuck`.

Fuel is spent as in `Core.lean` wherever the two evaluators do the same thing (one unit per evaluator function
entered; creating an activation and binding its parameters costs nothing, as `bindParams` in `Core.tramp`), so that
on programs whose functions are declared at top level both run out of fuel at the same moment.
-/
import XrayModel.Scope
import XrayModel.Core
namespace XrayModel.CellRun
open XrayModel.Scope

mutual
  inductive CVal where
    | int (n : Int)
    | bool (b : Bool)
    | str (s : String)
    | tup (vs : List CVal)
    | arr (vs : List CVal)
    | fn (t : Tmpl)
    | err (msg : String)
  inductive ECell where
    | uninit
    | value (v : CVal)
    | pending (depth cell : Nat)
    | localRec
    | recourse (depth : Nat) (t : Tmpl)
  inductive Tmpl where
    | mk (id : List Nat) (parentId : Option (List Nat)) (cells : List ECell) (decls : List CDecl)
        (paramCount : Nat) (defaults : List CVal) (out : Option XE)
end

def Tmpl.id : Tmpl → List Nat | .mk i _ _ _ _ _ _ => i
def Tmpl.parentId : Tmpl → Option (List Nat) | .mk _ p _ _ _ _ _ => p
def Tmpl.cells : Tmpl → List ECell | .mk _ _ c _ _ _ _ => c
def Tmpl.decls : Tmpl → List CDecl | .mk _ _ _ d _ _ _ => d
def Tmpl.paramCount : Tmpl → Nat | .mk _ _ _ _ n _ _ => n
def Tmpl.defaults : Tmpl → List CVal | .mk _ _ _ _ _ d _ => d
def Tmpl.out : Tmpl → Option XE | .mk _ _ _ _ _ _ o => o

inductive TCell where
  | owned (c : ECell)
  | fromTemplate (idx : Nat)

inductive RFrame where
  | mk (cells : List TCell) (height : Nat) (scopeParent : Option RFrame) (tmpl : Tmpl)

def RFrame.cells : RFrame → List TCell | .mk c _ _ _ => c
def RFrame.height : RFrame → Nat | .mk _ h _ _ => h
def RFrame.scopeParent : RFrame → Option RFrame | .mk _ _ p _ => p
def RFrame.tmpl : RFrame → Tmpl | .mk _ _ _ t => t

inductive CRes where
  | val (v : CVal)
  | viol (k : Core.Viol)
  | tail (args : List CVal)
  | stuck (why : String)
  | oof

def CVal.isErr : CVal → Bool
  | .err _ => true
  | _ => false

def firstErr : List CVal → Option CVal
  | [] => none
  | v :: rest => if v.isErr then some v else firstErr rest

def litVal : Lit → CVal
  | .int n => .int n
  | .bool b => .bool b
  | .str s => .str s

/-- a native sees a function value as an opaque thing -/
def opaqueFn : Core.Val := .clos (.mk none [] [] (.int 0)) [] []

/-- the value a native of the core fragment works on (it never looks inside a function value) -/
def toCore : CVal → Core.Val
  | .int n => .int n
  | .bool b => .bool b
  | .str s => .str s
  | .tup vs => .tup (vs.map toCore)
  | .arr vs => .arr (vs.map toCore)
  | .fn _ => opaqueFn
  | .err m => .err m

/-- the result of a native of the core fragment (never a function value) -/
def ofCore : Core.Val → CVal
  | .int n => .int n
  | .bool b => .bool b
  | .str s => .str s
  | .tup vs => .tup (vs.map ofCore)
  | .arr vs => .arr (vs.map ofCore)
  | .clos _ _ _ => .err "function value from a native"
  | .err m => .err m

def toStr (v : CVal) : Option String := Core.toStr (toCore v)

/-- the strict natives: `Core.prim` on the values -/
def cprim (f : String) (args : List CVal) : CRes :=
  match Core.prim f (args.map toCore) with
  | .val v => .val (ofCore v)
  | .stuck w => .stuck w
  | _ => .stuck "prim"

/-- `TemplatedEvaluationCell::as_ref` (:33-41) -/
def TCell.asRef (c : TCell) (t : Tmpl) : Option ECell :=
  match c with
  | .owned e => some e
  | .fromTemplate idx => t.cells[idx]?

/-- `scope_ancestor_at_depth` (:456-464); `none` = "ran out of scope parents at runtime" -/
def ancestorAt : RFrame → Nat → Option RFrame
  | fr, 0 => some fr
  | fr, d + 1 =>
    match fr.scopeParent with
    | none => none
    | some p => ancestorAt p d

/-- `scope_ancestor_and_cell` (:466-473) -/
def ancestorAndCell (fr : RFrame) (d k : Nat) : Option (RFrame × TCell) :=
  match ancestorAt fr d with
  | none => none
  | some a => match a.cells[k]? with
    | none => none
    | some c => some (a, c)

/-- `get_cell_value` (:475-477) -/
def getCell (fr : RFrame) (i : Nat) : Option ECell :=
  match fr.cells[i]? with
  | none => none
  | some c => c.asRef fr.tmpl

/-- the scope-parent search (:130-143, :186-199): from the stack parent up its scope parents to the first
activation of the template `pid`; `bound` limits the walk (a chain is never longer than the stack) -/
def findScopeParent : Nat → Option RFrame → List Nat → Option RFrame
  | 0, _, _ => none
  | _ + 1, none, _ => none
  | n + 1, some p, pid => if p.tmpl.id = pid then some p else findScopeParent n p.scopeParent pid

/-- `from_spec` (:63-96) -/
def fromSpec (cell : Cell) (parent : Option RFrame) : Except String ECell :=
  match cell with
  | .var => .ok .uninit
  | .recur => .ok .localRec
  | .cap d k =>
    match parent with
    | none => .error "from_spec: no scope parent"
    | some p =>
      if d = 0 then .error "from_spec: ancestor depth 0"
      else match ancestorAndCell p (d - 1) k with
        | none => .error "ran out of scope parents at runtime"
        | some (anc, tc) =>
          match tc.asRef anc.tmpl with
          | none => .error "from_spec: template cell"
          | some .uninit => .ok (.pending d k)
          | some (.pending _ _) => .ok (.pending d k)
          | some (.value v) => .ok (.value v)
          | some .localRec => .ok (.recourse d anc.tmpl)
          | some (.recourse dep t) => .ok (.recourse (dep + d) t)

def fromSpecs (cells : List Cell) (parent : Option RFrame) : Except String (List ECell) :=
  match cells with
  | [] => .ok []
  | c :: rest =>
    match fromSpec c parent with
    | .error e => .error e
    | .ok e => match fromSpecs rest parent with
      | .error e' => .error e'
      | .ok es => .ok (e :: es)

/-- `TemplatedEvaluationCell::put` (:25-32) -/
def putCell (cells : List TCell) (idx : Nat) (v : CVal) : Option (List TCell) :=
  match cells[idx]? with
  | some (.owned _) => some (cells.set idx (.owned (.value v)))
  | _ => none

def RFrame.put (fr : RFrame) (idx : Nat) (v : CVal) : Option RFrame :=
  match putCell fr.cells idx v with
  | none => none
  | some cs => some (.mk cs fr.height fr.scopeParent fr.tmpl)

/-- the initial cells of an activation (:201-212) -/
def initCells : List ECell → Nat → List TCell
  | [], _ => []
  | .uninit :: rest, i => .owned .uninit :: initCells rest (i + 1)
  | _ :: rest, i => .fromTemplate i :: initCells rest (i + 1)

/-- `Value(idx)` (:333-357); `self` is the activation the expression is evaluated in -/
def readValue : Nat → RFrame → RFrame → ECell → CRes
  | 0, _, _, _ => .oof
  | _ + 1, _, _, .value v => .val v
  | _ + 1, _, _, .uninit => .stuck "access to uninitialized cell"
  | _ + 1, _, _, .recourse _ t => .val (.fn t)
  | _ + 1, self, _, .localRec => .val (.fn self.tmpl)
  | n + 1, self, anc, .pending d k =>
    match ancestorAndCell anc d k with
    | none => .stuck "ran out of scope parents at runtime"
    | some (anc', tc) =>
      match tc.asRef anc'.tmpl with
      | none => .stuck "template cell"
      | some raw => readValue n self anc' raw

abbrev Cfg := Core.Cfg
abbrev St := Core.St

/-- the head of `from_template` (:186-223): scope-parent search by id from the stack parent, the initial cells,
the height, the depth check -/
def initFrame (cfg : Cfg) (t : Tmpl) (stackParent : Option RFrame) : Except CRes RFrame :=
  let scopeParent := match t.parentId with
    | none => none
    | some pid => findScopeParent ((match stackParent with | some p => p.height | none => 0) + 2) stackParent pid
  let height := match stackParent with | some p => p.height + 1 | none => 0
  if (match cfg.depthLimit with | some l => decide (height ≥ l) | none => false) then .error (.viol .depth)
  else .ok (.mk (initCells t.cells 0) height scopeParent t)

/-- the leading `Declaration::Parameter`s (:229-238) — `add_parameter` puts them in front of everything else;
they evaluate nothing: the argument, or the default value at `argument_idx - default_offset`.  Returns the
activation and the remaining declarations. -/
def runParams (fr : RFrame) (ds : List CDecl) (args : List CVal) : Except CRes (RFrame × List CDecl) :=
  match ds with
  | .param cell argIdx :: rest =>
    let v : Option CVal := match args[argIdx]? with
      | some a => some a
      | none => fr.tmpl.defaults[argIdx - (fr.tmpl.paramCount - fr.tmpl.defaults.length)]?
    (match v with
     | none => .error (.stuck "arity")
     | some v => match fr.put cell v with
       | none => .error (.stuck "attempted to write to templated cell")
       | some fr' => runParams fr' rest args)
  | ds => .ok (fr, ds)

mutual
  /-- `RuntimeScope::eval` -/
  def eval (fuel : Nat) (cfg : Cfg) (fr : RFrame) (e : XE) (tail : Bool) (st : St) : CRes × St :=
    match fuel with
    | 0 => (.oof, st)
    | fuel + 1 =>
      match e with
      | .lit v => (.val (litVal v), st)
      | .ident x => (.stuck ("unbound " ++ x), st)
      | .lamF _ => (.stuck "uncompiled lambda", st)
      | .val i =>
        match getCell fr i with
        | none => (.stuck "cell index", st)
        | some raw => (readValue (fr.height + 2) fr fr raw, st)
      | .tup es => match evalList fuel cfg fr es st with
          | (.ok vs, st') => (.val (.tup vs), st')
          | (.error r, st') => (r, st')
      | .arr es => match evalList fuel cfg fr es st with
          | (.ok vs, st') => (.val (.arr vs), st')
          | (.error r, st') => (r, st')
      | .member e i => match eval fuel cfg fr e false st with
          | (.val (.tup vs), st') => match vs[i]? with
              | some v => (.val v, st')
              | none => (.stuck "item", st')
          | (.val (.err m), st') => (.val (.err m), st')
          | (.val _, st') => (.stuck "item of non-tuple", st')
          | (.tail _, st') => (.stuck "tail escaped", st')
          | r => r
      | .bcall name args => builtinStage fuel cfg fr name args tail st
      | .call callee args =>
        -- the tail special case (:365-378): the callee is a cell of this activation that is LocalRecourse
        let isSelf : Bool := match callee with
          | .val i => (match getCell fr i with | some .localRec => true | _ => false)
          | _ => false
        if isSelf && tail && cfg.tco then
          match evalList fuel cfg fr args st with
          | (.ok vs, st') => (.tail vs, st')
          | (.error r, st') => (r, st')
        else if isSelf then
          callVal fuel cfg fr (.fn fr.tmpl) args tail st
        else match callee with
          | .val i => callCell fuel cfg fr i args tail st
          | _ => match eval fuel cfg fr callee false st with
            | (.val (.err m), st') => (.val (.err m), st')
            | (.val c, st') => callVal fuel cfg fr c args tail st'
            | (.tail _, st') => (.stuck "tail escaped", st')
            | r => r

  /-- a call whose callee is a cell (a call by name in the source) -/
  def callCell (fuel : Nat) (cfg : Cfg) (fr : RFrame) (i : Nat) (args : List XE) (tail : Bool) (st : St) : CRes × St :=
    match fuel with
    | 0 => (.oof, st)
    | fuel + 1 =>
      match getCell fr i with
      | none => (.stuck "cell index", st)
      | some raw =>
        match readValue (fr.height + 2) fr fr raw with
        | .val c => callVal fuel cfg fr c args tail st
        | r => (r, st)

  /-- a call of a library function -/
  def builtinStage (fuel : Nat) (cfg : Cfg) (fr : RFrame) (name : String) (args : List XE) (tail : Bool) (st : St) : CRes × St :=
    match fuel with
    | 0 => (.oof, st)
    | fuel + 1 => builtin fuel cfg fr name args tail st

  /-- `eval_func_with_expressions` (:389-407) -/
  def callVal (fuel : Nat) (cfg : Cfg) (fr : RFrame) (c : CVal) (args : List XE) (_tail : Bool) (st : St) : CRes × St :=
    match fuel with
    | 0 => (.oof, st)
    | fuel + 1 =>
      match c with
      | .fn t =>
        match evalList fuel cfg fr args st with
        | (.ok vs, st') => callUser fuel cfg fr t vs st'
        | (.error r, st') => (r, st')
      | .err m => (.val (.err m), st)
      | _ => (.stuck "call of a non-function", st)

  def evalList (fuel : Nat) (cfg : Cfg) (fr : RFrame) (es : List XE) (st : St) : Except CRes (List CVal) × St :=
    match fuel with
    | 0 => (.error .oof, st)
    | fuel + 1 =>
      match es with
      | [] => (.ok [], st)
      | e :: rest => match eval fuel cfg fr e false st with
          | (.val (.err m), st') => (.error (.val (.err m)), st')
          | (.val v, st') => match evalList fuel cfg fr rest st' with
              | (.ok vs, st'') => (.ok (v :: vs), st'')
              | r => r
          | (.tail _, st') => (.error (.stuck "tail escaped"), st')
          | (r, st') => (.error r, st')

  /-- `to_function` / `from_specs` (:118-169): the cells from the specs against the creating activation, the
  defaults evaluated now, in it -/
  def mkTemplate (fuel : Nat) (cfg : Cfg) (fr : RFrame) (cell : Nat) (f : CFunc) (st : St) : CRes × St :=
    match fuel with
    | 0 => (.oof, st)
    | fuel + 1 =>
      match fromSpecs f.cells (some fr) with
      | .error w => (.stuck w, st)
      | .ok cells =>
        match evalDflts fuel cfg fr (f.paramLen - f.defaults.length) f.defaults st with
        | (.ok ds, st') =>
          (.val (.fn (.mk (fr.tmpl.id ++ [cell]) (some fr.tmpl.id) cells f.decls f.paramLen ds (some f.out))), st')
        | (.error r, st') => (r, st')

  /-- the default expressions, left to right; `skip` = the number of required parameters in front of them (no
  evaluation; one unit of fuel each, as `Core.evalDflts` walks over them) -/
  def evalDflts (fuel : Nat) (cfg : Cfg) (fr : RFrame) (skip : Nat) (ds : List XE) (st : St) : Except CRes (List CVal) × St :=
    match fuel with
    | 0 => (.error .oof, st)
    | fuel + 1 =>
      match skip with
      | skip + 1 => evalDflts fuel cfg fr skip ds st
      | 0 =>
        match ds with
        | [] => (.ok [], st)
        | d :: rest => match eval fuel cfg fr d false st with
            | (.val v, st') => match evalDflts fuel cfg fr 0 rest st' with
                | (.ok vs, st'') => (.ok (v :: vs), st'')
                | r => r
            | (.tail _, st') => (.error (.stuck "tail escaped"), st')
            | (r, st') => (.error r, st')

  /-- `eval_func_with_values` (:409-454): error arguments, the call counter, then the trampoline -/
  def callUser (fuel : Nat) (cfg : Cfg) (caller : RFrame) (t : Tmpl) (args : List CVal) (st : St) : CRes × St :=
    match fuel with
    | 0 => (.oof, st)
    | fuel + 1 =>
      match firstErr args with
      | some e => (.val e, st)
      | none =>
        match cfg.callLimit with
        | some l =>
            let st' := { st with calls := st.calls + 1 }
            if st'.calls ≥ l then (.viol .calls, st') else tramp fuel cfg caller t args 0 st'
        | none => tramp fuel cfg caller t args 0 st

  def tramp (fuel : Nat) (cfg : Cfg) (caller : RFrame) (t : Tmpl) (args : List CVal) (rec : Nat) (st : St) : CRes × St :=
    match fuel with
    | 0 => (.oof, st)
    | fuel + 1 =>
      match (match initFrame cfg t (some caller) with
             | .error r => (Except.error r, st)
             | .ok fr0 => match runParams fr0 t.decls args with
               | .error r => (Except.error r, st)
               | .ok (fr1, rest) => runDecls fuel cfg fr1 rest args st) with
      | (.error r, st') => (r, st')
      | (.ok fr, st') =>
        match t.out with
        | none => (.stuck "template without output", st')
        | some out =>
          match eval fuel cfg fr out true st' with
          | (.tail newArgs, st'') =>
              let rec' := rec + 1
              if (match cfg.recLimit with | some l => decide (rec' > l) | none => false) then (.viol .recursion, st'')
              else tramp fuel cfg caller t newArgs rec' st''
          | r => r

  /-- the declarations of an activation after the parameters, in order (:227-260) -/
  def runDecls (fuel : Nat) (cfg : Cfg) (fr : RFrame) (ds : List CDecl) (args : List CVal) (st : St) :
      Except CRes RFrame × St :=
    match fuel with
    | 0 => (.error .oof, st)
    | fuel + 1 =>
      match ds with
      | [] => (.ok fr, st)
      | .param cell argIdx :: rest =>
        let v : Option CVal := match args[argIdx]? with
          | some a => some a
          | none => fr.tmpl.defaults[argIdx - (fr.tmpl.paramCount - fr.tmpl.defaults.length)]?
        (match v with
         | none => (.error (.stuck "arity"), st)
         | some v => match fr.put cell v with
           | none => (.error (.stuck "attempted to write to templated cell"), st)
           | some fr' => runDecls fuel cfg fr' rest args st)
      | .value cell e :: rest =>
        (match eval fuel cfg fr e false st with
         | (.val v, st') => (match fr.put cell v with
             | none => (.error (.stuck "attempted to write to templated cell"), st')
             | some fr' => runDecls fuel cfg fr' rest args st')
         | (.tail _, st') => (.error (.stuck "tail escaped"), st')
         | (r, st') => (.error r, st'))
      | .func cell f :: rest =>
        (match mkTemplate fuel cfg fr cell f st with
         | (.val v, st') => (match fr.put cell v with
             | none => (.error (.stuck "attempted to write to templated cell"), st')
             | some fr' => runDecls fuel cfg fr' rest args st')
         | (.tail _, st') => (.error (.stuck "tail escaped"), st')
         | (r, st') => (.error r, st'))

  /-- natives: as in `Core.builtin` -/
  def builtin (fuel : Nat) (cfg : Cfg) (fr : RFrame) (f : String) (args : List XE) (tail : Bool) (st : St) : CRes × St :=
    match fuel with
    | 0 => (.oof, st)
    | fuel + 1 =>
      match f, args with
      | "if", [c, a, b] => match eval fuel cfg fr c false st with
          | (.val (.bool t), st') => eval fuel cfg fr (if t then a else b) tail st'
          | (.val (.err m), st') => (.val (.err m), st')
          | (.val _, st') => (.stuck "if", st')
          | (.tail _, st') => (.stuck "tail escaped", st')
          | r => r
      | "and", [a, b] => match eval fuel cfg fr a false st with
          | (.val (.bool true), st') => eval fuel cfg fr b tail st'
          | (.val (.bool false), st') => (.val (.bool false), st')
          | (.val (.err m), st') => (.val (.err m), st')
          | (.val _, st') => (.stuck "and", st')
          | (.tail _, st') => (.stuck "tail escaped", st')
          | r => r
      | "or", [a, b] => match eval fuel cfg fr a false st with
          | (.val (.bool false), st') => eval fuel cfg fr b tail st'
          | (.val (.bool true), st') => (.val (.bool true), st')
          | (.val (.err m), st') => (.val (.err m), st')
          | (.val _, st') => (.stuck "or", st')
          | (.tail _, st') => (.stuck "tail escaped", st')
          | r => r
      | "if_error", [a, b] => match eval fuel cfg fr a false st with
          | (.val (.err _), st') => eval fuel cfg fr b tail st'
          | (.val v, st') => (.val v, st')
          | (.tail _, st') => (.stuck "tail escaped", st')
          | r => r
      | "is_error", [a] => match eval fuel cfg fr a false st with
          | (.val v, st') => (.val (.bool v.isErr), st')
          | (.tail _, st') => (.stuck "tail escaped", st')
          | r => r
      | "display", [a] => match eval fuel cfg fr a false st with
          | (.val (.err m), st') => (.val (.err m), st')
          | (.val v, st') => match toStr v with
              | some s => (.val v, { st' with out := st'.out ++ [s] })
              | none => (.stuck "display", st')
          | (.tail _, st') => (.stuck "tail escaped", st')
          | r => r
      | _, _ =>
          if Core.isStrictPrim f then
            match evalList fuel cfg fr args st with
            | (.ok vs, st') => (cprim f vs, st')
            | (.error r, st') => (r, st')
          else (.stuck ("unknown function " ++ f), st)
end

/-- `from_template` (:180-263): the new activation, its parameters, then its declarations (the loop of `tramp`
does exactly this) -/
def fromTemplate (fuel : Nat) (cfg : Cfg) (t : Tmpl) (stackParent : Option RFrame) (args : List CVal) (st : St) :
    Except CRes RFrame × St :=
  match initFrame cfg t stackParent with
  | .error r => (.error r, st)
  | .ok fr0 => match runParams fr0 t.decls args with
    | .error r => (.error r, st)
    | .ok (fr1, rest) => runDecls fuel cfg fr1 rest args st

/-- the root template (`RootEvaluationScope::from_compilation_scope`, `root_runtime_scope.rs` :36-66) and its
activation (`fuel` is what the declarations get, as in `Core.runProgram`) -/
def runRoot (fuel : Nat) (cfg : Cfg) (root : Scope) : Except CRes RFrame × St :=
  match fromSpecs root.cells none with
  | .error w => (.error (.stuck w), {})
  | .ok cells => fromTemplate fuel cfg (.mk [] none cells root.decls 0 [] none) none [] {}

/-- compile a program with the scope model and run it on the cell machine -/
def compileAndRun (cfuel fuel : Nat) (cfg : Cfg) (ds : List SDecl) : Except Err (Scope × (Except CRes RFrame × St)) :=
  match compileProgram cfuel ds with
  | .error e => .error e
  | .ok root => .ok (root, runRoot fuel cfg root)

/-- `get_value` (:68-90): the value of a top-level variable -/
def getValue (root : Scope) (fr : RFrame) (x : String) : Option CVal :=
  match Scope.lookup x root.vars with
  | none => none
  | some k => match getCell fr k with
    | some (.value v) => some v
    | _ => none

end XrayModel.CellRun
