/-
Model of overload resolution, `CompilationScope::resolve_overload` (compilation_scope.rs, the loop over the
candidates and the decision after it), over the `Types` model.

A candidate is what the loop sees: a static overload (its spec, from a user `fn` or a native) or the result of a
dynamic function's factory for the argument types at hand (its produced spec; a factory that fails is not a
candidate — it only contributes to the `dynamic_failures` of the `NoOverload` message).  `height` is the scope
level the candidate was declared at; it is carried along (the capture it produces depends on it) but takes no
part in the choice.

Buckets, in order of preference (after the repair `fix: … dynamic matches now rank below static ones`):
* static matches for which `is_generic ^ is_unknown` is false  ("exact"),
* static matches for which it is true,
* dynamic matches.
`is_unknown` = some argument type contains `unknown`; a candidate flagged `short_circuit_overloads` that matches
returns immediately (in list order).
-/
import XrayModel.Types
namespace XrayModel

inductive CandKind where
  | static | dynamic
  deriving DecidableEq, Repr

structure Cand where
  id : Nat
  spec : FuncSpec
  kind : CandKind
  height : Nat := 0
  /-- a static overload one of whose forward requirements is unfulfilled at the point of the lookup (a
  `forward fn` declaration whose implementation has not been declared yet) -/
  pending : Bool := false
  deriving Repr

inductive Res where
  | ok (id : Nat)
  /-- `AmbiguousOverload{is_generic, items}` -/
  | ambiguous (isGeneric : Bool) (items : Nat)
  | noOverload
  deriving DecidableEq, Repr

/-- `spec.bind(arg_types)` succeeded -/
def Cand.matches (c : Cand) (args : List Ty) : Bool := (specBind c.spec args).isSome

/-- which bucket a matching candidate is pushed to: 0 exact, 1 generic, 2 dynamic -/
def Cand.bucket (c : Cand) (isUnk : Bool) : Nat :=
  match c.kind with
  | .dynamic => 2
  | .static => if c.spec.isGeneric != isUnk then 1 else 0

/-- the decision after the loop -/
def decide3 (isUnk : Bool) (exact generic dynamic : List Cand) : Res :=
  match exact with
  | [c] => .ok c.id
  | _ :: _ :: _ => .ambiguous isUnk exact.length
  | [] =>
    match generic with
    | [c] => .ok c.id
    | _ :: _ :: _ => .ambiguous (!isUnk) generic.length
    | [] =>
      match dynamic with
      | [c] => .ok c.id
      | _ :: _ :: _ => .ambiguous true dynamic.length
      | [] => .noOverload

/-- the loop, with the three vectors as accumulators (pushed at the end, as `Vec::push`) -/
def resolveLoop (isUnk : Bool) (args : List Ty) : List Cand → List Cand → List Cand → List Cand → Res
  | [], exact, generic, dynamic => decide3 isUnk exact generic dynamic
  | c :: cs, exact, generic, dynamic =>
    if c.matches args then
      if c.spec.shortCircuit then .ok c.id
      else
        match c.bucket isUnk with
        | 0 => resolveLoop isUnk args cs (exact ++ [c]) generic dynamic
        | 1 => resolveLoop isUnk args cs exact (generic ++ [c]) dynamic
        | _ => resolveLoop isUnk args cs exact generic (dynamic ++ [c])
    else resolveLoop isUnk args cs exact generic dynamic

def resolve (cs : List Cand) (args : List Ty) : Res :=
  resolveLoop (anyUnknown args) args cs [] [] []

/-! ### candidate collection across scopes: `CompilationScope::get_item` for a function name
(compilation_scope.rs, the `functions` arm).  A scope level holds the overloads of the name registered in that scope
(`self.functions.get(name)`, in registration order; for the body scope of a function of that name this includes the
function itself, registered by `add_recourse`) and, if the scope is the body of a function of that name, that
function's type (`recourse_xtype`).  Levels are listed innermost first.  A scope without an entry for the name
delegates to its parent.  The parent's overloads are appended; in the body of a function of that name a parent
overload is skipped exactly when it is static, its type equals (`==`) the type of the function being compiled and
it has an unfulfilled forward requirement towards the declaring scope - i.e. only the function's OWN pending
forward declaration. -/
structure ScopeLevel where
  funcs : List Cand
  recourse : Option Ty := none
  /-- `self.height`; a candidate's `height` is the height of the scope that registered it -/
  height : Nat := 0
  deriving Repr

/-- the function's own forward declaration: same type, still pending, and declared in the scope the function itself
is declared in, i.e. the parent of the body scope (`freq.ancestor_height + 1 == self.height`) -/
def skipOwnForward (rt : Ty) (selfHeight : Nat) (c : Cand) : Bool :=
  match c.kind with
  | .static => Ty.beq c.spec.xtype rt && (c.pending && c.height + 1 == selfHeight)
  | .dynamic => false

def getItem : List ScopeLevel → Option (List Cand)
  | [] => none
  | l :: parents =>
    match l.funcs with
    | [] => getItem parents
    | _ :: _ =>
      match getItem parents with
      | none => some l.funcs
      | some ps =>
        match l.recourse with
        | some rt => some (l.funcs ++ ps.filter fun c => !(skipOwnForward rt l.height c))
        | none => some (l.funcs ++ ps)

/-- overload resolution at a call site: `None` from `get_item` is "no such function" (reported as NoOverload by
`get_func`; a plain call of an unknown name is a different error, not produced by the generated programs) -/
def resolveAt (levels : List ScopeLevel) (args : List Ty) : Res :=
  match getItem levels with
  | none => .noOverload
  | some cs => resolve cs args

/-! renaming of generic parameter names -/
mutual
def renameTy (σ : String → String) : Ty → Ty
  | .generic n => .generic (σ n)
  | .tuple ts => .tuple (renameList σ ts)
  | .native n ts => .native n (renameList σ ts)
  | .compound k n ts => .compound k n (renameList σ ts)
  | .callable ps r => .callable (renameList σ ps) (renameTy σ r)
  | .func g ps n r => .func (g.map (·.map σ)) (renameList σ ps) n (renameTy σ r)
  | t => t
def renameList (σ : String → String) : List Ty → List Ty
  | [] => []
  | t :: ts => renameTy σ t :: renameList σ ts
end

def FuncSpec.rename (σ : String → String) (f : FuncSpec) : FuncSpec :=
  { f with gens := f.gens.map (·.map σ), ps := renameList σ f.ps, ret := renameTy σ f.ret }

def Cand.rename (σ : String → String) (c : Cand) : Cand := { c with spec := c.spec.rename σ }

end XrayModel
