/-
Static typing of the core fragment (C01).

`XrayModel/Core.lean` evaluates *erased* programs (no type annotations, as the interpreter does).
This file adds the annotated syntax the compiler sees (`TExpr`, `TDecl`, `TFunc`: parameters carry
their declared type, named functions their declared result type), its erasure to `Core.Expr`, a
small type language and an executable checker written from the documented rules
(book: lang/types.md, lang/functions.md, lang/lambda_functions.md), restricted to the fragment:

* types: `int | bool | str | (T0, T1, ..) | Sequence<T> | (P.., O?..)->(R)` and the bottom type
  `unk` ("Unknown": no values; what `error(..)` returns and what an empty literal holds);
* assignability `sub`: `unk` goes anywhere, tuples and sequences are covariant, function types must
  be equal;
* a call by name resolves to the nearest binding of that name (parameter, local, enclosing
  function, the function being defined) and otherwise to the builtin of that name, whose signature
  is chosen by the argument types (`add` on ints or strings, `eq` on ints, bools or strings, ..);
  arguments: at least the required, at most required + optional parameters, each assignable;
* optional parameters are trailing, their defaults are checked in the defining scope;
* `if`/`if_error` join their branches (`join a b` = the larger of two comparable types).
-/
import XrayModel.Core
namespace XrayModel.CoreTyping
open XrayModel.Core

inductive Ty where
  | int | bool | str
  /-- bottom ("Unknown"): only error values -/
  | unk
  | tup (ts : List Ty)
  | arr (t : Ty)
  /-- required parameters, trailing optional parameters, result -/
  | fn (req : List Ty) (opt : List Ty) (ret : Ty)
  deriving Repr, Inhabited

/- structural equality of types (decidable equality is not derivable for a nested inductive) -/
mutual
  def Ty.beq : Ty → Ty → Bool
    | .int, .int => true
    | .bool, .bool => true
    | .str, .str => true
    | .unk, .unk => true
    | .tup as, .tup bs => Ty.beqList as bs
    | .arr a, .arr b => Ty.beq a b
    | .fn r o t, .fn r' o' t' => Ty.beqList r r' && Ty.beqList o o' && Ty.beq t t'
    | _, _ => false
  def Ty.beqList : List Ty → List Ty → Bool
    | [], [] => true
    | a :: as, b :: bs => Ty.beq a b && Ty.beqList as bs
    | _, _ => false
end

mutual
  inductive TExpr where
    | int (n : Int)
    | bool (b : Bool)
    | str (s : String)
    | var (x : String)
    | call (f : String) (args : List TExpr)
    | callE (f : TExpr) (args : List TExpr)
    | lam (fn : TFunc)
    | tup (es : List TExpr)
    | item (e : TExpr) (i : Nat)
    | arr (es : List TExpr)
  inductive TParam where
    | mk (name : String) (ty : Ty) (dflt : Option TExpr)
  inductive TDecl where
    | letD (x : String) (ann : Option Ty) (e : TExpr)
    | fnD (f : TFunc)
  inductive TFunc where
    /-- `ret`: declared result type (mandatory for a named function, absent for a lambda) -/
    | mk (name : Option String) (params : List TParam) (ret : Option Ty) (decls : List TDecl) (body : TExpr)
end

/-! ### erasure to the evaluator's syntax -/
mutual
  def eraseE : TExpr → Expr
    | .int n => .int n
    | .bool b => .bool b
    | .str s => .str s
    | .var x => .var x
    | .call f args => .call f (eraseEs args)
    | .callE f args => .callE (eraseE f) (eraseEs args)
    | .lam fn => .lam (eraseF fn)
    | .tup es => .tup (eraseEs es)
    | .item e i => .item (eraseE e) i
    | .arr es => .arr (eraseEs es)
  def eraseEs : List TExpr → List Expr
    | [] => []
    | e :: es => eraseE e :: eraseEs es
  def eraseP : TParam → Param
    | .mk n _ none => .mk n none
    | .mk n _ (some d) => .mk n (some (eraseE d))
  def erasePs : List TParam → List Param
    | [] => []
    | p :: ps => eraseP p :: erasePs ps
  def eraseD : TDecl → Decl
    | .letD x _ e => .letD x (eraseE e)
    | .fnD f => .fnD (eraseF f)
  def eraseDs : List TDecl → List Decl
    | [] => []
    | d :: ds => eraseD d :: eraseDs ds
  def eraseF : TFunc → Func
    | .mk n ps _ ds b => .mk n (erasePs ps) (eraseDs ds) (eraseE b)
end

/-! ### assignability -/
mutual
  def sub : Ty → Ty → Bool
    | .unk, _ => true
    | .int, .int => true
    | .bool, .bool => true
    | .str, .str => true
    | .tup as, .tup bs => subList as bs
    | .arr a, .arr b => sub a b
    | .fn r o t, .fn r' o' t' => Ty.beqList r r' && Ty.beqList o o' && Ty.beq t t'
    | _, _ => false
  def subList : List Ty → List Ty → Bool
    | [], [] => true
    | a :: as, b :: bs => sub a b && subList as bs
    | _, _ => false
end

/-- the common type of two branches: the larger of two comparable types -/
def join (a b : Ty) : Option Ty :=
  if sub a b then some b else if sub b a then some a else none

def joinAll : Ty → List Ty → Option Ty
  | acc, [] => some acc
  | acc, t :: ts => match join acc t with
    | some j => joinAll j ts
    | none => none

abbrev TyEnv := List (String × Ty)

def lookupTy (x : String) : TyEnv → Option Ty
  | [] => none
  | (y, t) :: rest => if x = y then some t else lookupTy x rest

/-- arguments against a parameter list: at least the required ones, at most all, each assignable -/
def checkArgs : List Ty → List Ty → List Ty → Bool
  | [], _, [] => true
  | [], [], _ :: _ => false
  | [], o :: os, a :: as => sub a o && checkArgs [] os as
  | _ :: _, _, [] => false
  | r :: rs, os, a :: as => sub a r && checkArgs rs os as

def printable : Ty → Bool
  | .int | .bool | .str | .unk => true
  | _ => false

/-- the strict natives of the fragment: result type for the given argument types -/
def primTy (f : String) (args : List Ty) : Option Ty :=
  match f, args with
  | "add", [a, b] =>
      if sub a .int && sub b .int then some .int
      else if sub a .str && sub b .str then some .str else none
  | "sub", [a, b] | "mul", [a, b] | "mod", [a, b] | "div_floor", [a, b] =>
      if sub a .int && sub b .int then some .int else none
  | "neg", [a] => if sub a .int then some .int else none
  | "lt", [a, b] | "le", [a, b] | "gt", [a, b] | "ge", [a, b] | "ne", [a, b] =>
      if sub a .int && sub b .int then some .bool else none
  | "eq", [a, b] =>
      if (sub a .int && sub b .int) || (sub a .bool && sub b .bool) || (sub a .str && sub b .str)
      then some .bool else none
  | "not", [a] => if sub a .bool then some .bool else none
  | "to_str", [a] => if printable a then some .str else none
  | "len", [.arr _] => some .int
  | "len", [.unk] => some .int
  | "error", [a] => if sub a .str then some .unk else none
  | _, _ => none

/-- the natives that choose which argument to evaluate -/
def lazyTy (f : String) (args : List Ty) : Option Ty :=
  match f, args with
  | "if", [c, a, b] => if sub c .bool then join a b else none
  | "and", [a, b] | "or", [a, b] => if sub a .bool && sub b .bool then some .bool else none
  | "if_error", [a, b] => join a b
  | "is_error", [_] => some .bool
  | "display", [a] => if printable a then some a else none
  | _, _ => none

def isLazy (f : String) : Bool := f ∈ ["if", "and", "or", "if_error", "is_error", "display"]

def builtinTy (f : String) (args : List Ty) : Option Ty :=
  if isLazy f then lazyTy f args
  else if isStrictPrim f then primTy f args
  else none

def TParam.name : TParam → String | .mk n _ _ => n
def TParam.ty : TParam → Ty | .mk _ t _ => t
def TParam.dflt : TParam → Option TExpr | .mk _ _ d => d

/-- the bindings a parameter list adds to the body's scope (last parameter nearest) -/
def paramEnv : List TParam → TyEnv
  | [] => []
  | p :: ps => paramEnv ps ++ [(p.name, p.ty)]

mutual
  def check (Γ : TyEnv) : TExpr → Option Ty
    | .int _ => some .int
    | .bool _ => some .bool
    | .str _ => some .str
    | .var x => lookupTy x Γ
    | .tup es => (checkList Γ es).map Ty.tup
    | .arr es => match checkList Γ es with
        | some ts => (joinAll .unk ts).map Ty.arr
        | none => none
    | .item e i => match check Γ e with
        | some (.tup ts) => ts[i]?
        | _ => none
    | .lam f => checkFunc Γ f
    | .call f args => match checkList Γ args with
        | none => none
        | some ats => match lookupTy f Γ with
          | some (.fn req opt ret) => if checkArgs req opt ats then some ret else none
          | some _ => none
          | none => builtinTy f ats
    | .callE fe args => match check Γ fe, checkList Γ args with
        | some (.fn req opt ret), some ats => if checkArgs req opt ats then some ret else none
        | _, _ => none
  def checkList (Γ : TyEnv) : List TExpr → Option (List Ty)
    | [] => some []
    | e :: es => match check Γ e, checkList Γ es with
        | some t, some ts => some (t :: ts)
        | _, _ => none
  /-- parameters: (required types, optional types); optional parameters are trailing and their
  defaults are checked in the defining scope `Γ` -/
  def checkParams (Γ : TyEnv) : List TParam → Option (List Ty × List Ty)
    | [] => some ([], [])
    | .mk _ t none :: ps => match checkParams Γ ps with
        | some (req, opt) => some (t :: req, opt)
        | none => none
    | .mk _ t (some d) :: ps => match check Γ d, checkParams Γ ps with
        | some dt, some ([], opt) => if sub dt t then some ([], t :: opt) else none
        | _, _ => none
  def checkFunc (Γ : TyEnv) : TFunc → Option Ty
    | .mk name ps ret ds body => match checkParams Γ ps with
        | none => none
        | some (req, opt) =>
          match name, ret with
          | some n, some ρ =>
              match checkDecls (paramEnv ps ++ Γ ++ [(n, .fn req opt ρ)]) ds with
              | none => none
              | some Γ' => match check Γ' body with
                | some τ => if sub τ ρ then some (.fn req opt ρ) else none
                | none => none
          | some _, none => none
          | none, some ρ =>
              match checkDecls (paramEnv ps ++ Γ) ds with
              | none => none
              | some Γ' => match check Γ' body with
                | some τ => if sub τ ρ then some (.fn req opt ρ) else none
                | none => none
          | none, none =>
              match checkDecls (paramEnv ps ++ Γ) ds with
              | none => none
              | some Γ' => (check Γ' body).map (Ty.fn req opt)
  def checkDecls (Γ : TyEnv) : List TDecl → Option TyEnv
    | [] => some Γ
    | .letD x ann e :: ds => match check Γ e with
        | none => none
        | some τ => match ann with
          | none => checkDecls ((x, τ) :: Γ) ds
          | some α => if sub τ α then checkDecls ((x, α) :: Γ) ds else none
    | .fnD f :: ds => match f with
        | .mk (some n) _ _ _ _ => match checkFunc Γ f with
            | some σ => checkDecls ((n, σ) :: Γ) ds
            | none => none
        | .mk none _ _ _ _ => none
end

/-- a program is a list of top-level declarations checked from the empty scope -/
def checkProgram (ds : List TDecl) : Option TyEnv := checkDecls [] ds

end XrayModel.CoreTyping

namespace XrayModel.CoreTyping
open XrayModel.Core

/-! ### value typing

`HasTy v τ`: the run-time value `v` has the shape of the static type `τ`. An error value inhabits
every type (a cell of the interpreter holds `Result<value, error>`); a closure is typed by its code:
it is the erasure of an annotated function that checks, under a typing of the bindings it captured,
at exactly the function type claimed, and the default values it stores have the optional
parameters' types. -/
mutual
  inductive HasTy : Val → Ty → Prop
    | int (n : Int) : HasTy (.int n) .int
    | bool (b : Bool) : HasTy (.bool b) .bool
    | str (s : String) : HasTy (.str s) .str
    | err (m : String) (τ : Ty) : HasTy (.err m) τ
    | tup {vs : List Val} {ts : List Ty} : HasTys vs ts → HasTy (.tup vs) (.tup ts)
    | arr {vs : List Val} {t : Ty} : AllTy vs t → HasTy (.arr vs) (.arr t)
    | clos {env : List (String × Val)} {Γ : TyEnv} {tf : TFunc} {f : Func} {dflts : List Val}
        {req opt : List Ty} {ret : Ty} :
        EnvTy env Γ → checkFunc Γ tf = some (.fn req opt ret) → eraseF tf = f → HasTys dflts opt →
        HasTy (.clos f dflts env) (.fn req opt ret)
  inductive HasTys : List Val → List Ty → Prop
    | nil : HasTys [] []
    | cons {v : Val} {t : Ty} {vs : List Val} {ts : List Ty} : HasTy v t → HasTys vs ts → HasTys (v :: vs) (t :: ts)
  inductive AllTy : List Val → Ty → Prop
    | nil {t : Ty} : AllTy [] t
    | cons {v : Val} {t : Ty} {vs : List Val} : HasTy v t → AllTy vs t → AllTy (v :: vs) t
  inductive EnvTy : List (String × Val) → TyEnv → Prop
    | nil : EnvTy [] []
    | cons {x : String} {v : Val} {t : Ty} {env : List (String × Val)} {Γ : TyEnv} :
        HasTy v t → EnvTy env Γ → EnvTy ((x, v) :: env) ((x, t) :: Γ)
end

end XrayModel.CoreTyping
